import CuqiVerif.Model.Proto
import CuqiVerif.Model.QMat
import CuqiVerif.Model.C16_glue
open CuqiVerif CuqiVerif.Proto CuqiVerif.C16

/-! Line protocol for C16 (all numbers exact rationals):
  cgls  mat A b x0 shift tol maxit          | cgls  fun F G b x0 shift tol maxit   (G = adjoint as a matrix)
  pcgls mat H A P b x0 shift tol maxit      | pcgls fun F G H P b x0 shift tol maxit   (H = inv | solve: explicit inverse or spsolve branch)
      -> k|flag|x|gamma|x_0;x_1;…;x_k|gamma_0,…,gamma_k        (err-dim on shape mismatch, err-singular if P is singular)
  fista mat A b x0 PROX stepsize abstol maxit adaptive | fista fun F G b x0 PROX …
      PROX = l1:λ | nonneg | box:l:u  (l, u vectors or `none`)     -> k|x
  prox l1 γ x | prox nonneg x | prox box x l u                       -> vector
  lm M Q b x0 nuInit nu0 gradtol maxit      residual r(x) = M x + Q (x∘x) − b, J(x) = M + 2 Q diag(x)
      -> i|x|x_0;…;x_i|nu-final
  lmstep M Q b x nu nu0                     -> x'|nu'   (one loop body of the model from the point x with damping nu)
  lbfgsb warnflag hasgrad                   -> success approx_grad msgcode
  mininfo hasjac hasnit                     -> grad=some|none nit=some|none   (info entries for fields SciPy does not report)
  mincall min|max method|None hasgrad kw,…  -> method|hasjac|kw,…   (the call handed to scipy.optimize.minimize)
 glue (Model/C16_glue.lean); PYNUM = rational | nan | inf | -inf (the `maxit` argument as given to the constructor)
  pyint PYNUM                               -> ok:<int> | err:ValueError | err:OverflowError
  cglspy mat|fun … b x0 shift tol PYNUM     -> k|x | err:<class>          (`cglsSolve`)
  fistapy mat|fun … b x0 PROX t abstol PYNUM adaptive -> k|x | err:<class> (`fistaSolve`)
  lmpy M Q b x0 nuInit nu0 gradtol PYNUM    -> i|x | err:<class>          (`lmSolve`)
  pcsolve mat|fun … P b x0 shift tol PYNUM maxDimInv hasCholmod -> k|x|branch | err:<class>|branch   (`pcglsSolve`)
  lmexp A Jf x0 gradtol PYNUM               -> ok|r|J | err:explicit | err:<class>   (`lmSolveExplicit`, matrices A, Jf)
  dtype NAME                                -> promoted-name|atLeastDouble
  lbinfo warnflag                           -> x=1 success=… func=2 grad=3 nit=4 nfev=5 msg=…   (`wrapLbfgsb` on tagged fields)
  lbcall hasgrad kw,…                       -> fprime=0|1 approx_grad=N kw,…
  lscall JAC method loss tol PYNUM          -> jac|method|loss|xtol|max_nfev|accept|reject  | err:<class>   (JAC = None|callable|str:<s>)
  lsinfo                                    -> x=1 success=1 msg=M func=2 jac=3 nfev=4        (`wrapLS` on tagged fields)
  rewrap WRAPPER iscuqi                     -> cuqi|plain
  asbudget PYNUM                            -> ctor=<n|err> assigned=<n|unbounded> fista=<n|unbounded>
  lmtrace M Q b x0 nuInit nu0 gradtol maxit -> i|branch codes per pass (R,U,S,H,Z)|f non-increasing (1/0)
-/

def parseBool (s : String) : Option Bool :=
  if s = "1" then some true else if s = "0" then some false else none

def eps64 : Rat := mkRat 1 4503599627370496   -- numpy.finfo(float).eps = 2⁻⁵²

def toVec (n : Nat) (l : List Rat) : Option (Vector Rat n) :=
  if h : l.length = n then some ⟨l.toArray, by simp [h]⟩ else none

def toMat (m n : Nat) (A : List (List Rat)) : Option (Mat Rat m n) := do
  let rows ← A.mapM (toVec n)
  if h : rows.length = m then some ⟨rows.toArray, by simp [h]⟩ else none

def fmtV {n : Nat} (v : Vector Rat n) : String := fmtVec v.toList

def oQ (n : Nat) : VOps Rat (Vector Rat n) := vecOps n

/-- parsed operator: sizes and forward / adjoint maps -/
structure Oper where
  m : Nat
  n : Nat
  fwd : Vector Rat n → Vector Rat m
  adj : Vector Rat m → Vector Rat n

def operMat (A : List (List Rat)) : Option Oper :=
  let m := A.length
  let n := QMat.ncols A
  if m = 0 ∨ n = 0 then none else
  (toMat m n A).map (fun M => { m := m, n := n, fwd := mulVec M, adj := mulVecT M })

def operFun (F G : List (List Rat)) : Option Oper :=
  let m := F.length
  let n := QMat.ncols F
  if m = 0 ∨ n = 0 then none else do
    let Fm ← toMat m n F
    let Gm ← toMat n m G
    some { m := m, n := n, fwd := mulVec Fm, adj := mulVec Gm }

def parseOper (form : String) (args : List String) : Option (Option Oper × List String) :=
  match form, args with
  | "mat", a :: rest => (parseMat a).map (fun A => (operMat A, rest))
  | "fun", f :: g :: rest => do
      let F ← parseMat f
      let G ← parseMat g
      some (operFun F G, rest)
  | _, _ => none

def fmtCG {n m : Nat} (st : CGState Rat (Vector Rat n) (Vector Rat m)) (trace : List (Vector Rat n)) : String :=
  s!"{st.k}|{fmtBool st.flag}|{fmtV st.x}|{fmtRat st.gamma}|{";".intercalate (trace.map fmtV)}"

def fmtCG' {n m : Nat} (run : Nat → CGState Rat (Vector Rat n) (Vector Rat m)) (maxit : Nat) : String :=
  let st := run maxit
  let sts := (List.range (st.k + 1)).map run
  fmtCG st (sts.map (·.x)) ++ "|" ++ fmtVec (sts.map (·.gamma))

def runCgls (op : Oper) (b x0 : List Rat) (shift tol : Rat) (maxit : Nat) : String :=
  match toVec op.m b, toVec op.n x0 with
  | some b, some x0 =>
    fmtCG' (fun k => cgls (oQ op.n) (oQ op.m) op.fwd op.adj b shift tol eps64 x0 k) maxit
  | _, _ => "err-dim"

def runPcgls (op : Oper) (explicitInv : Bool) (P : List (List Rat)) (b x0 : List Rat) (shift tol : Rat) (maxit : Nat) : String :=
  match toVec op.m b, toVec op.n x0, toMat op.n op.n P with
  | some b, some x0, some Pm =>
    -- `scipy.sparse.linalg.inv` of a 1×1 matrix returns a 1-D array; `Pinv @ x` is then 0-d and `A @ t` raises
    -- (only once the loop body runs, i.e. `maxit ≥ 1`)
    if explicitInv && op.n == 1 && maxit ≥ 1 then "err-inv-1x1" else
    match QMat.inverse P with
    | none => "err-singular"
    | some Pi =>
      if !(QMat.isInverse P Pi) then "err-certificate" else
      match toMat op.n op.n Pi with
      | none => "err-certificate"
      | some Pim =>
        -- the certificate on the arrays `pcgls` is run with (hypothesis of the `_cert` theorems, `Props/C16_cert.lean`)
        if !(isInverseCert Pm Pim) then "err-certificate" else
        fmtCG' (fun k => pcgls (oQ op.n) (oQ op.m) op.fwd op.adj b tol eps64 (mulVec Pim) (mulVecT Pim) shift x0 k) maxit
  | _, _, _ => "err-dim"

/-- proximal map from its token; `none` = unparsable, `some none` = shape error -/
def parseProx (n : Nat) (tok : String) : Option (Option (Vector Rat n → Rat → Vector Rat n)) :=
  match tok.splitOn ":" with
  | ["l1", lam] => (parseRat lam).map (fun lam => some (fun x g => proximalL1 x (lam * g)))
  | ["nonneg"] => some (some (fun x _ => projectNonnegative x))
  | ["box", l, u] => do
      let lo ← if l = "none" then some none else (parseVec l).map some
      let up ← if u = "none" then some none else (parseVec u).map some
      let cv := fun (o : Option (List Rat)) => match o with
        | none => some (none : Option (Vector Rat n))
        | some v => (toVec n v).map some
      match cv lo, cv up with
      | some lo, some up => some (some (fun x _ => projectBox x lo up))
      | _, _ => some none
  | _ => none

def runFista (op : Oper) (b x0 : List Rat) (ptok : String) (t abstol : Rat) (maxit : Nat) (ad : Bool) : String :=
  match parseProx op.n ptok with
  | none => "bad-op"
  | some none => "err-dim"
  | some (some prox) =>
    match toVec op.m b, toVec op.n x0 with
    | some b, some x0 =>
      let (x, k) := fista (oQ op.n) (oQ op.m) op.fwd op.adj b prox t abstol maxit ad x0
      s!"{k}|{fmtV x}"
    | _, _ => "err-dim"

/-! LM test family: `r(x) = M x + Q (x∘x) − b`. -/
def lmRes {m n : Nat} (M Q : Mat Rat m n) (b : Vector Rat m) (x : Vector Rat n) : Vector Rat m :=
  (oQ m).sub ((oQ m).add (mulVec M x) (mulVec Q (Vector.zipWith (· * ·) x x))) b

def lmJac {m n : Nat} (M Q : Mat Rat m n) (x : Vector Rat n) : Mat Rat m n :=
  Vector.ofFn (fun i : Fin m => Vector.ofFn (fun j : Fin n => M[i][j] + 2 * Q[i][j] * x[j]))

def matList {m n : Nat} (A : Mat Rat m n) : List (List Rat) := A.toList.map (·.toList)

/-- `(JᵀJ + nu I)` as a list matrix -/
def lmSystem {m n : Nat} (J : Mat Rat m n) (nu : Rat) : List (List Rat) :=
  let Jl := matList J
  QMat.madd (QMat.mul (QMat.transposeN n Jl) Jl) (QMat.mscale nu (QMat.ident n))

def lmSolveQ {m n : Nat} (J : Mat Rat m n) (nu : Rat) (g : Vector Rat n) : Option (Vector Rat n) :=
  match QMat.solve (lmSystem J nu) g.toList with
  | none => none
  | some s => if QMat.solves (lmSystem J nu) s g.toList then toVec n s else none

def runLm (Ml Ql : List (List Rat)) (b x0 : List Rat) (nuInit nu0 gradtol : Rat) (maxit : Nat) : String :=
  let m := Ml.length
  let n := QMat.ncols Ml
  if m = 0 ∨ n = 0 then "err-dim" else
  match toMat m n Ml, toMat m n Ql, toVec m b, toVec n x0 with
  | some M, some Q, some b, some x0 =>
    let insolve := fun (J : Mat Rat m n) (nu : Rat) (g : Vector Rat n) => (lmSolveQ J nu g).getD (Vector.replicate n 0)
    let run := fun k => lm (oQ n) (oQ m) (lmRes M Q b) (lmJac M Q) (fun J r => mulVecT J r) insolve nu0 gradtol x0 nuInit k
    let st := run maxit
    let states := (List.range (st.i + 1)).map run
    -- certificate: every linear solve actually used had a (checked) solution
    let okAll := (states.take st.i).all (fun s => (lmSolveQ s.J s.nu s.g).isSome)
    if !okAll then "err-singular" else
    s!"{st.i}|{fmtV st.x}|{";".intercalate (states.map (fun s => fmtV s.x))}|{fmtRat st.nu}"
  | _, _, _, _ => "err-dim"

def orBad (o : Option String) : String := o.getD "bad-op"

def stepCgls (form : String) (args : List String) : Option String := do
  let (op, rest) ← parseOper form args
  match rest with
  | [b, x0, shift, tol, maxit] =>
    let b ← parseVec b
    let x0 ← parseVec x0
    let shift ← parseRat shift
    let tol ← parseRat tol
    let maxit ← maxit.toNat?
    match op with
    | some op => some (runCgls op b x0 shift tol maxit)
    | none => some "err-dim"
  | _ => none

def stepPcgls (form : String) (args : List String) : Option String := do
  let (op, rest) ← parseOper form args
  match rest with
  | [how, p, b, x0, shift, tol, maxit] =>
    let explicitInv ← (if how = "inv" then some true else if how = "solve" then some false else none)
    let P ← parseMat p
    let b ← parseVec b
    let x0 ← parseVec x0
    let shift ← parseRat shift
    let tol ← parseRat tol
    let maxit ← maxit.toNat?
    match op with
    | some op => some (runPcgls op explicitInv P b x0 shift tol maxit)
    | none => some "err-dim"
  | _ => none

def stepFista (form : String) (args : List String) : Option String := do
  let (op, rest) ← parseOper form args
  match rest with
  | [b, x0, ptok, t, abstol, maxit, ad] =>
    let b ← parseVec b
    let x0 ← parseVec x0
    let t ← parseRat t
    let abstol ← parseRat abstol
    let maxit ← maxit.toNat?
    let ad ← parseBool ad
    match op with
    | some op => some (runFista op b x0 ptok t abstol maxit ad)
    | none => some "err-dim"
  | _ => none

/-- one pass of the model's LM loop body from a given point and damping: `lmstep M Q b x nu nu0` -> `x'|nu'` -/
def runLmStep (Ml Ql : List (List Rat)) (b x : List Rat) (nu nu0 : Rat) : String :=
  let m := Ml.length
  let n := QMat.ncols Ml
  if m = 0 ∨ n = 0 then "err-dim" else
  match toMat m n Ml, toMat m n Ql, toVec m b, toVec n x with
  | some M, some Q, some b, some x =>
    let st0 := lmInit (oQ n) (oQ m) (lmRes M Q b) (lmJac M Q) (fun J r => mulVecT J r) x nu
    match lmSolveQ st0.J st0.nu st0.g with
    | none => "err-singular"
    | some _ =>
      let insolve := fun (J : Mat Rat m n) (nu : Rat) (g : Vector Rat n) => (lmSolveQ J nu g).getD (Vector.replicate n 0)
      let st := lmStep (oQ n) (oQ m) (lmRes M Q b) (lmJac M Q) (fun J r => mulVecT J r) insolve nu0 st0
      s!"{fmtV st.x}|{fmtRat st.nu}"
  | _, _, _, _ => "err-dim"

def stepLmStep (args : List String) : Option String :=
  match args with
  | [m, q, b, x, nu, nu0] => do
    let M ← parseMat m
    let Q ← parseMat q
    let b ← parseVec b
    let x ← parseVec x
    let nu ← parseRat nu
    let nu0 ← parseRat nu0
    some (runLmStep M Q b x nu nu0)
  | _ => none

def stepLm (args : List String) : Option String :=
  match args with
  | [m, q, b, x0, nuInit, nu0, gradtol, maxit] => do
    let M ← parseMat m
    let Q ← parseMat q
    let b ← parseVec b
    let x0 ← parseVec x0
    let nuInit ← parseRat nuInit
    let nu0 ← parseRat nu0
    let gradtol ← parseRat gradtol
    let maxit ← maxit.toNat?
    some (runLm M Q b x0 nuInit nu0 gradtol maxit)
  | _ => none

def stepProx (args : List String) : Option String :=
  match args with
  | ["l1", g, x] => do
    let g ← parseRat g
    let x ← parseVec x
    let v ← toVec x.length x
    some (fmtV (proximalL1 v g))
  | ["nonneg", x] => do
    let x ← parseVec x
    let v ← toVec x.length x
    some (fmtV (projectNonnegative v))
  | ["box", x, l, u] => do
    let x ← parseVec x
    let v ← toVec x.length x
    let f ← parseProx x.length s!"box:{l}:{u}"
    match f with
    | some f => some (fmtV (f v 0))
    | none => some "err-dim"
  | _ => none

def stepLbfgsb (args : List String) : Option String :=
  match args with
  | [wf, hg] => do
    let wf ← wf.toInt?
    let hg ← parseBool hg
    let (succ, msg) := lbfgsbStatus wf "TASK"
    some s!"{succ} {lbfgsbApproxGrad hg} {msg}"
  | _ => none

/-- `mincall <min|max> <method|None> <0|1> <kw,kw,…|_>` -> `method|hasjac|kw,kw,…` as handed to SciPy -/
def stepMincall (args : List String) : Option String :=
  match args with
  | [which, meth, hg, kws] => do
    let hg ← parseBool hg
    let m : Option String := if meth = "None" then none else some meth
    let kw : List String := if kws = "_" then [] else kws.splitOn ","
    let c ← (if which = "min" then some (minimizeCall m hg kw) else if which = "max" then some (maximizeCall m hg kw) else none)
    some s!"{c.method.getD "None"}|{fmtBool c.hasJac}|{if c.kwargs.isEmpty then "_" else ",".intercalate c.kwargs}"
  | _ => none

/-- `mininfo <hasjac> <hasnit>` -> `grad=<some|none> nit=<some|none>`: which `info` entries are `None`
    when SciPy's result lacks `jac` / `nit` (payloads are dummies) -/
def stepMininfo (args : List String) : Option String :=
  match args with
  | [hj, hn] => do
    let hj ← parseBool hj
    let hn ← parseBool hn
    let r : SciRes Nat Nat Nat := { x := 0, fn := 0, jac := if hj then some 7 else none, nit := if hn then some 3 else none,
                                    nfev := 1, success := true, message := "" }
    let info := (wrapMinimize r).2
    some s!"grad={if info.grad.isSome then "some" else "none"} nit={if info.nit.isSome then "some" else "none"}"
  | _ => none

/-! ## glue ops (Model/C16_glue.lean) -/

def parsePyNum (s : String) : Option PyNum :=
  if s = "nan" then some .nan else if s = "inf" then some .posInf else if s = "-inf" then some .negInf
  else (parseRat s).map .fin

def fmtCtorErr : CtorErr → String
  | .valueError => "err:ValueError"
  | .overflowError => "err:OverflowError"

def stepPyInt (args : List String) : Option String :=
  match args with
  | [p] => do
    let p ← parsePyNum p
    match pyInt p with
    | .ok n => some s!"ok:{n}"
    | .error e => some (fmtCtorErr e)
  | _ => none

def stepCglsPy (form : String) (args : List String) : Option String := do
  let (op, rest) ← parseOper form args
  match rest with
  | [b, x0, shift, tol, maxit] =>
    let b ← parseVec b
    let x0 ← parseVec x0
    let shift ← parseRat shift
    let tol ← parseRat tol
    let maxit ← parsePyNum maxit
    match op with
    | none => some "err-dim"
    | some op =>
      match toVec op.m b, toVec op.n x0 with
      | some b, some x0 =>
        match cglsSolve (oQ op.n) (oQ op.m) op.fwd op.adj b shift tol eps64 x0 maxit with
        | .ok (x, k) => some s!"{k}|{fmtV x}"
        | .error e => some (fmtCtorErr e)
      | _, _ => some "err-dim"
  | _ => none

def stepFistaPy (form : String) (args : List String) : Option String := do
  let (op, rest) ← parseOper form args
  match rest with
  | [b, x0, ptok, t, abstol, maxit, ad] =>
    let b ← parseVec b
    let x0 ← parseVec x0
    let t ← parseRat t
    let abstol ← parseRat abstol
    let maxit ← parsePyNum maxit
    let ad ← parseBool ad
    match op with
    | none => some "err-dim"
    | some op =>
      match parseProx op.n ptok with
      | none => none
      | some none => some "err-dim"
      | some (some prox) =>
        match toVec op.m b, toVec op.n x0 with
        | some b, some x0 =>
          match fistaSolve (oQ op.n) (oQ op.m) op.fwd op.adj b prox t abstol ad x0 maxit with
          | .ok (x, k) => some s!"{k}|{fmtV x}"
          | .error e => some (fmtCtorErr e)
        | _, _ => some "err-dim"
  | _ => none

def fmtBranch : PinvBranch → String
  | .explicitInv => "inv"
  | .cholmod => "cholmod"
  | .spsolve => "spsolve"

def stepPcSolve (form : String) (args : List String) : Option String := do
  let (op, rest) ← parseOper form args
  match rest with
  | [p, b, x0, shift, tol, maxit, mdi, hc] =>
    let P ← parseMat p
    let b ← parseVec b
    let x0 ← parseVec x0
    let shift ← parseRat shift
    let tol ← parseRat tol
    let maxit ← parsePyNum maxit
    let mdi ← mdi.toInt?
    let hc ← parseBool hc
    match op with
    | none => some "err-dim"
    | some op =>
      match toVec op.m b, toVec op.n x0, toMat op.n op.n P with
      | some b, some x0, some Pm =>
        match QMat.inverse P with
        | none => some "err-singular"
        | some Pi =>
          if !(QMat.isInverse P Pi) then some "err-certificate" else
          match toMat op.n op.n Pi with
          | none => some "err-certificate"
          | some Pim =>
            if !(isInverseCert Pm Pim) then some "err-certificate" else
            let br := fmtBranch (pinvBranch (op.n : Int) mdi hc)
            match pcglsSolve (oQ op.n) (oQ op.m) op.fwd op.adj b (op.n : Int) mdi hc (mulVec Pim) (mulVecT Pim) shift tol eps64 x0 maxit with
            | .ok (x, k) => some s!"{k}|{fmtV x}|{br}"
            | .error (.ctor e) => some s!"{fmtCtorErr e}|{br}"
            | .error .inv1x1 => some s!"err:inv1x1|{br}"
            | .error .cholmodAttr => some s!"err:cholmod|{br}"
      | _, _, _ => some "err-dim"
  | _ => none

def stepLmPy (args : List String) : Option String :=
  match args with
  | [m, q, b, x0, nuInit, nu0, gradtol, maxit] => do
    let Ml ← parseMat m
    let Ql ← parseMat q
    let b ← parseVec b
    let x0 ← parseVec x0
    let nuInit ← parseRat nuInit
    let nu0 ← parseRat nu0
    let gradtol ← parseRat gradtol
    let maxit ← parsePyNum maxit
    let mm := Ml.length
    let n := QMat.ncols Ml
    if mm = 0 ∨ n = 0 then some "err-dim" else
    match toMat mm n Ml, toMat mm n Ql, toVec mm b, toVec n x0 with
    | some M, some Q, some b, some x0 =>
      let insolve := fun (J : Mat Rat mm n) (nu : Rat) (g : Vector Rat n) => (lmSolveQ J nu g).getD (Vector.replicate n 0)
      match lmSolve (oQ n) (oQ mm) (lmRes M Q b) (lmJac M Q) (fun J r => mulVecT J r) insolve nu0 gradtol x0 nuInit maxit with
      | .ok (x, _, _, i) => some s!"{i}|{fmtV x}"
      | .error e => some (fmtCtorErr e)
    | _, _, _, _ => some "err-dim"
  | _ => none

def stepLmExp (args : List String) : Option String :=
  match args with
  | [a, j, x0, gradtol, maxit] => do
    let Al ← parseMat a
    let Jl ← parseMat j
    let x0 ← parseVec x0
    let gradtol ← parseRat gradtol
    let maxit ← parsePyNum maxit
    let mm := Al.length
    let n := QMat.ncols Al
    if mm = 0 ∨ n = 0 then some "err-dim" else
    match toMat mm n Al, toMat mm n Jl, toVec n x0 with
    | some A, some J, some x0 =>
      match lmSolveExplicit (oQ mm) (mulVec A) (mulVec J) gradtol x0 maxit with
      | .ok (_, r, Jv, _) => some s!"ok|{fmtV r}|{fmtV Jv}"
      | .error (.ctor e) => some (fmtCtorErr e)
      | .error .explicitBranch => some "err:explicit"
    | _, _, _ => some "err-dim"
  | _ => none

def dtypeTable : List (String × DType) :=
  [("bool", .bool), ("int8", .int8), ("uint8", .uint8), ("int16", .int16), ("uint16", .uint16), ("int32", .int32),
   ("uint32", .uint32), ("int64", .int64), ("uint64", .uint64), ("float16", .float16), ("float32", .float32),
   ("float64", .float64), ("longdouble", .longdouble), ("complex64", .complex64), ("complex128", .complex128)]

def stepDtype (args : List String) : Option String :=
  match args with
  | [nm] => do
    let d ← dtypeTable.lookup nm
    let p := promoteF64 d
    let pn ← (dtypeTable.find? (fun e => e.2 = p)).map (·.1)
    some s!"{pn}|{fmtBool p.atLeastDouble}"
  | _ => none

def kwList (kws : String) : List String := if kws = "_" then [] else kws.splitOn ","
def fmtKw (kw : List String) : String := if kw.isEmpty then "_" else ",".intercalate kw

def stepLbInfo (args : List String) : Option String :=
  match args with
  | [wf] => do
    let wf ← wf.toInt?
    let r : FminRes Nat Nat Nat := { x := 1, f := 2, grad := 3, task := "TASK", funcalls := 5, nit := 4, warnflag := wf }
    let (x, i) := wrapLbfgsb r
    some s!"x={x} success={i.success} func={i.func} grad={i.grad} nit={i.nit} nfev={i.nfev} msg={i.message}"
  | _ => none

def stepLbCall (args : List String) : Option String :=
  match args with
  | [hg, kws] => do
    let hg ← parseBool hg
    let c := lbfgsbCall hg (kwList kws)
    some s!"fprime={fmtBool c.hasFprime} approx_grad={c.approxGrad} {fmtKw c.kwargs}"
  | _ => none

def parseJacArg (s : String) : Option JacArg :=
  if s = "None" then some .none else if s = "callable" then some .callable
  else if s.startsWith "str:" then some (.str (s.drop 4).toString) else none

def fmtJacArg : JacArg → String
  | .none => "None"
  | .callable => "callable"
  | .str s => "str:" ++ s

def stepLsCall (args : List String) : Option String :=
  match args with
  | [jac, method, loss, tol, maxit] => do
    let jac ← parseJacArg jac
    let tol ← parseRat tol
    let maxit ← parsePyNum maxit
    match lsCall jac method loss tol maxit with
    | .error e => some (fmtCtorErr e)
    | .ok c => some s!"{fmtJacArg c.jac}|{c.method}|{c.loss}|{fmtRat c.xtol}|{c.maxNfev}|{if scipyJacOk c.jac then "accept" else "reject"}"
  | ["default"] =>
    match lsDefaultCall with
    | .error e => some (fmtCtorErr e)
    | .ok c => some s!"{fmtJacArg c.jac}|{c.method}|{c.loss}|{fmtRat c.xtol}|{c.maxNfev}|{if scipyJacOk c.jac then "accept" else "reject"}"
  | _ => none

def stepLsInfo (args : List String) : Option String :=
  match args with
  | [] =>
    let r : LsqRes Nat Nat Nat := { x := 1, fn := 2, jac := 3, nfev := 4, success := true, message := "M" }
    let (x, i) := wrapLS r
    some s!"x={x} success={fmtBool i.success} msg={i.message} func={i.func} jac={i.jac} nfev={i.nfev}"
  | _ => none

def stepRewrap (args : List String) : Option String :=
  match args with
  | [w, c] => do
    let c ← parseBool c
    match (wrapperSolution w (if c then some 7 else none) 1 : Sol Nat Nat) with
    | .plain _ => some "plain"
    | .cuqi _ g => some (if g = 7 then "cuqi" else "cuqi-other-geometry")
  | _ => none

/-- `lmtrace M Q b x0 nuInit nu0 gradtol maxit` -> `i|c_1,…,c_i|mono`: per pass the branch of the damping loop
    (`R` rejected; accepted: `U` nu raised, `S` nu kept, `H` nu halved, `Z` nu set to 0), and whether `f = ½‖r‖²` is non-increasing along the states -/
def runLmTrace (Ml Ql : List (List Rat)) (b x0 : List Rat) (nuInit nu0 gradtol : Rat) (maxit : Nat) : String :=
  let m := Ml.length
  let n := QMat.ncols Ml
  if m = 0 ∨ n = 0 then "err-dim" else
  match toMat m n Ml, toMat m n Ql, toVec m b, toVec n x0 with
  | some M, some Q, some b, some x0 =>
    let insolve := fun (J : Mat Rat m n) (nu : Rat) (g : Vector Rat n) => (lmSolveQ J nu g).getD (Vector.replicate n 0)
    let run := fun k => lm (oQ n) (oQ m) (lmRes M Q b) (lmJac M Q) (fun J r => mulVecT J r) insolve nu0 gradtol x0 nuInit k
    let st := run maxit
    let states := (List.range (st.i + 1)).map run
    let okAll := (states.take st.i).all (fun s => (lmSolveQ s.J s.nu s.g).isSome)
    if !okAll then "err-singular" else
    let code := fun (a c : LMState Rat (Vector Rat n) (Vector Rat m) (Mat Rat m n)) =>
      if c.x.toList == a.x.toList && c.f == a.f then "R"
      else if c.nu == a.nu then "S"
      else if c.nu == 0 then "Z"
      else if c.nu == a.nu / 2 then "H"
      else "U"
    let codes := (List.zip states (states.drop 1)).map (fun (a, c) => code a c)
    let fs := states.map (·.f)
    let mono := (List.zip fs (fs.drop 1)).all (fun (a, c) => decide (c ≤ a))
    s!"{st.i}|{if codes.isEmpty then "_" else ",".intercalate codes}|{fmtBool mono}"
  | _, _, _, _ => "err-dim"

def stepLmTrace (args : List String) : Option String :=
  match args with
  | [m, q, b, x0, nuInit, nu0, gradtol, maxit] => do
    let M ← parseMat m
    let Q ← parseMat q
    let b ← parseVec b
    let x0 ← parseVec x0
    let nuInit ← parseRat nuInit
    let nu0 ← parseRat nu0
    let gradtol ← parseRat gradtol
    let maxit ← maxit.toNat?
    some (runLmTrace M Q b x0 nuInit nu0 gradtol maxit)
  | _ => none

/-- `asbudget PYNUM` -> `ctor=<n|err:…> assigned=<n|unbounded> fista=<n|unbounded>`: passes allowed through the constructor
    (`int(maxit)`) and with the attribute re-assigned afterwards (raw number) -/
def stepAsBudget (args : List String) : Option String :=
  match args with
  | [p] => do
    let p ← parsePyNum p
    let c := match pyInt p with
      | .ok n => toString (budget n)
      | .error e => fmtCtorErr e
    let f := fun (o : Option Nat) => match o with | some n => toString n | none => "unbounded"
    some s!"ctor={c} assigned={f (budgetAssigned p)} fista={f (budgetAssignedFista p)}"
  | _ => none

def step : List String → String
  | "cgls" :: form :: args => orBad (stepCgls form args)
  | "pcgls" :: form :: args => orBad (stepPcgls form args)
  | "fista" :: form :: args => orBad (stepFista form args)
  | "prox" :: args => orBad (stepProx args)
  | "lm" :: args => orBad (stepLm args)
  | "lmstep" :: args => orBad (stepLmStep args)
  | "lbfgsb" :: args => orBad (stepLbfgsb args)
  | "mincall" :: args => orBad (stepMincall args)
  | "mininfo" :: args => orBad (stepMininfo args)
  | "pyint" :: args => orBad (stepPyInt args)
  | "cglspy" :: form :: args => orBad (stepCglsPy form args)
  | "fistapy" :: form :: args => orBad (stepFistaPy form args)
  | "pcsolve" :: form :: args => orBad (stepPcSolve form args)
  | "lmpy" :: args => orBad (stepLmPy args)
  | "lmexp" :: args => orBad (stepLmExp args)
  | "dtype" :: args => orBad (stepDtype args)
  | "lbinfo" :: args => orBad (stepLbInfo args)
  | "lbcall" :: args => orBad (stepLbCall args)
  | "lscall" :: args => orBad (stepLsCall args)
  | "lsinfo" :: args => orBad (stepLsInfo args)
  | "rewrap" :: args => orBad (stepRewrap args)
  | "lmtrace" :: args => orBad (stepLmTrace args)
  | "asbudget" :: args => orBad (stepAsBudget args)
  | _ => "bad-op"

def main : IO Unit := runDriver step
