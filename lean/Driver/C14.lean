import CuqiVerif.Model.Proto
import CuqiVerif.Model.C14
import CuqiVerif.Model.C14_gibbs
import CuqiVerif.Model.C14_api
open CuqiVerif CuqiVerif.Proto CuqiVerif.C14

/-!
Line protocol (one program per line):

  exp <toy|replay> <x0> <scale|_> <ops> <stream>
      ops (`;`-separated): s<n> | s<n>b<batch_size> (emits F=<file>|<file>…) | w<n>@<tune_freq> | save | load | loadsame | badload | reinit | get
        `load`     : a *freshly constructed* sampler of the same configuration loads the last
                     checkpoint and replaces the current one (random stream and callback log carried on)
        `loadsame` : the current sampler loads the last checkpoint
        `badload`  : `set_state` with a key that is not a state key (must be refused)
        `init`     : explicit `initialize()`; emits ok | E:already | E:unset (guards of Model/C14_api.lean)
        `loadtype` : `load_checkpoint` of a dictionary whose `sampler_type` is another class; emits E:type (nothing assigned)
        `loadpart` : `load_checkpoint` of `{scale: 9, not_a_state_key: 0}`; emits E:key (the first assignment stays)
        x0 may be `N<dim>` (no initial point given: `ones(dim)`), scale may be `N` (None: `_validate_initialization` raises,
        every op that initialises is an error)
        `get`      : emit a snapshot  S=<samples>;A=<acc>;E=<events>;T=<tunes>;K=<state>;I=<initialised>
  leg <view 0|1> <callback 0|1> <N> <Nb> <x0 id> <outcome ids>     stateless interface
  ti <tune_freq> <Nb>                                               max(int(tune_freq*Nb),1)
  hg <ops> <sweep outcome ids>                                      HybridGibbs storage / tuning calls
  gl <ops> <init id> <sweep outcome ids>                            legacy Gibbs storage
  glf <ops> <init id> <sweep outcome ids>                           legacy Gibbs.sample(Ns, Nb) in full; ops s<Ns>b<Nb>;
      one output per op: C=<returned chain>;W=<samples_warmup> or errI (IndexError) / errV (ValueError; object unchanged)
  bt <Ns> <Nb> <Nt>                                                 Samples.burnthin(Nb, Nt) on the chain 0..Ns-1: the kept indices, or err
  hgr <blocks> <ops> <stream>                                       HybridGibbs on library block samplers: `replaySpec` blocks whose transition
      outcomes (point id, acceptance) are read off the stream; blocks: <x0 id>|<nuts 0|1>|<num_sampling_steps>; ops as hgt;
      snapshot C=<current ids>;S=<rows>;T=<tune calls>;B=<per block: number of acceptance records/point id>
  hgt <blocks> <ops> <stream>                                       HybridGibbs on `toyBlockSpec` blocks (Model/C14_gibbs.lean)
      blocks (`;`-separated): <x0 a:b:c | N<dim>>|<scale>|<nuts 0|1>|<num_sampling_steps | d>|<already initialised 0|1>
      ops: s<n> | w<n>@<tune_freq> | get   (snapshot C=<current_samples>;S=<stored rows>;T=<tune calls>;B=<per block acc/point/scale/eps_bar/shift/initialised>;R=<stream left>)
-/

def fmtVal : Val → String
  | .none => "N"
  | .unset => "U"
  | .int i => toString i
  | .ints v => if v.isEmpty then "e" else ":".intercalate (v.map toString)

def parseInts (sep : String) (s : String) : Option (List Int) :=
  if s = "_" then some [] else (s.splitOn sep).mapM (·.toInt?)

def commaJoin (xs : List String) : String := if xs.isEmpty then "_" else ",".intercalate xs

def snapshot (sp : Spec Int Int) (r : Run Int Int) : String :=
  "S=" ++ commaJoin (r.samples.map fmtVal) ++
  ";A=" ++ commaJoin (r.acc.map toString) ++
  ";E=" ++ commaJoin (r.events.map (fun e => fmtVal e.1 ++ "@" ++ toString e.2)) ++
  ";T=" ++ commaJoin (r.tunes.map (fun t => s!"{t.1}/{t.2.1}/{t.2.2}")) ++
  ";K=" ++ commaJoin ((getState sp.stateKeys r.obj).map (fun kv => kv.1 ++ "=" ++ fmtVal kv.2)) ++
  ";I=" ++ fmtBool r.initialized

structure Sess where
  run : Run Int Int
  ckpt : Option (List (String × Val))
  out : List String

/-- one op; `none` = the implementation must raise here -/
def fmtApi : Option ApiError → String
  | none => "ok"
  | some .alreadyInit => "E:already"
  | some .unsetKey => "E:unset"
  | some .typeMismatch => "E:type"
  | some .badKey => "E:key"

def execOp (sp : Spec Int Int) (cls : String) (dim : Nat) (cfg : Obj) (s : Sess) (op : String) : Option Sess :=
  -- a configuration that `_validate_initialization` rejects makes every initialising op raise
  let cfgOk : Bool := (initializeApi sp dim (Run.fresh cfg ([] : List Int))).2.isNone
  if op = "get" then some { s with out := s.out ++ [snapshot sp s.run] }
  else if op = "init" then
    let res := initializeApi sp dim s.run
    some { s with run := res.1, out := s.out ++ [fmtApi res.2] }
  else if !cfgOk then none
  else if op = "loadtype" then
    let res := loadCheckpointApi sp cls dim "SomeOtherSampler" [("current_point", .int 0)] s.run
    some { s with run := res.1, out := s.out ++ [fmtApi res.2] }
  else if op = "loadpart" then
    let res := loadCheckpointApi sp cls dim cls [("scale", .int 9), ("not_a_state_key", .int 0)] s.run
    some { s with run := res.1, out := s.out ++ [fmtApi res.2] }
  else if op = "save" then
    let res := saveCheckpoint sp s.run
    some { s with run := res.1, ckpt := some res.2 }
  else if op = "load" then
    match s.ckpt with
    | none => none
    | some st =>
      let fresh : Run Int Int := { (Run.fresh cfg s.run.stream : Run Int Int) with events := s.run.events, tunes := s.run.tunes }
      (loadCheckpoint sp st fresh).map (fun r => { s with run := r })
  else if op = "loadsame" then
    match s.ckpt with
    | none => none
    | some st => (loadCheckpoint sp st s.run).map (fun r => { s with run := r })
  else if op.startsWith "badload" then
    -- `badload` / `badload:<attribute>`: a dictionary whose only key is not a state key (an arbitrary name, or an
    -- attribute the sampler does have: `initial_point`, `_samples`, `_acc`, …)
    let key := match op.splitOn ":" with | [_, k] => k | _ => "not_a_state_key"
    match loadCheckpoint sp [(key, .int 0)] s.run with
    | none => some { s with run := ensureInit sp s.run, out := s.out ++ ["refused"] }  -- `_ensure_initialized()` ran before `set_state` raised
    | some r => some { s with run := r, out := s.out ++ ["accepted"] }
  else if op = "reinit" then some { s with run := reinitialize sp s.run }
  else if op.startsWith "s" && (op.splitOn "b").length = 2 then
    match (op.drop 1).toString.splitOn "b" with
    | [n, b] =>
      match n.toNat?, b.toNat? with
      | some n, some b =>
        if b = 0 then none else
          let res := sampleBatched sp n b s.run
          let files := res.2.map (fun f => commaJoin (f.map fmtVal))
          some { s with run := res.1, out := s.out ++ ["F=" ++ (if files.isEmpty then "_" else "|".intercalate files)] }
      | _, _ => none
    | _ => none
  else if op.startsWith "s" then
    match (op.drop 1).toString.toNat? with
    | some n => some { s with run := sample sp n s.run }
    | none => none
  else if op.startsWith "w" then
    match (op.drop 1).toString.splitOn "@" with
    | [n, tf] =>
      match n.toNat?, parseRat tf with
      | some n, some tf => some { s with run := warmup sp n tf s.run }
      | _, _ => none
    | _ => none
  else none

def runExp (sp : Spec Int Int) (cls : String) (dim : Nat) (cfg : Obj) (ops : List String) (stream : List Int) : String :=
  let s0 : Sess := { run := Run.fresh cfg stream, ckpt := none, out := [] }
  let rec go (i : Nat) (ops : List String) (s : Sess) : String :=
    match ops with
    | [] => if s.out.isEmpty then "_" else "#".intercalate s.out
    | op :: rest =>
      match execOp sp cls dim cfg s op with
      | none => s!"err:{i}"
      | some s' => go (i + 1) rest s'
  go 0 ops s0

def validOp (op : String) : Bool :=
  op ∈ ["get", "save", "load", "loadsame", "badload", "reinit", "init", "loadtype", "loadpart"] ||
  (op.startsWith "badload:" && (op.splitOn ":").length = 2) ||
  (op.startsWith "s" && ((op.drop 1).toString.toNat?).isSome) ||
  (op.startsWith "s" && (match (op.drop 1).toString.splitOn "b" with
      | [n, b] => n.toNat?.isSome && (match b.toNat? with | some k => decide (k > 0) | none => false)
      | _ => false)) ||
  (op.startsWith "w" && (match (op.drop 1).toString.splitOn "@" with
      | [n, tf] => n.toNat?.isSome && (parseRat tf).isSome
      | _ => false))

def fmtIds (xs : List Int) : String := commaJoin (xs.map toString)

def gibbsOps (ops : List String) (stream : List Int) : Option String :=
  let sweep : Int → List Int → Int × Int × List Int := fun s ds =>
    match ds with
    | d :: rest => (d, d, rest)
    | [] => (s, s, [])
  let rec go (ops : List String) (st : Int × List Int × List Int × List (Nat × Nat × Nat)) : Option String :=
    match ops with
    | [] => some ("S=" ++ fmtIds st.2.1 ++ ";T=" ++ commaJoin (st.2.2.2.map (fun t => s!"{t.1}/{t.2.1}/{t.2.2}")))
    | op :: rest =>
      if op.startsWith "s" then
        match (op.drop 1).toString.toNat? with
        | some n =>
          let r := iterStore sweep n (st.1, st.2.1, st.2.2.1)
          go rest (r.1, r.2.1, r.2.2, st.2.2.2)
        | none => none
      else if op.startsWith "w" then
        match (op.drop 1).toString.splitOn "@" with
        | [n, tf] =>
          match n.toNat?, parseRat tf with
          | some n, some tf => go rest (gibbsWarmLoop sweep (fun s _ _ => s) (tuneInterval tf n) n 0 st)
          | _, _ => none
        | _ => none
      else none
  go ops (0, [], stream, [])

def gibbsLegacyOps (ops : List String) (init : Int) (stream : List Int) : Option String :=
  let sweep : Int → List Int → Int × List Int := fun s ds =>
    match ds with
    | d :: rest => (d, rest)
    | [] => (s, [])
  let rec go (ops : List String) (st : Bool × List Int × List Int) : Option String :=
    match ops with
    | [] => some ("S=" ++ fmtIds st.2.1)
    | op :: rest =>
      match (op.drop 1).toString.toNat? with
      | some n =>
        if op.startsWith "s" then
          match gibbsLegacySample sweep init n st with
          | some st' => go rest st'
          | none => some "err"
        else none
      | none => none
  go ops (false, [], stream)

/-! ### HybridGibbs on toy blocks -/

structure HgBlockCfg where
  x0 : Val
  dim : Nat
  scale : Int
  nuts : Bool
  nsteps : Nat
  preinit : Bool

def parseHgBlock (s : String) : Option HgBlockCfg :=
  match s.splitOn "|" with
  | [x0, sc, nuts, ns, pre] =>
    let x0v : Option (Val × Nat) :=
      if x0.startsWith "N" then (x0.drop 1).toString.toNat?.map (fun d => (Val.none, d))
      else (parseInts ":" x0).map (fun v => (Val.ints v, v.length))
    let nsv : Option Nat := if ns = "d" then some 1 else ns.toNat?
    match x0v, sc.toInt?, nsv with
    | some (v, d), some sc, some ns =>
      if (nuts = "0" || nuts = "1") && (pre = "0" || pre = "1") then
        some { x0 := v, dim := d, scale := sc, nuts := nuts = "1", nsteps := ns, preinit := pre = "1" }
      else none
    | _, _, _ => none
  | _ => none

def hgSnapshot (s : HGS Int Int) (rows : List (List Val)) (tl : List (Nat × Nat × Nat)) (ds : List Int) : String :=
  let blk (r : Run Int Int) : String :=
    (if r.acc.isEmpty then "_" else ".".intercalate (r.acc.map toString)) ++ "/" ++ fmtVal (point r.obj) ++ "/" ++ fmtVal (r.obj.get "scale") ++ "/" ++
      fmtVal (r.obj.get "eps_bar") ++ "/" ++ fmtVal (r.obj.get "shift") ++ "/" ++ fmtBool r.initialized
  "C=" ++ "|".intercalate (s.cur.map fmtVal) ++
  ";S=" ++ commaJoin (rows.map (fun row => "|".intercalate (row.map fmtVal))) ++
  ";T=" ++ commaJoin (tl.map (fun t => s!"{t.1}/{t.2.1}/{t.2.2}")) ++
  ";B=" ++ commaJoin (s.runs.map blk) ++ ";R=" ++ toString ds.length

def hgToyOps (cfgs : List HgBlockCfg) (ops : List String) (stream : List Int) : Option String :=
  let bs : List (Block Int Int) := cfgs.map (fun c => { spec := toyBlockSpec, nutsLike := c.nuts, nsteps := c.nsteps, dim := c.dim })
  let rs : List (Run Int Int) := cfgs.map (fun c =>
    let cfg : Obj := (Obj.empty.set "initial_point" c.x0).set "initial_scale" (.int c.scale)
    let r : Run Int Int := Run.fresh cfg []
    if c.preinit then initializeRun toyBlockSpec { r with obj := r.obj.set "target" (.ints []) } else r)
  match hgInit bs rs with
  | none => some "err:init"
  | some s0 =>
    let rec go (ops : List String) (st : HGS Int Int × List (List Val) × List Int × List (Nat × Nat × Nat)) (out : List String) : Option String :=
      match ops with
      | [] => some (if out.isEmpty then "_" else "#".intercalate out)
      | op :: rest =>
        if op = "get" then go rest st (out ++ [hgSnapshot st.1 st.2.1 st.2.2.2 st.2.2.1])
        else if op.startsWith "s" then
          match (op.drop 1).toString.toNat? with
          | some n =>
            let r := hgSample bs n (st.1, st.2.1, st.2.2.1)
            go rest (r.1, r.2.1, r.2.2, st.2.2.2) out
          | none => none
        else if op.startsWith "w" then
          match (op.drop 1).toString.splitOn "@" with
          | [n, tf] =>
            match n.toNat?, parseRat tf with
            | some n, some tf => go rest (hgWarmup bs n tf st) out
            | _, _ => none
          | _ => none
        else none
    go ops (s0, [], stream, []) []

def gibbsLegacyFullOps (ops : List String) (init : Int) (stream : List Int) : Option String :=
  let sweep : Int → List Int → Int × List Int := fun s ds =>
    match ds with
    | d :: rest => (d, rest)
    | [] => (s, [])
  let rec go (ops : List String) (st : GLState Int Int) (out : List String) : Option String :=
    match ops with
    | [] => some (if out.isEmpty then "_" else "#".intercalate out)
    | op :: rest =>
      if op.startsWith "s" then
        match (op.drop 1).toString.splitOn "b" with
        | [n, b] =>
          match n.toNat?, b.toNat? with
          | some n, some b =>
            match gibbsLegacyFull sweep init n b st with
            | .error .index => go rest st (out ++ ["errI"])
            | .error .value => go rest st (out ++ ["errV"])
            | .ok (st', chain) =>
              -- the warm-up array is reported by the call that filled it (a later call with Nb = 0 re-allocates it empty:
              -- not part of any returned value, not compared)
              go rest st' (out ++ ["C=" ++ fmtIds chain ++ ";W=" ++ (if b = 0 then "-" else match st'.warm with | some w => fmtIds w | none => "N")])
          | _, _ => none
        | _ => none
      else none
  go ops { samples := none, warm := none, stream := stream } []

def hgReplayOps (cfgs : List (Int × Bool × Nat)) (ops : List String) (stream : List Int) : Option String :=
  let bs : List (Block Int Int) := cfgs.map (fun c => { spec := replaySpec, nutsLike := c.2.1, nsteps := c.2.2, dim := 1 })
  let rs : List (Run Int Int) := cfgs.map (fun c => Run.fresh (Obj.empty.set "initial_point" (.int c.1)) [])
  let snap (st : HGS Int Int × List (List Val) × List Int × List (Nat × Nat × Nat)) : String :=
    "C=" ++ "|".intercalate (st.1.cur.map fmtVal) ++
    ";S=" ++ commaJoin (st.2.1.map (fun row => "|".intercalate (row.map fmtVal))) ++
    ";T=" ++ commaJoin (st.2.2.2.map (fun t => s!"{t.1}/{t.2.1}/{t.2.2}")) ++
    ";B=" ++ commaJoin (st.1.runs.map (fun r => toString r.acc.length ++ "/" ++ fmtVal (point r.obj)))
  match hgInit bs rs with
  | none => some "err:init"
  | some s0 =>
    let rec go (ops : List String) (st : HGS Int Int × List (List Val) × List Int × List (Nat × Nat × Nat)) (out : List String) : Option String :=
      match ops with
      | [] => some (if out.isEmpty then "_" else "#".intercalate out)
      | op :: rest =>
        if op = "get" then go rest st (out ++ [snap st])
        else if op.startsWith "s" then
          match (op.drop 1).toString.toNat? with
          | some n =>
            let r := hgSample bs n (st.1, st.2.1, st.2.2.1)
            go rest (r.1, r.2.1, r.2.2, st.2.2.2) out
          | none => none
        else if op.startsWith "w" then
          match (op.drop 1).toString.splitOn "@" with
          | [n, tf] =>
            match n.toNat?, parseRat tf with
            | some n, some tf => go rest (hgWarmup bs n tf st) out
            | _, _ => none
          | _ => none
        else none
    go ops (s0, [], stream, []) []

def parseReplayBlock (s : String) : Option (Int × Bool × Nat) :=
  match s.splitOn "|" with
  | [x0, nuts, ns] =>
    match x0.toInt?, ns.toNat? with
    | some x, some n => if nuts = "0" || nuts = "1" then some (x, nuts = "1", n) else none
    | _, _ => none
  | _ => none

def step : List String → String
  | ["exp", kind, x0, scale, ops, stream] =>
    let opl := ops.splitOn ";"
    match parseInts "," stream with
    | none => "bad-op"
    | some ds =>
      if !(opl.all validOp) then "bad-op"
      else if kind = "toy" then
        let x0v : Option (Val × Nat) :=
          if x0.startsWith "N" then (x0.drop 1).toString.toNat?.map (fun d => (Val.none, d))
          else (parseInts ":" x0).map (fun v => (Val.ints v, v.length))
        let scv : Option Val := if scale = "N" then some Val.none else scale.toInt?.map Val.int
        match x0v, scv with
        | some (v, dim), some sc =>
          let cfg : Obj := (Obj.empty.set "initial_point" v).set "initial_scale" sc
          runExp (withDefault toySpec dim) "Toy" dim cfg opl ds
        | _, _ => "bad-op"
      else if kind = "replay" then
        match x0.toInt? with
        | some p => runExp replaySpec "replay" 0 (Obj.empty.set "initial_point" (.int p)) opl ds
        | none => "bad-op"
      else "bad-op"
  | ["leg", view, cb, n, nb, x0, outs] =>
    match n.toNat?, nb.toNat?, x0.toInt?, parseInts "," outs with
    | some n, some nb, some x0, some outs =>
      if (view = "0" || view = "1") && (cb = "0" || cb = "1") then
        match legacySample ⟨view = "1", cb = "1"⟩ (-1 : Int) x0 outs n nb with
        | none => "err"
        | some res => "C=" ++ fmtIds res.1 ++ ";E=" ++ commaJoin (res.2.map (fun e => s!"{e.1}@{e.2}"))
      else "bad-op"
    | _, _, _, _ => "bad-op"
  | ["ti", tf, nb] =>
    match parseRat tf, nb.toNat? with
    | some tf, some nb => if tf < 0 then "bad-op" else toString (tuneInterval tf nb)
    | _, _ => "bad-op"
  | ["hg", ops, stream] =>
    match parseInts "," stream with
    | some ds => (gibbsOps (ops.splitOn ";") ds).getD "bad-op"
    | none => "bad-op"
  | ["gl", ops, init, stream] =>
    match init.toInt?, parseInts "," stream with
    | some i, some ds => (gibbsLegacyOps (ops.splitOn ";") i ds).getD "bad-op"
    | _, _ => "bad-op"
  | ["glf", ops, init, stream] =>
    match init.toInt?, parseInts "," stream with
    | some i, some ds => (gibbsLegacyFullOps (ops.splitOn ";") i ds).getD "bad-op"
    | _, _ => "bad-op"
  | ["bt", n, nb, nt] =>
    match n.toNat?, nb.toNat?, nt.toNat? with
    | some n, some nb, some nt =>
      match burnthin nb nt (List.range n) with
      | none => "err"
      | some l => fmtNatList l
    | _, _, _ => "bad-op"
  | ["hgr", blocks, ops, stream] =>
    match (blocks.splitOn ";").mapM parseReplayBlock, parseInts "," stream with
    | some cfgs, some ds => if cfgs.isEmpty then "bad-op" else (hgReplayOps cfgs (ops.splitOn ";") ds).getD "bad-op"
    | _, _ => "bad-op"
  | ["hgt", blocks, ops, stream] =>
    match (blocks.splitOn ";").mapM parseHgBlock, parseInts "," stream with
    | some cfgs, some ds => if cfgs.isEmpty then "bad-op" else (hgToyOps cfgs (ops.splitOn ";") ds).getD "bad-op"
    | _, _ => "bad-op"
  | _ => "bad-op"

def main : IO Unit := runDriver step
