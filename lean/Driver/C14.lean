import CuqiVerif.Model.Proto
import CuqiVerif.Model.C14
open CuqiVerif CuqiVerif.Proto CuqiVerif.C14

/-!
Line protocol (one program per line):

  exp <toy|replay> <x0> <scale|_> <ops> <stream>
      ops (`;`-separated): s<n> | s<n>b<batch_size> (emits F=<file>|<file>…) | w<n>@<tune_freq> | save | load | loadsame | badload | reinit | get
        `load`     : a *freshly constructed* sampler of the same configuration loads the last
                     checkpoint and replaces the current one (random stream and callback log carried on)
        `loadsame` : the current sampler loads the last checkpoint
        `badload`  : `set_state` with a key that is not a state key (must be refused)
        `get`      : emit a snapshot  S=<samples>;A=<acc>;E=<events>;T=<tunes>;K=<state>;I=<initialised>
  leg <view 0|1> <callback 0|1> <N> <Nb> <x0 id> <outcome ids>     stateless interface
  ti <tune_freq> <Nb>                                               max(int(tune_freq*Nb),1)
  hg <ops> <sweep outcome ids>                                      HybridGibbs storage / tuning calls
  gl <ops> <init id> <sweep outcome ids>                            legacy Gibbs storage
-/

def fmtVal : Val → String
  | .none => "N"
  | .unset => "U"
  | .int i => toString i
  | .ints v => if v.isEmpty then "e" else ":".intercalate (v.map toString)

def parseInts (sep : String) (s : String) : Option (List Int) :=
  if s = "_" then some [] else (s.splitOn sep).mapM (·.toInt?)

def commaJoin (xs : List String) : String := if xs.isEmpty then "_" else ",".intercalate xs

def snapshot (sp : Spec Int Int) (r : Run Int Int) : String :=
  "S=" ++ commaJoin (r.samples.map fmtVal) ++
  ";A=" ++ commaJoin (r.acc.map toString) ++
  ";E=" ++ commaJoin (r.events.map (fun e => fmtVal e.1 ++ "@" ++ toString e.2)) ++
  ";T=" ++ commaJoin (r.tunes.map (fun t => s!"{t.1}/{t.2.1}/{t.2.2}")) ++
  ";K=" ++ commaJoin ((getState sp.stateKeys r.obj).map (fun kv => kv.1 ++ "=" ++ fmtVal kv.2)) ++
  ";I=" ++ fmtBool r.initialized

structure Sess where
  run : Run Int Int
  ckpt : Option (List (String × Val))
  out : List String

/-- one op; `none` = the implementation must raise here -/
def execOp (sp : Spec Int Int) (cfg : Obj) (s : Sess) (op : String) : Option Sess :=
  if op = "get" then some { s with out := s.out ++ [snapshot sp s.run] }
  else if op = "save" then
    let res := saveCheckpoint sp s.run
    some { s with run := res.1, ckpt := some res.2 }
  else if op = "load" then
    match s.ckpt with
    | none => none
    | some st =>
      let fresh : Run Int Int := { (Run.fresh cfg s.run.stream : Run Int Int) with events := s.run.events, tunes := s.run.tunes }
      (loadCheckpoint sp st fresh).map (fun r => { s with run := r })
  else if op = "loadsame" then
    match s.ckpt with
    | none => none
    | some st => (loadCheckpoint sp st s.run).map (fun r => { s with run := r })
  else if op = "badload" then
    match loadCheckpoint sp [("not_a_state_key", .int 0)] s.run with
    | none => some { s with run := ensureInit sp s.run, out := s.out ++ ["refused"] }  -- `_ensure_initialized()` ran before `set_state` raised
    | some r => some { s with run := r, out := s.out ++ ["accepted"] }
  else if op = "reinit" then some { s with run := reinitialize sp s.run }
  else if op.startsWith "s" && (op.splitOn "b").length = 2 then
    match (op.drop 1).toString.splitOn "b" with
    | [n, b] =>
      match n.toNat?, b.toNat? with
      | some n, some b =>
        if b = 0 then none else
          let res := sampleBatched sp n b s.run
          let files := res.2.map (fun f => commaJoin (f.map fmtVal))
          some { s with run := res.1, out := s.out ++ ["F=" ++ (if files.isEmpty then "_" else "|".intercalate files)] }
      | _, _ => none
    | _ => none
  else if op.startsWith "s" then
    match (op.drop 1).toString.toNat? with
    | some n => some { s with run := sample sp n s.run }
    | none => none
  else if op.startsWith "w" then
    match (op.drop 1).toString.splitOn "@" with
    | [n, tf] =>
      match n.toNat?, parseRat tf with
      | some n, some tf => some { s with run := warmup sp n tf s.run }
      | _, _ => none
    | _ => none
  else none

def runExp (sp : Spec Int Int) (cfg : Obj) (ops : List String) (stream : List Int) : String :=
  let s0 : Sess := { run := Run.fresh cfg stream, ckpt := none, out := [] }
  let rec go (i : Nat) (ops : List String) (s : Sess) : String :=
    match ops with
    | [] => if s.out.isEmpty then "_" else "#".intercalate s.out
    | op :: rest =>
      match execOp sp cfg s op with
      | none => s!"err:{i}"
      | some s' => go (i + 1) rest s'
  go 0 ops s0

def validOp (op : String) : Bool :=
  op ∈ ["get", "save", "load", "loadsame", "badload", "reinit"] ||
  (op.startsWith "s" && ((op.drop 1).toString.toNat?).isSome) ||
  (op.startsWith "s" && (match (op.drop 1).toString.splitOn "b" with
      | [n, b] => n.toNat?.isSome && (match b.toNat? with | some k => decide (k > 0) | none => false)
      | _ => false)) ||
  (op.startsWith "w" && (match (op.drop 1).toString.splitOn "@" with
      | [n, tf] => n.toNat?.isSome && (parseRat tf).isSome
      | _ => false))

def fmtIds (xs : List Int) : String := commaJoin (xs.map toString)

def gibbsOps (ops : List String) (stream : List Int) : Option String :=
  let sweep : Int → List Int → Int × Int × List Int := fun s ds =>
    match ds with
    | d :: rest => (d, d, rest)
    | [] => (s, s, [])
  let rec go (ops : List String) (st : Int × List Int × List Int × List (Nat × Nat × Nat)) : Option String :=
    match ops with
    | [] => some ("S=" ++ fmtIds st.2.1 ++ ";T=" ++ commaJoin (st.2.2.2.map (fun t => s!"{t.1}/{t.2.1}/{t.2.2}")))
    | op :: rest =>
      if op.startsWith "s" then
        match (op.drop 1).toString.toNat? with
        | some n =>
          let r := iterStore sweep n (st.1, st.2.1, st.2.2.1)
          go rest (r.1, r.2.1, r.2.2, st.2.2.2)
        | none => none
      else if op.startsWith "w" then
        match (op.drop 1).toString.splitOn "@" with
        | [n, tf] =>
          match n.toNat?, parseRat tf with
          | some n, some tf => go rest (gibbsWarmLoop sweep (fun s _ _ => s) (tuneInterval tf n) n 0 st)
          | _, _ => none
        | _ => none
      else none
  go ops (0, [], stream, [])

def gibbsLegacyOps (ops : List String) (init : Int) (stream : List Int) : Option String :=
  let sweep : Int → List Int → Int × List Int := fun s ds =>
    match ds with
    | d :: rest => (d, rest)
    | [] => (s, [])
  let rec go (ops : List String) (st : Bool × List Int × List Int) : Option String :=
    match ops with
    | [] => some ("S=" ++ fmtIds st.2.1)
    | op :: rest =>
      match (op.drop 1).toString.toNat? with
      | some n =>
        if op.startsWith "s" then
          match gibbsLegacySample sweep init n st with
          | some st' => go rest st'
          | none => some "err"
        else none
      | none => none
  go ops (false, [], stream)

def step : List String → String
  | ["exp", kind, x0, scale, ops, stream] =>
    let opl := ops.splitOn ";"
    match parseInts "," stream with
    | none => "bad-op"
    | some ds =>
      if !(opl.all validOp) then "bad-op"
      else if kind = "toy" then
        match parseInts ":" x0, scale.toInt? with
        | some v, some sc =>
          let cfg : Obj := (Obj.empty.set "initial_point" (.ints v)).set "initial_scale" (.int sc)
          runExp toySpec cfg opl ds
        | _, _ => "bad-op"
      else if kind = "replay" then
        match x0.toInt? with
        | some p => runExp replaySpec (Obj.empty.set "initial_point" (.int p)) opl ds
        | none => "bad-op"
      else "bad-op"
  | ["leg", view, cb, n, nb, x0, outs] =>
    match n.toNat?, nb.toNat?, x0.toInt?, parseInts "," outs with
    | some n, some nb, some x0, some outs =>
      if (view = "0" || view = "1") && (cb = "0" || cb = "1") then
        match legacySample ⟨view = "1", cb = "1"⟩ (-1 : Int) x0 outs n nb with
        | none => "err"
        | some res => "C=" ++ fmtIds res.1 ++ ";E=" ++ commaJoin (res.2.map (fun e => s!"{e.1}@{e.2}"))
      else "bad-op"
    | _, _, _, _ => "bad-op"
  | ["ti", tf, nb] =>
    match parseRat tf, nb.toNat? with
    | some tf, some nb => if tf < 0 then "bad-op" else toString (tuneInterval tf nb)
    | _, _ => "bad-op"
  | ["hg", ops, stream] =>
    match parseInts "," stream with
    | some ds => (gibbsOps (ops.splitOn ";") ds).getD "bad-op"
    | none => "bad-op"
  | ["gl", ops, init, stream] =>
    match init.toInt?, parseInts "," stream with
    | some i, some ds => (gibbsLegacyOps (ops.splitOn ";") i ds).getD "bad-op"
    | _, _ => "bad-op"
  | _ => "bad-op"

def main : IO Unit := runDriver step
