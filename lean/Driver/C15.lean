import CuqiVerif.Model.Proto
import CuqiVerif.Model.QMat
import CuqiVerif.Model.C15
open CuqiVerif CuqiVerif.Proto CuqiVerif.C15

/-!
Line protocol of the C15 model (R = Rat).  Arrays: `s:<rat>` (0-d), `v:<vec>` (1-D), `m:<mat>` (2-D),
`none` (the `cov` getter raises).

  map    <A> <rangeDim> <domainDim> <ce> <cx> <x0> <b>  -> `<array>` | `err:<Class>`     (BayesianProblem.MAP, direct branch)
  mapx0  <disp 0|1> <user x0 | none> <A> <rangeDim> <domainDim> <ce> <cx> <prior mean> <b> -> as `map`  (MAP(disp, x0), direct route)
  covstate <covMutable 0|1> <_cov | none> <set:<arr> | cc:<full arr>> ...  -> `<array>` | `none`   (what the cov getter holds after the history)
  centre <A> <rangeDim> <domainDim> <ce> <cx> <x0> <b>  -> `<array>` | `err:<Class>`     (_sampleMapCholesky up to the factorisation)
  ref    <A> <We> <Wx> <x0> <b>                         -> `mean=<vec> cov=<mat>` | `err` (exact posterior mean/covariance, certified)
  getmatrix <mb|fn> <A> <E> <F>                         -> `m:<mat>`                      (LinearModel.get_matrix)
  fwd    <A> <E> <F> <x>                                -> `<vec>`                        (forward on parameters)
  draw   <xmap> <L> <xi>                                -> `<vec>`
  route  <prior> <lik> <model> <ddim> <rdim> <grad> <sqrtprecs> <maxdim> -> `map=<r> ml=<r> sample=<r>`
-/

abbrev Q := Rat

def toArr (m : List (List Rat)) : Array (Array Rat) := (m.map List.toArray).toArray
def vecFn (v : List Rat) : Nat → Q := let a := v.toArray; fun i => a.getD i 0
def matFn (m : List (List Rat)) : Nat → Nat → Q := let a := toArr m; fun i j => (a.getD i #[]).getD j 0

def rectangular (m : List (List Rat)) : Option (Nat × Nat) :=
  match m with
  | [] => none
  | r :: rs => if r.length > 0 ∧ rs.all (fun x => x.length == r.length) then some (m.length, r.length) else none

def parseArr (s : String) : Option (NArr Q) :=
  if s.startsWith "s:" then (parseRat (s.drop 2).toString).map NArr.s
  else if s.startsWith "v:" then do
    let v ← parseVec (s.drop 2).toString
    if v.isEmpty then none else some (NArr.v v.length (vecFn v))
  else if s.startsWith "m:" then do
    let m ← parseMat (s.drop 2).toString
    let (r, c) ← rectangular m
    some (NArr.m r c (matFn m))
  else none

def parseCov (s : String) : Option (Option (NArr Q)) :=
  if s = "none" then some none else (parseArr s).map some

def tabV (n : Nat) (f : Nat → Q) : List Rat := (List.range n).map f
def tabM (r c : Nat) (F : Nat → Nat → Q) : List (List Rat) := (List.range r).map (fun i => (List.range c).map (F i))

def fmtArr : NArr Q → String
  | .s c => "s:" ++ fmtRat c
  | .v l f => "v:" ++ fmtVec (tabV l f)
  | .m r c F => "m:" ++ fmtMat (tabM r c F)

def fmtRes : Except Err (NArr Q) → String
  | .ok a => fmtArr a
  | .error e => "err:" ++ e.toString

/-- untrusted solver (Gauss–Jordan of QMat); `NArr.solve` checks its certificate -/
def slvQ : Solver Q := fun n F g =>
  (QMat.solve (tabM n n F) (tabV n g)).map vecFn

def parseMatFn (s : String) : Option (Nat × Nat × (Nat → Nat → Q)) := do
  let m ← parseMat s
  let (r, c) ← rectangular m
  some (r, c, matFn m)

def parsePrior : String → Option PriorKind
  | "gaussian" => some .gaussian | "gmrf" => some .gmrf | "lmrf" => some .lmrf | "cmrf" => some .cmrf
  | "reggaussian" => some .regGaussian | "reggmrf" => some .regGmrf | "beta" => some .beta
  | "invgamma" => some .invGamma | "lognormal" => some .lognormal | "other" => some .other | _ => none

def fmtMapRoute : MapRoute → String
  | .direct => "direct" | .lbfgsb => "lbfgsb" | .minimize => "minimize"
def fmtSampleRoute : SampleRoute → String
  | .mapCholesky => "mapCholesky" | .linearRTO => "linearRTO" | .ugla => "ugla" | .nuts => "nuts"
  | .pcn => "pcn" | .regLinearRTO => "regLinearRTO" | .notImplemented => "notImplemented"

def parseBool : String → Option Bool
  | "1" => some true | "0" => some false | _ => none

def step : List String → String
  | ["map", a, rd, dd, ce, cx, x0, b] =>
    match parseArr a, rd.toNat?, dd.toNat?, parseCov ce, parseCov cx, parseArr x0, parseArr b with
    | some A, some rd, some dd, some ce, some cx, some x0, some b => fmtRes (mapDirect slvQ A rd dd ce cx x0 b)
    | _, _, _, _, _, _, _ => "bad-op"
  | ["mapx0", disp, ux, a, rd, dd, ce, cx, pm, b] =>
    match parseBool disp, parseCov ux, parseArr a, rd.toNat?, dd.toNat?, parseCov ce, parseCov cx, parseArr pm, parseArr b with
    | some disp, some ux, some A, some rd, some dd, some ce, some cx, some pm, some b =>
      fmtRes (mapMethod slvQ disp ux A rd dd ce cx pm b)
    | _, _, _, _, _, _, _, _, _ => "bad-op"
  | "covstate" :: mutS :: init :: ops =>
    match parseBool mutS, parseCov init with
    | some isMut, some init =>
      let parsed : Option (List (CovOp Q)) := ops.mapM (fun o =>
        if o.startsWith "set:" then (parseArr (o.drop 4).toString).map CovOp.setMain
        else if o.startsWith "cc:" then (parseArr (o.drop 3).toString).map CovOp.computeCov
        else none)
      match parsed with
      | some ops => match (CovState.run { covMutable := isMut, cov := init } ops).cov with
        | some a => fmtArr a
        | none => "none"
      | none => "bad-op"
    | _, _ => "bad-op"
  | ["centre", a, rd, dd, ce, cx, x0, b] =>
    match parseArr a, rd.toNat?, dd.toNat?, parseCov ce, parseCov cx, parseArr x0, parseArr b with
    | some A, some rd, some dd, some ce, some cx, some x0, some b => fmtRes (sampleCentre slvQ A rd dd ce cx x0 b)
    | _, _, _, _, _, _, _ => "bad-op"
  | ["ref", a, we, wx, x0, b] =>
    match parseMatFn a, parseMatFn we, parseMatFn wx, parseVec x0, parseVec b with
    | some (m, n, A), some (m1, m2, We), some (n1, n2, Wx), some x0, some b =>
      if m1 ≠ m ∨ m2 ≠ m ∨ n1 ≠ n ∨ n2 ≠ n ∨ x0.length ≠ n ∨ b.length ≠ m then "bad-op" else
      let H := tabM n n (postPrec m A We Wx)
      let x0f := vecFn x0; let bf := vecFn b
      -- right-hand side Aᵀ We b + Wx x0
      let rhs := tabV n (fun j => sumTo m (fun i => A i j * sumTo m (fun l => We i l * bf l)) + sumTo n (fun k => Wx j k * x0f k))
      match QMat.inverse H with
      | none => "err"
      | some C =>
        if !QMat.isInverse H C then "err" else
        let x := QMat.mulVec C rhs
        -- certificate: information-form normal equations hold exactly
        let res := tabV n (normalResidual m n A We Wx x0f bf (vecFn x))
        if res.all (· == 0) then s!"mean={fmtVec x} cov={fmtMat C}" else "err"
    | _, _, _, _, _ => "bad-op"
  | ["getmatrix", kind, a, e, f] =>
    match parseMatFn a, parseMatFn e, parseMatFn f with
    | some (rf, df, A), some (e1, dp, E), some (rp, f2, F) =>
      if e1 ≠ df ∨ f2 ≠ rf then "bad-op" else
      match kind with
      | "mb" => fmtArr (getMatrix true rf df rp dp A E F)
      | "fn" => fmtArr (getMatrix false rf df rp dp A E F)
      | _ => "bad-op"
    | _, _, _ => "bad-op"
  | ["fwd", a, e, f, x] =>
    match parseMatFn a, parseMatFn e, parseMatFn f, parseVec x with
    | some (rf, df, A), some (e1, dp, E), some (rp, f2, F), some x =>
      if e1 ≠ df ∨ f2 ≠ rf ∨ x.length ≠ dp then "bad-op" else
      fmtVec (tabV rp (forwardPar rf df dp A E F (vecFn x)))
    | _, _, _, _ => "bad-op"
  | ["draw", xm, l, xi] =>
    match parseVec xm, parseMatFn l, parseVec xi with
    | some xm, some (r, c, L), some xi =>
      if r ≠ xm.length ∨ c ≠ xi.length ∨ r ≠ c then "bad-op" else fmtVec (tabV r (draw r (vecFn xm) L (vecFn xi)))
    | _, _, _ => "bad-op"
  | ["route", pr, lk, md, dd, rd, g, sq, mx] =>
    match parsePrior pr, dd.toNat?, rd.toNat?, parseBool g, parseBool sq, mx.toNat? with
    | some pr, some dd, some rd, some g, some sq, some mx =>
      let lk? : Option LikKind := match lk with | "gaussian" => some .gaussian | "other" => some .other | _ => none
      let md? : Option ModelKind := match md with | "linear" => some .linear | "nonlinear" => some .nonlinear | _ => none
      match lk?, md? with
      | some lk, some md =>
        let p : Problem := { prior := pr, lik := lk, model := md, domainDim := dd, rangeDim := rd,
                             hasGradient := g, hasSqrtprecs := sq, maxDimInv := mx }
        s!"map={fmtMapRoute (mapRoute p)} ml={fmtMapRoute (mlRoute p)} sample={fmtSampleRoute (sampleRoute p)}"
      | _, _ => "bad-op"
    | _, _, _, _, _, _ => "bad-op"
  | _ => "bad-op"

def main : IO Unit := runDriver step
