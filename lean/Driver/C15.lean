import CuqiVerif.Model.Proto
import CuqiVerif.Model.QMat
import CuqiVerif.Model.C15
import CuqiVerif.Model.C15_gauss
import CuqiVerif.Model.C15_loop
import CuqiVerif.Model.C15_chol
import CuqiVerif.Model.C15_route
open CuqiVerif CuqiVerif.Proto CuqiVerif.C15

/-!
Line protocol of the C15 model (R = Rat).  Arrays: `s:<rat>` (0-d), `v:<vec>` (1-D), `m:<mat>` (2-D),
`none` (the `cov` getter raises).

  map    <A> <rangeDim> <domainDim> <ce> <cx> <x0> <b>  -> `<array>` | `err:<Class>`     (BayesianProblem.MAP, direct branch)
  mapx0  <disp 0|1> <user x0 | none> <A> <rangeDim> <domainDim> <ce> <cx> <prior mean> <b> -> as `map`  (MAP(disp, x0), direct route)
  covstate <covMutable 0|1> <_cov | none> <set:<arr> | cc:<full arr>> ...  -> `<array>` | `none`   (what the cov getter holds after the history)
  centre <A> <rangeDim> <domainDim> <ce> <cx> <x0> <b>  -> `<array>` | `err:<Class>`     (_sampleMapCholesky up to the factorisation)
  ref    <A> <We> <Wx> <x0> <b>                         -> `mean=<vec> cov=<mat>` | `err` (exact posterior mean/covariance, certified)
  getmatrix <mb|fn> <A> <E> <F>                         -> `m:<mat>`                      (LinearModel.get_matrix)
  fwd    <A> <E> <F> <x>                                -> `<vec>`                        (forward on parameters)
  draw   <xmap> <L> <xi>                                -> `<vec>`
  route  <prior> <lik> <model> <ddim> <rdim> <grad> <sqrtprecs> <maxdim> -> `map=<r> ml=<r> sample=<r>`
  loop   <xmap> <L> <Ns> <callback 0|1> <Nb | -> <stream>  -> `pos=<k> cols=<matrix, row s = draw s> calls=<indices>` | `err:UnboundLocalError`
         (the sampling loop of _sampleMapCholesky as reached from sample_posterior(Ns, Nb, callback); Model/C15_loop.lean)
  call   <MAP|ML> <disp 0|1> <userx0 0|1> <probe at start> <probe at zeros> <prior> <lik> <model> <ddim> <rdim> <maxdim>
         -> `raise` | `route=<direct|lbfgsb|minimize> grad=<0|1> start=<user|ones> label=<s> geom=<posterior|likelihood> lines=<l1>|<l2>|…`
         (probes: ok | notimpl | attr | other;  MAP/ML/_solve_max_point decision table, Model/C15_route.lean)
  chol   <C>                                             -> `lu=<unit lower matrix> d=<vec>` | `err:LinAlgError`
         (np.linalg.cholesky(C) in LDLᵀ form L = Lu·diag(√d), certified Lu·diag(d)·Luᵀ = C; Model/C15_chol.lean)
  ghist  <cov|prec|sqrtcov|sqrtprec> <len(mean)> <geometry dim | -> <MAX_DIM_INV> <arr> [set:<arr> | cc]...
         -> `new=ok|err:<Class>` then per operation `set=ok|err:<Class>` / `cc=<array>|err:<Class>` (exceptions swallowed, as
            `try/except` around each call), then `gram=<m:…|err:<Class>>` `cov=<array|none>` of the final state
            (Gaussian(mean, <param>=arr[, geometry=g]), setter assignments, compute_cov(); Model/C15_gauss.lean)
-/

abbrev Q := Rat

def toArr (m : List (List Rat)) : Array (Array Rat) := (m.map List.toArray).toArray
def vecFn (v : List Rat) : Nat → Q := let a := v.toArray; fun i => a.getD i 0
def matFn (m : List (List Rat)) : Nat → Nat → Q := let a := toArr m; fun i j => (a.getD i #[]).getD j 0

def rectangular (m : List (List Rat)) : Option (Nat × Nat) :=
  match m with
  | [] => none
  | r :: rs => if r.length > 0 ∧ rs.all (fun x => x.length == r.length) then some (m.length, r.length) else none

def parseArr (s : String) : Option (NArr Q) :=
  if s.startsWith "s:" then (parseRat (s.drop 2).toString).map NArr.s
  else if s.startsWith "v:" then do
    let v ← parseVec (s.drop 2).toString
    if v.isEmpty then none else some (NArr.v v.length (vecFn v))
  else if s.startsWith "m:" then do
    let m ← parseMat (s.drop 2).toString
    let (r, c) ← rectangular m
    some (NArr.m r c (matFn m))
  else none

def parseCov (s : String) : Option (Option (NArr Q)) :=
  if s = "none" then some none else (parseArr s).map some

def tabV (n : Nat) (f : Nat → Q) : List Rat := (List.range n).map f
def tabM (r c : Nat) (F : Nat → Nat → Q) : List (List Rat) := (List.range r).map (fun i => (List.range c).map (F i))

def fmtArr : NArr Q → String
  | .s c => "s:" ++ fmtRat c
  | .v l f => "v:" ++ fmtVec (tabV l f)
  | .m r c F => "m:" ++ fmtMat (tabM r c F)

def fmtRes : Except Err (NArr Q) → String
  | .ok a => fmtArr a
  | .error e => "err:" ++ e.toString

/-- untrusted solver (Gauss–Jordan of QMat); `NArr.solve` checks its certificate -/
def slvQ : Solver Q := fun n F g =>
  (QMat.solve (tabM n n F) (tabV n g)).map vecFn

def parseMatFn (s : String) : Option (Nat × Nat × (Nat → Nat → Q)) := do
  let m ← parseMat s
  let (r, c) ← rectangular m
  some (r, c, matFn m)

def parsePrior : String → Option PriorKind
  | "gaussian" => some .gaussian | "gmrf" => some .gmrf | "lmrf" => some .lmrf | "cmrf" => some .cmrf
  | "reggaussian" => some .regGaussian | "reggmrf" => some .regGmrf | "beta" => some .beta
  | "invgamma" => some .invGamma | "lognormal" => some .lognormal | "other" => some .other | _ => none

def fmtMapRoute : MapRoute → String
  | .direct => "direct" | .lbfgsb => "lbfgsb" | .minimize => "minimize"
def fmtSampleRoute : SampleRoute → String
  | .mapCholesky => "mapCholesky" | .linearRTO => "linearRTO" | .ugla => "ugla" | .nuts => "nuts"
  | .pcn => "pcn" | .regLinearRTO => "regLinearRTO" | .notImplemented => "notImplemented"

def parseBool : String → Option Bool
  | "1" => some true | "0" => some false | _ => none

/-- untrusted inverse (Gauss–Jordan of QMat); `certInv` checks its certificate -/
def invQ : Inverter Q := fun n M => (QMat.inverse (tabM n n M)).map matFn

/-- "cholesky succeeds": Sylvester's criterion, exact -/
def pdQ : PDTest Q := fun n M => (List.range n).all fun k => decide (QMat.det (tabM (k + 1) (k + 1) M) > 0)

def parseGParam : String → Option GParam
  | "cov" => some .cov | "prec" => some .prec | "sqrtcov" => some .sqrtcov | "sqrtprec" => some .sqrtprec | _ => none

def fmtGram : Except GErr (SqMat Q) → String
  | .ok (d, G) => "m:" ++ fmtMat (tabM d d G)
  | .error e => "err:" ++ e.toString

def fmtCovOpt : Option (NArr Q) → String
  | some a => fmtArr a
  | none => "none"

def parseGOp (o : String) : Option (GOp Q) :=
  if o = "cc" then some .computeCov
  else if o.startsWith "set:" then (parseArr (o.drop 4).toString).map GOp.setMain
  else none

/-- run a history with swallowed exceptions, logging each operation's outcome -/
def ghistLog (maxd : Nat) : GState Q → List (GOp Q) → List String → GState Q × List String
  | st, [], acc => (st, acc.reverse)
  | st, .setMain v :: ops, acc =>
    let (st', e) := st.setMain invQ pdQ v
    ghistLog maxd st' ops ((match e with | none => "set=ok" | some e => "set=err:" ++ e.toString) :: acc)
  | st, .computeCov :: ops, acc =>
    let (st', r) := st.computeCov invQ maxd
    ghistLog maxd st' ops ((match r with | .ok a => "cc=" ++ fmtArr a | .error e => "cc=err:" ++ e.toString) :: acc)

/-- untrusted LDLᵀ recursion over ℚ (no pivoting); `choleskyLDL` checks its certificate -/
def facQ : Factoriser Q := fun n C => Id.run do
  let mut L : Array (Array Rat) := Array.replicate n (Array.replicate n 0)
  let mut d : Array Rat := Array.replicate n 0
  for j in [0:n] do
    let mut dj := C j j
    for k in [0:j] do
      dj := dj - (L.getD j #[]).getD k 0 * (L.getD j #[]).getD k 0 * d.getD k 0
    if dj == 0 then return none
    d := d.set! j dj
    L := L.set! j ((L.getD j #[]).set! j 1)
    for i in [j+1:n] do
      let mut v := C i j
      for k in [0:j] do
        v := v - (L.getD i #[]).getD k 0 * (L.getD j #[]).getD k 0 * d.getD k 0
      L := L.set! i ((L.getD i #[]).set! j (v / dj))
  return some ((fun i j => (L.getD i #[]).getD j 0), (fun i => d.getD i 0))

def parseProbe : String → Option Probe
  | "ok" => some .ok | "notimpl" => some .notImplemented | "attr" => some .attributeError | "other" => some .other | _ => none

def step : List String → String
  | ["call", w, disp, ux, ps, pz, pr, lk, md, dd, rd, mx] =>
    let w? : Option Estimate := match w with | "MAP" => some .map | "ML" => some .ml | _ => none
    let lk? : Option LikKind := match lk with | "gaussian" => some .gaussian | "other" => some .other | _ => none
    let md? : Option ModelKind := match md with | "linear" => some .linear | "nonlinear" => some .nonlinear | _ => none
    match w?, parseBool disp, parseBool ux, parseProbe ps, parseProbe pz, parsePrior pr, lk?, md?, dd.toNat?, rd.toNat?, mx.toNat? with
    | some w, some disp, some ux, some ps, some pz, some pr, some lk, some md, some dd, some rd, some mx =>
      let p : Problem := { prior := pr, lik := lk, model := md, domainDim := dd, rangeDim := rd,
                           hasGradient := pz = .ok, hasSqrtprecs := false, maxDimInv := mx }
      match estimateCall p { which := w, disp := disp, userX0 := ux, probeStart := ps, probeZeros := pz } with
      | none => "raise"
      | some o =>
        let r := match o.solver with | none => "direct" | some .lbfgsb => "lbfgsb" | some .minimize => "minimize"
        s!"route={r} grad={fmtBool o.hasGrad} start={if o.startIsUser then "user" else "ones"} label={o.label} geom={if o.geomOfPosterior then "posterior" else "likelihood"} lines={"|".intercalate o.printed}"
    | _, _, _, _, _, _, _, _, _, _, _ => "bad-op"
  | ["chol", c] =>
    match parseMatFn c with
    | some (r, k, C) =>
      if r ≠ k then "err:LinAlgError" else
      match choleskyLDL facQ r C with
      | .ok (Lu, d) => s!"lu={fmtMat (tabM r r Lu)} d={fmtVec (tabV r d)}"
      | .error _ => "err:LinAlgError"
    | none => "bad-op"
  | ["loop", xm, l, ns, cb, nb, st] =>
    let nb? : Option (Option Nat) := if nb = "-" then some none else nb.toNat?.map some
    match parseVec xm, parseMatFn l, ns.toNat?, parseBool cb, nb?, parseVec st with
    | some xm, some (r, c, L), some ns, some cb, some nb, some st =>
      if r ≠ xm.length ∨ r ≠ c ∨ st.length < ns * r then "bad-op" else
      match sampleDirectLoop r (vecFn xm) L (vecFn st) cb ns nb with
      | .error _ => "err:UnboundLocalError"
      | .ok res =>
        let cols := res.cols.map (tabV r)
        s!"pos={res.pos} cols={fmtMat cols} calls={fmtNatList (res.calls.map (·.1))}"
    | _, _, _, _, _, _ => "bad-op"
  | "ghist" :: ps :: ml :: geom :: maxd :: a0 :: ops =>
    let geom? : Option (Option Nat) := if geom = "-" then some none else geom.toNat?.map some
    match parseGParam ps, ml.toNat?, geom?, maxd.toNat?, parseArr a0, ops.mapM parseGOp with
    | some p, some ml, some geom, some maxd, some v, some ops =>
      match construct invQ pdQ p ml geom v with
      | .error e => "new=err:" ++ e.toString
      | .ok st =>
        let (stf, log) := ghistLog maxd st ops []
        " ".intercalate (["new=ok"] ++ log ++ ["gram=" ++ fmtGram stf.gram, "cov=" ++ fmtCovOpt stf.cov, s!"dim={stf.dim}"])
    | _, _, _, _, _, _ => "bad-op"
  | ["map", a, rd, dd, ce, cx, x0, b] =>
    match parseArr a, rd.toNat?, dd.toNat?, parseCov ce, parseCov cx, parseArr x0, parseArr b with
    | some A, some rd, some dd, some ce, some cx, some x0, some b => fmtRes (mapDirect slvQ A rd dd ce cx x0 b)
    | _, _, _, _, _, _, _ => "bad-op"
  | ["mapx0", disp, ux, a, rd, dd, ce, cx, pm, b] =>
    match parseBool disp, parseCov ux, parseArr a, rd.toNat?, dd.toNat?, parseCov ce, parseCov cx, parseArr pm, parseArr b with
    | some disp, some ux, some A, some rd, some dd, some ce, some cx, some pm, some b =>
      fmtRes (mapMethod slvQ disp ux A rd dd ce cx pm b)
    | _, _, _, _, _, _, _, _, _ => "bad-op"
  | "covstate" :: mutS :: init :: ops =>
    match parseBool mutS, parseCov init with
    | some isMut, some init =>
      let parsed : Option (List (CovOp Q)) := ops.mapM (fun o =>
        if o.startsWith "set:" then (parseArr (o.drop 4).toString).map CovOp.setMain
        else if o.startsWith "cc:" then (parseArr (o.drop 3).toString).map CovOp.computeCov
        else none)
      match parsed with
      | some ops => match (CovState.run { covMutable := isMut, cov := init } ops).cov with
        | some a => fmtArr a
        | none => "none"
      | none => "bad-op"
    | _, _ => "bad-op"
  | ["centre", a, rd, dd, ce, cx, x0, b] =>
    match parseArr a, rd.toNat?, dd.toNat?, parseCov ce, parseCov cx, parseArr x0, parseArr b with
    | some A, some rd, some dd, some ce, some cx, some x0, some b => fmtRes (sampleCentre slvQ A rd dd ce cx x0 b)
    | _, _, _, _, _, _, _ => "bad-op"
  | ["ref", a, we, wx, x0, b] =>
    match parseMatFn a, parseMatFn we, parseMatFn wx, parseVec x0, parseVec b with
    | some (m, n, A), some (m1, m2, We), some (n1, n2, Wx), some x0, some b =>
      if m1 ≠ m ∨ m2 ≠ m ∨ n1 ≠ n ∨ n2 ≠ n ∨ x0.length ≠ n ∨ b.length ≠ m then "bad-op" else
      let H := tabM n n (postPrec m A We Wx)
      let x0f := vecFn x0; let bf := vecFn b
      -- right-hand side Aᵀ We b + Wx x0
      let rhs := tabV n (fun j => sumTo m (fun i => A i j * sumTo m (fun l => We i l * bf l)) + sumTo n (fun k => Wx j k * x0f k))
      match QMat.inverse H with
      | none => "err"
      | some C =>
        if !QMat.isInverse H C then "err" else
        let x := QMat.mulVec C rhs
        -- certificate: information-form normal equations hold exactly
        let res := tabV n (normalResidual m n A We Wx x0f bf (vecFn x))
        if res.all (· == 0) then s!"mean={fmtVec x} cov={fmtMat C}" else "err"
    | _, _, _, _, _ => "bad-op"
  | ["getmatrix", kind, a, e, f] =>
    match parseMatFn a, parseMatFn e, parseMatFn f with
    | some (rf, df, A), some (e1, dp, E), some (rp, f2, F) =>
      if e1 ≠ df ∨ f2 ≠ rf then "bad-op" else
      match kind with
      | "mb" => fmtArr (getMatrix true rf df rp dp A E F)
      | "fn" => fmtArr (getMatrix false rf df rp dp A E F)
      | _ => "bad-op"
    | _, _, _ => "bad-op"
  | ["fwd", a, e, f, x] =>
    match parseMatFn a, parseMatFn e, parseMatFn f, parseVec x with
    | some (rf, df, A), some (e1, dp, E), some (rp, f2, F), some x =>
      if e1 ≠ df ∨ f2 ≠ rf ∨ x.length ≠ dp then "bad-op" else
      fmtVec (tabV rp (forwardPar rf df dp A E F (vecFn x)))
    | _, _, _, _ => "bad-op"
  | ["draw", xm, l, xi] =>
    match parseVec xm, parseMatFn l, parseVec xi with
    | some xm, some (r, c, L), some xi =>
      if r ≠ xm.length ∨ c ≠ xi.length ∨ r ≠ c then "bad-op" else fmtVec (tabV r (draw r (vecFn xm) L (vecFn xi)))
    | _, _, _ => "bad-op"
  | ["route", pr, lk, md, dd, rd, g, sq, mx] =>
    match parsePrior pr, dd.toNat?, rd.toNat?, parseBool g, parseBool sq, mx.toNat? with
    | some pr, some dd, some rd, some g, some sq, some mx =>
      let lk? : Option LikKind := match lk with | "gaussian" => some .gaussian | "other" => some .other | _ => none
      let md? : Option ModelKind := match md with | "linear" => some .linear | "nonlinear" => some .nonlinear | _ => none
      match lk?, md? with
      | some lk, some md =>
        let p : Problem := { prior := pr, lik := lk, model := md, domainDim := dd, rangeDim := rd,
                             hasGradient := g, hasSqrtprecs := sq, maxDimInv := mx }
        s!"map={fmtMapRoute (mapRoute p)} ml={fmtMapRoute (mlRoute p)} sample={fmtSampleRoute (sampleRoute p)}"
      | _, _ => "bad-op"
    | _, _, _, _, _, _ => "bad-op"
  | _ => "bad-op"

def main : IO Unit := runDriver step
