import CuqiVerif.Model.Proto
import CuqiVerif.Model.QMat
import CuqiVerif.Model.RExpr
import CuqiVerif.Model.C20
import CuqiVerif.Model.C03
import CuqiVerif.Model.C03_gallery
import CuqiVerif.Model.C03_glue
import CuqiVerif.Model.C03_gaussform
open CuqiVerif CuqiVerif.Proto CuqiVerif.C03 CuqiVerif.RExpr

/-!
Line protocol of the C03 driver (one line in, one line out).  Values are printed as `q:<rational>`
(exact) or `f:<uint64 bits of the double>`; vectors are comma separated.

  status <family> <geom> <cond> <fd:0|1> <insupport:0|1> <precform> <dimgt1:0|1>   -> value|value-fd|raise|nan|none|not-vector
  iid <family> <x> <p1> <p2> <p3>      -> `value <logd> <grad> <demanded>` | `nan` | `raise`
        family ∈ cauchy(l,s,_) beta(a,b,_) invgamma(shape,loc,scale) smoothedlaplace(l,s,beta[1])
                 mhn(alpha,beta,gamma) lognormal(mean,var,_) uniform(low,high,_);  unused params `_`
  gauss <form> <x> <mu> <M>            -> `value <quad> <grad> <demanded>` | `not-vector <quad> <scalar> <demanded>` | `raise`
        form ∈ cov|prec|sqrtcov|sqrtprec; M: 1x1 = scalar, 1xn = 1-D array, nxn = matrix
  gmrf <1|2> <order> <bc> <n> <prec> <x> <mu>   -> `value <quad> <grad> <demanded>` | `raise`
  cmrf <1|2> <bc> <n> <scale> <x> <loc>         -> `value <logd> <grad> <demanded>`
  lik <dev> <J> <P> <G|_>              -> `value <grad>`  (dev = data - F(x); J m×p; P m×m; G p×n Jacobian of par2fun)
  poststatus <hasGrad> <dom> <rangeId> <precOk> <fd> <none|twolik|family> <dimgt1>  -> status of (posterior) gradient
  likimg <C|F> <h> <w> <dev> <J> <P>   -> `value <grad>`  (Image2D domain: fun2par of the image-shaped gradient by order)
  fdhist <e:eps|e:_|d|g>...            -> per `g`: `closed` | `fd:<eps>`   (FD configuration state machine)
  pgrad <x> <mu> <P>                   -> `value <-(P(x-mu))>`
  idgeoms                              -> the assumed list of identity geometries
  logndense <x> <logx> <mu> <C>        -> `value <grad>` | `nan` | `raise`   (Lognormal prior, any covariance form)
  sum <v1> <v2> ...                    -> `value <v1+v2+...>`
  fdquad <eps> <x> <mu> <P>            -> `value <fd gradient of -quad/2>`  (exact)
  gal calsom <x0,x1> <sig,delta>       -> `value <logd> <grad> <demanded>` | `raise`   (DistributionGallery, Model/C03_gallery)
  gal funnel <x0,x1> <m0,m1,s1>        -> same
  gal donut <x0,x1> <radius,sigma2>    -> same (at the origin the code divides by 1e-16)
  gal mixture <x0,x1> <m00,m01,v0,m10,m11,v1,m20,m21,v2>   -> same
  gal squiggle <x0,x1> <s,c,k> <mu> <C>  -> `value <quad> <grad>` (exact; s = sin(k x0), c = cos(k x0) leaf values; C = cov of G0)
  gal banana <x0,x1> <a,b> <mu> <C>      -> `value <quad> <grad>` (exact)
  galnames                             -> names with a branch in DistributionGallery.__init__
  glue <rep> <c> <x>                   -> `<wrt_par> <wrt>`: what Model.gradient hands to geometry.gradient / _gradient_func
        rep ∈ ndarray|cuqi-par|cuqi-fun|cuqi-other|funvals; geometry par2fun = c*p (Model/C03_glue)
  glue2 <rep> <E> <d> <Fm> <x>         -> same for the affine geometry par2fun = E p + d, fun2par = Fm (f - d)
  gradout <needsF2p> <ok|ni|ve> <hasGrad> <samples> <rangeId> <domHasGrad> <domId> <dirCuqi>  -> value-ndarray|value-cuqiarray|ValueError|NotImplementedError
-/

-- `fn`, `fn2`, `gaussForm`, `gaussGradOut` … : Model/C03_gaussform.lean

def fmtQ (q : Rat) : String := "q:" ++ fmtRatS q
def fmtQs (l : List Rat) : String := if l.isEmpty then "_" else ",".intercalate (l.map fmtQ)

def floatStr (f : Float) : String := "f:" ++ toString f.toBits

/-- component `j` of an i.i.d. family: (logpdf expr, grad expr, environment) -/
def iidComp (fam : String) (x p1 p2 p3 : List Rat) (j : Nat) : Option (RExpr × RExpr × List Rat) :=
  let v0 : RExpr := var 0; let v1 : RExpr := var 1; let v2 : RExpr := var 2; let v3 : RExpr := var 3
  let env := [x.getD j 0, bcast p1 j, bcast p2 j, bcast p3 j]
  match fam with
  | "cauchy" => some (cauchyLogpdf v0 v1 v2, cauchyGrad v0 v1 v2, env)
  | "beta" => some (betaLogpdf v0 v1 v2, betaGrad v0 v1 v2, env)
  | "invgamma" => some (invGammaLogpdf v0 v1 v2 v3, invGammaGrad v0 v1 v2 v3, env)
  | "smoothedlaplace" => some (slLogpdf v0 v1 v2 v3, slGrad v0 v1 v2 v3, env)
  -- the getters of `beta` and `gamma` return `_alpha` (cuqi/distribution/_modifiedhalfnormal.py):
  -- logpdf *and* gradient both read alpha three times
  | "mhn" => some (mhnLogpdf v0 v1 v1 v1, mhnGrad v0 v1 v1 v1, env)
  | "lognormal" => some (lognLogpdf v0 v1 v2, lognGrad v0 v1 v2, env)
  | _ => none

def iidSupport (fam : String) (x p1 p2 _p3 : List Rat) : Bool :=
  match fam with
  | "cauchy" => cauchyInSupport p2
  | "beta" => betaInSupport x p1 p2
  | "invgamma" => invGammaInSupport x p2
  | "mhn" => positiveSupport x
  | "lognormal" => positiveSupport x
  | "uniform" => uniformInSupport x p1 p2
  | _ => true

def stepIid (fam : String) (x p1 p2 p3 : List Rat) : String :=
  let n := x.length
  if !(bcastOk p1 n && bcastOk p2 n && bcastOk p3 n) then "raise" else
  -- `ModifiedHalfNormal._gradient` builds a list of `dim`-long rows: an array of shape (len(val), dim)
  if fam = "mhn" && n > 1 then "not-vector" else
  if !(iidSupport fam x p1 p2 p3) then "nan" else
  if fam = "uniform" then
    -- logpdf: log(1/volume) (C04's concern); gradient zeros
    -- scalar bounds: `(high-low)**dim` (since /repo commit 53dfade); array bounds: `prod(high-low)`
    let k := if p1.length = 1 && p2.length = 1 then n else max p1.length p2.length
    let v := (List.range k).foldl (fun acc j => acc * (bcast p2 j - bcast p1 j)) (1 : Rat)
    let zeros := fmtQs (List.replicate n 0)
    s!"value {floatStr (Float.log (1.0 / ratToFloat v))} {zeros} {zeros}"
  else
  match (List.range n).mapM (iidComp fam x p1 p2 p3) with
  | none => "bad-op"
  | some comps =>
    let logd := comps.foldl (fun (acc : Float) c => acc + evalFloat (envF c.2.2) c.1) 0.0
    -- SmoothedLaplace sums `log(0.5/scale)` over the entries of `scale` itself, not over the components
    let logd := if fam = "smoothedlaplace" && p2.length = 1 && n > 1 then
        logd - (Float.ofNat (n - 1)) * Float.log (0.5 / ratToFloat (p2.getD 0 1)) else logd
    let g := comps.map fun c => evalStr c.2.2 c.2.1
    let d := comps.map fun c => evalStr c.2.2 (deriv 0 c.1)
    s!"value {floatStr logd} {",".intercalate g} {",".intercalate d}"

/-! Gaussian forms: `gaussForm`, `gaussGradOut` of Model/C03_gaussform.lean -/
def symPart (_n : Nat) (P : QMat.Mat) : Nat → Nat → Rat := fun i j => (QMat.entry P i j + QMat.entry P j i) / 2

def stepGauss (form : String) (x mu : List Rat) (M : QMat.Mat) : String :=
  let n := x.length
  if !(bcastOk mu n) then "raise" else
  let μ : Nat → Rat := fun j => bcast mu j
  match gaussForm form n M with
  | none => "raise"
  | some (Plog, attr) =>
    let quad := gaussQuad n (fn2 Plog) (fn x) μ
    let demanded := (List.range n).map fun i => gaussGrad n (symPart n Plog) (fn x) μ i
    match gaussGradOut n attr x μ with
    | .raises => s!"raise {fmtQ quad} _ {fmtQs demanded}"
    | .notVector sc => s!"not-vector {fmtQ quad} {fmtQ sc} {fmtQs demanded}"
    | .value g => s!"value {fmtQ quad} {fmtQs g} {fmtQs demanded}"

def toQ (M : C20.FMat) : QMat.Mat := M.toList.map (fun r => r.map (fun (k : Int) => (k : Rat)))

def mrfOp (pd order : Nat) (bc : C20.BC) (n : Nat) : C20.FMat :=
  if pd = 2 then C20.diffOp2D order bc n else C20.diffOp order bc n

def stepGmrf (pd order : Nat) (bc : C20.BC) (n : Nat) (prec : Rat) (x mu : List Rat) : String :=
  let dim := if pd = 2 then n * n else n
  if x.length ≠ dim || !(bcastOk mu dim) || !(bc = .zero || bc = .periodic || bc = .neumann) then "raise" else
  let Pop := toQ (C20.gram (mrfOp pd order bc n))
  let P : Nat → Nat → Rat := fun i j => prec * QMat.entry Pop i j        -- `(self.prec*self._prec_op)`
  let μ : Nat → Rat := fun j => bcast mu j
  let quad := gaussQuad dim P (fn x) μ
  let g := (List.range dim).map fun i => gaussGrad dim P (fn x) μ i
  let demanded := (List.range dim).map fun i => gaussGrad dim (fun a b => (P a b + P b a) / 2) (fn x) μ i
  s!"value {fmtQ quad} {fmtQs g} {fmtQs demanded}"

def stepCmrf (pd : Nat) (bc : C20.BC) (n : Nat) (s : Rat) (x loc : List Rat) : String :=
  let dim := if pd = 2 then n * n else n
  if x.length ≠ dim || !(bcastOk loc dim) then "raise" else
  let Dm := mrfOp pd 1 bc n
  let D := fn2 (toQ Dm)
  let m := Dm.rows
  let l : Nat → Rat := fun j => bcast loc j
  let g := (List.range dim).map fun i => cmrfGrad m dim D s (fn x) l i
  -- demanded: chain rule with the symbolic derivative of the component formula `cmrfComp`
  let t := (List.range dim).map fun i => sumTo m fun k =>
      let u := matVec dim D (fun j => fn x j - l j) k
      (evalQ (envQ [u, s]) (RExpr.deriv 0 (cmrfComp (var 0) (var 1)))).getD 0 * D k i
  -- logpdf: -len(Dx)*log(pi) + sum(log(scale) - log(Dx**2+scale**2)),  Dx = D @ (x - location)
  let logd := (List.range m).foldl (fun (acc : Float) k =>
      let u := matVec dim D (fun j => fn x j - l j) k
      acc + evalFloat (envF [u, s]) (cmrfComp (var 0) (var 1))) (-(Float.ofNat m) * Float.log piF)
  s!"value {floatStr logd} {fmtQs g} {fmtQs t}"

def stepLik (dev : List Rat) (J P : QMat.Mat) (G : Option QMat.Mat) : String :=
  let m := dev.length
  let p := QMat.ncols J
  if J.length ≠ m || P.length ≠ m then "raise" else
  let n := match G with | none => p | some G => QMat.ncols G
  let g := (List.range n).map fun i => likGrad m p n (fn2 P) (fn dev) (fn2 J) (G.map fn2) i
  s!"value {fmtQs g}"

def stepFdQuad (ε : Rat) (x mu : List Rat) (P : QMat.Mat) : String :=
  let n := x.length
  let f : (Nat → Rat) → Rat := fun y => -(gaussQuad n (fn2 P) y (fn mu)) / 2
  if ε = 0 then "raise" else
  s!"value {fmtQs ((List.range n).map fun i => fdGrad f (fn x) ε i)}"

/-! DistributionGallery (`Model/C03_gallery.lean`) -/
def galExprs (env : List Rat) (logpdf : RExpr) (g : List RExpr) : String :=
  let logd := evalFloat (envF env) logpdf
  let gs := g.map (evalStr env)
  let ds := [0, 1].map fun i => evalStr env (deriv i logpdf)
  s!"value {floatStr logd} {",".intercalate gs} {",".intercalate ds}"

def stepGal (name : String) (x : List Rat) (ps : List (List Rat)) : String :=
  -- `x.reshape((1, 2))` raises unless the point has exactly two entries
  if x.length ≠ 2 then "raise" else
  let x0 := x.getD 0 0; let x1 := x.getD 1 0
  let v (i : Nat) : RExpr := var i
  match name, ps with
  | "calsom", [[sg, dl]] =>
      galExprs [x0, x1, sg, dl] (calSomLogpdf (v 0) (v 1) (v 2) (v 3))
        [calSomGrad0 (v 0) (v 1) (v 2) (v 3), calSomGrad1 (v 0) (v 1) (v 2) (v 3)]
  | "funnel", [[m0, m1, s1]] =>
      galExprs [x0, x1, m0, m1, s1] (funnelLogpdf (v 0) (v 1) (v 2) (v 3) (v 4))
        [funnelGrad0 (v 0) (v 1) (v 2) (v 3) (v 4), funnelGrad1 (v 0) (v 1) (v 2) (v 3) (v 4)]
  | "donut", [[R, s2]] =>
      let r := donutREff x0 x1
      galExprs [x0, x1, R, s2] (donutLogpdf (v 0) (v 1) (v 2) (v 3))
        [donutGradComp (v 0) r (v 2) (v 3), donutGradComp (v 1) r (v 2) (v 3)]
  | "mixture", [p] =>
      if p.length ≠ 9 then "bad-op" else
      galExprs ([x0, x1] ++ p) mixLogpdf [mixGrad 0, mixGrad 1]
  | "squiggle", [[s, c, k], mu, Cflat] =>
      if mu.length ≠ 2 || Cflat.length ≠ 4 then "bad-op" else
      match gaussForm "cov" 2 [Cflat.take 2, Cflat.drop 2] with
      | some (Plog, .mat P) =>
        let g := squiggleGrad (fn2 P) (fn mu) x0 x1 s c k
        s!"value {fmtQ (squiggleQuad (fn2 Plog) (fn mu) x0 x1 s)} {fmtQs [g 0, g 1]}"
      | _ => "raise"
  | "banana", [[a, b], mu, Cflat] =>
      if mu.length ≠ 2 || Cflat.length ≠ 4 then "bad-op" else
      if a = 0 then "nan" else
      match gaussForm "cov" 2 [Cflat.take 2, Cflat.drop 2] with
      | some (Plog, .mat P) =>
        let g := bananaGrad (fn2 P) (fn mu) x0 x1 a b
        s!"value {fmtQ (bananaQuad (fn2 Plog) (fn mu) x0 x1 a b)} {fmtQs [g 0, g 1]}"
      | _ => "raise"
  | _, _ => "bad-op"

def parseB (s : String) : Option Bool := match s with | "0" => some false | "1" => some true | _ => none

def step : List String → String
  | ["status", fam, g, c, fd, sup, pf, dg] =>
    match Family.ofString fam, Geom.ofString g, Cond.ofString c, parseB fd, parseB sup, PrecForm.ofString pf, parseB dg with
    | some fam, some g, some c, some fd, some sup, some pf, some dg => (gradStatus fam g c fd sup pf dg).toString
    | _, _, _, _, _, _, _ => "bad-op"
  -- poststatus <hasGrad> <dom> <rangeId> <precOk> <fd> <prior: none|twolik|family> <dimgt1>
  | ["poststatus", hg, dom, rid, pok, fd, prior, dg] =>
    match parseB hg, Geom.ofString dom, parseB rid, parseB pok, parseB fd, parseB dg with
    | some hg, some dom, some rid, some pok, some fd, some dg =>
      let lik := likStatus hg dom rid pok fd
      if prior = "none" then lik.toString
      else if prior = "twolik" then
        -- prior Gaussian (FD flag as given), this likelihood, a second likelihood with a matrix model
        (multiStatus [gradStatus .gaussian dom .no fd true .matrix dg, lik, likStatus true dom true true fd]).toString
      else match Family.ofString prior with
        | some fam => (postStatus lik (gradStatus fam dom .no false true .matrix dg) dom).toString
        | none => "bad-op"
    | _, _, _, _, _, _ => "bad-op"
  | ["iid", fam, x, p1, p2, p3] =>
    match parseVec x, parseVec p1, parseVec p2, parseVec p3 with
    | some x, some p1, some p2, some p3 =>
      let p3 := if p3.isEmpty then [0] else p3
      let p2 := if p2.isEmpty then [0] else p2
      if x.isEmpty || p1.isEmpty then "bad-op" else stepIid fam x p1 p2 p3
    | _, _, _, _ => "bad-op"
  | ["gauss", form, x, mu, M] =>
    match parseVec x, parseVec mu, parseMat M with
    | some x, some mu, some M => if x.isEmpty || mu.isEmpty then "bad-op" else stepGauss form x mu M
    | _, _, _ => "bad-op"
  | ["gmrf", pd, o, bc, n, prec, x, mu] =>
    match pd.toNat?, o.toNat?, C20.BC.ofString bc, n.toNat?, parseRat prec, parseVec x, parseVec mu with
    | some pd, some o, some bc, some n, some prec, some x, some mu =>
      if (pd = 1 || pd = 2) && o ≤ 2 then stepGmrf pd o bc n prec x mu else "bad-op"
    | _, _, _, _, _, _, _ => "bad-op"
  | ["cmrf", pd, bc, n, s, x, loc] =>
    match pd.toNat?, C20.BC.ofString bc, n.toNat?, parseRat s, parseVec x, parseVec loc with
    | some pd, some bc, some n, some s, some x, some loc =>
      if pd = 1 || pd = 2 then stepCmrf pd bc n s x loc else "bad-op"
    | _, _, _, _, _, _ => "bad-op"
  | ["lik", dev, J, P, G] =>
    match parseVec dev, parseMat J, parseMat P, (if G = "_" then some none else (parseMat G).map some) with
    | some dev, some J, some P, some G => stepLik dev J P G
    | _, _, _, _ => "bad-op"
  -- likimg <C|F> <h> <w> <dev> <J (m × h*w, columns = pixels row-major)> <P>  -> `value <grad in parameter order>`
  | ["likimg", ord, h, w, dev, J, P] =>
    match h.toNat?, w.toNat?, parseVec dev, parseMat J, parseMat P with
    | some h, some w, some dev, some J, some P =>
      if !(ord = "C" || ord = "F") || J.length ≠ dev.length || P.length ≠ dev.length || QMat.ncols J ≠ h * w then "raise" else
      let G : Nat → Nat → Rat := image2dJac (ord = "F") h w
      s!"value {fmtQs ((List.range (h * w)).map fun i => likGrad dev.length (h * w) (h * w) (fn2 P) (fn dev) (fn2 J) (some G) i)}"
    | _, _, _, _, _ => "bad-op"
  -- fdhist <op> <op> ...   op ∈ e:<eps> | e:_ | d | g   -> for every `g`: `closed` or `fd:<eps>`, space separated
  | "fdhist" :: ops =>
    let rec go (c : FDCfg) (ops : List String) (acc : List String) : Option (List String) :=
      match ops with
      | [] => some acc.reverse
      | "d" :: r => go (fdApply c .disable) r acc
      | "g" :: r => go c r ((match fdMode c with | none => "closed" | some e => "fd:" ++ fmtRatS e) :: acc)
      | o :: r =>
        if o.startsWith "e:" then
          let a := (o.drop 2).toString
          if a = "_" then go (fdApply c (.enable none)) r acc
          else match parseRat a with
            | some e => go (fdApply c (.enable (some e))) r acc
            | none => none
        else none
    match go FDCfg.init ops [] with
    | some l => if l.isEmpty then "_" else " ".intercalate l
    | none => "bad-op"
  -- pgrad <x> <mu> <P>  -> `value <-(P (x-mu))>`  (P given: the precision the log-density uses)
  | ["pgrad", x, mu, P] =>
    match parseVec x, parseVec mu, parseMat P with
    | some x, some mu, some P =>
      let n := x.length
      if P.length ≠ n || !(bcastOk mu n) then "raise" else
      s!"value {fmtQs ((List.range n).map fun i => gaussGrad n (fn2 P) (fn x) (fun j => bcast mu j) i)}"
    | _, _, _ => "bad-op"
  | "gal" :: name :: x :: ps =>
    match parseVec x, ps.mapM parseVec with
    | some x, some ps => stepGal name x ps
    | _, _ => "bad-op"
  | ["glue", rep, c, x] =>
    match parseRat c, parseVec x with
    | some c, some x =>
      if c = 0 then "raise" else
      let r : Option (PointRep (List Rat) (List Rat)) := match rep with
        | "ndarray" => some (.ndarray x) | "cuqi-par" => some (.cuqiParSame x) | "cuqi-fun" => some (.cuqiFunSame x)
        | "cuqi-other" => some (.cuqiParOther x) | "funvals" => some (.funvals x) | _ => none
      match r with
      | some r => s!"{fmtQs (wrtPar (scaledGeo c) r)} {fmtQs (wrtFun (scaledGeo c) r)}"
      | none => "bad-op"
    | _, _ => "bad-op"
  | ["glue2", rep, E, d, Fm, x] =>
    match parseMat E, parseVec d, parseMat Fm, parseVec x with
    | some E, some d, some Fm, some x =>
      let r : Option (PointRep (List Rat) (List Rat)) := match rep with
        | "ndarray" => some (.ndarray x) | "cuqi-par" => some (.cuqiParSame x) | "cuqi-fun" => some (.cuqiFunSame x)
        | "cuqi-other" => some (.cuqiParOther x) | "funvals" => some (.funvals x) | _ => none
      match r with
      | some r => s!"{fmtQs (wrtPar (linGeo E d Fm) r)} {fmtQs (wrtFun (linGeo E d Fm) r)}"
      | none => "bad-op"
    | _, _, _, _ => "bad-op"
  | ["gradout", nf, k, hg, sm, rid, dg, did, dc] =>
    let kind : Option Fun2parKind := match k with | "ok" => some .ok | "ni" => some .notImplemented | "ve" => some .valueError | _ => none
    match parseB nf, kind, parseB hg, parseB sm, parseB rid, parseB dg, parseB did, parseB dc with
    | some nf, some kind, some hg, some sm, some rid, some dg, some did, some dc =>
      (gradientOutcome nf kind hg sm rid dg did dc).toString
    | _, _, _, _, _, _, _, _ => "bad-op"
  | ["galnames"] => ",".intercalate galleryNames
  | ["idgeoms"] => ",".intercalate identityGeometries
  -- logndense <x> <log x (leaf)> <mu> <cov matrix>  -> `value <grad>` | `nan` | `raise`
  | ["logndense", x, lx, mu, C] =>
    match parseVec x, parseVec lx, parseVec mu, parseMat C with
    | some x, some lx, some mu, some C =>
      let n := x.length
      if lx.length ≠ n || !(bcastOk mu n) then "raise" else
      if !(positiveSupport x) then "nan" else
      match gaussForm "cov" n C with
      | some (_, .mat P) =>
        s!"value {fmtQs ((List.range n).map fun i => lognDenseGrad n (fn2 P) (fn x) (fn lx) (fun j => bcast mu j) i)}"
      | _ => "raise"
    | _, _, _, _ => "bad-op"
  | "sum" :: vs =>
    match vs.mapM parseVec with
    | some (v :: rest) =>
      if rest.all (·.length = v.length) then
        s!"value {fmtQs ((List.range v.length).map fun i => sumGrad ((v :: rest).map fn) i)}"
      else "raise"
    | _ => "bad-op"
  | ["fdquad", eps, x, mu, P] =>
    match parseRat eps, parseVec x, parseVec mu, parseMat P with
    | some eps, some x, some mu, some P => stepFdQuad eps x mu P
    | _, _, _, _ => "bad-op"
  | _ => "bad-op"

def main : IO Unit := runDriver step
