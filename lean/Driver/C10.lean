import CuqiVerif.Model.Proto
import CuqiVerif.Model.C20
import CuqiVerif.Model.C10
import CuqiVerif.Model.C10_weighted
import CuqiVerif.Model.C10_stencil
import CuqiVerif.Model.C10_gammadim
import CuqiVerif.Model.C10_approx
open CuqiVerif CuqiVerif.Proto CuqiVerif.C10
open CuqiVerif.C20 (BC)

/-
  Line protocol (one case per line):
    gauss  <reg 0|1> <cov|prec> <n> <f1> <Ax vec> <b vec> <alpha> <beta>
    gmrf   <reg 0|1> <order> <bc> <pd 1|2> <n> <f1: value of the prec callable at 1, a vector (one entry: scalar)> <mean vec> <b vec> <alpha> <beta>
        -> "<shape> <rate> <tLog> <tLin> <exact 0|1>"   | "err"  (shapes that the real code cannot combine)
    validate <exp|leg|approx|approxleg> <isPosterior> <lik> <priorGamma> <priorDim> <presetNonneg> <locSumZero> <var>*
        var = key:callable:hasPar:p1|p10|p100   (each p a vector, "-" when absent)
        -> verdict name
    approx <bc> <pd> <n> <x vec> <alpha>   -> "<shape> <Dx vec>"
    approxr <bc> <pd> <n> <x vec> <alpha> <beta>   -> "<shape> <rateLo> <rateHi>": rational enclosure of the ConjugateApprox rate
    directv <hasSample|userSampleFunc|userNoSampleFunc|conditional|noSampleMethod> <assignments> <N>  -> "ok <calls of the sampling routine>" | "TypeError"
    direct <nValidate> <N>                 -> chain of draw indices, acceptance list
    gmrfs  … same arguments and answer as `gmrf`, evaluated by stencils (`gmrfQuadFast`, equal to `gmrfQuad` by theorem
           `gmrfQuadFast_eq`): for large grids
    gammadim <len shape> <len rate> <geometry dim | ->   -> "dim <prior.dim> drawn <variates per step | x>" | "TypeError" | "ValueError"
    validateg <exp|leg|approx|approxleg> <len shape> <len rate> <geometry dim | -> <isPosterior> <lik> <presetNonneg> <locSumZero> <var>*
        -> verdict with the prior's dimension computed by the model (`withGammaPrior`) | "unbuildable"
    gausswb <cov|prec> <n> <dense|sparse> <matrix at 1> <Ax> <b> <alpha> <beta>   -> like `gaussw`: the full-matrix branch for dim > MIN_DIM_SPARSE
           (eigen-decomposition) and scipy-sparse valued callables (`bigQuad`: certificate-checked L D L^T / solve); indefinite -> err:notPD
    gaussw <reg 0|1> <cov|prec> <n> <s|v|m> <value of the callable at 1: rational | vector | matrix> <Ax vec> <b vec> <alpha> <beta>
        -> like `gauss`, or "err:<shape|asym|singular|notPD|zeroDiv>"  (vector / diagonal entries must be > 0, full matrices n <= 75:
           anything else is outside the modelled range and answered "bad-op")
-/

def parseBool (s : String) : Option Bool :=
  match s with | "1" => some true | "0" => some false | _ => none

def parseWiring : String → Option Wiring
  | "cov" => some .cov | "prec" => some .prec | _ => none

def parseLik : String → Option Lik
  | "gaussian" => some .gaussian | "gmrf" => some .gmrf | "reggaussian" => some .regGaussian
  | "reggmrf" => some .regGMRF | "lmrf" => some .lmrf | "other" => some .other | _ => none

def fmtVerdict : Verdict → String
  | .ok => "ok" | .notPosterior => "notPosterior" | .attrError => "attrError" | .noPair => "noPair"
  | .likType => "likType" | .priorType => "priorType" | .gammaDim => "gammaDim" | .preset => "preset"
  | .locNonzero => "locNonzero" | .notFound => "notFound" | .multiple => "multiple" | .badKey => "badKey"
  | .notReciprocal => "notReciprocal" | .notIdentity => "notIdentity" | .probeType => "probeType"

def parseProbes (s : String) : Option (List (List Rat)) :=
  if s = "-" then some [] else (s.splitOn "|").mapM parseVec

def parseVar (s : String) : Option MutVar :=
  match s.splitOn ":" with
  | [k, c, h, p] => do
      let c ← parseBool c
      let h ← parseBool h
      let p ← parseProbes p
      some ⟨k, c, h, p⟩
  | _ => none

def parseDOp (s : String) : Option DOp :=
  if s = "s" then some .step
  else if s = "r" then some .reinit
  else if s.startsWith "a" then (s.drop 1).toNat?.map DOp.assign
  else none

def parsePVal (kind s : String) : Option PVal :=
  match kind with
  | "s" => (parseRat s).map PVal.scalar
  | "v" => (parseVec s).map PVal.vector
  | "m" => (parseMat s).map PVal.matrix
  | _ => none

def fmtPErr : PErr → String
  | .shape => "err:shape" | .asym => "err:asym" | .singular => "err:singular" | .notPD => "err:notPD"
  | .zeroDiv => "err:zeroDiv"

/-- inside the modelled range: positive diagonal / vector entries (no NaN square roots), dense storage of full matrices -/
def pvalInRange (n : Nat) : PVal → Bool
  | .scalar _ => true
  | .vector v => v.length = 1 || v.all (fun x => 0 < x)
  | .matrix M =>
    M.length = 1 || (n ≤ 75 && (!(squareOf n M) || !(isDiagonal n (matFn M)) || (List.range n).all (fun i => 0 < matFn M i i)))

def fmtOutcome (o : Outcome) : String :=
  s!"{fmtRat o.gamma.shape} {fmtRat o.gamma.rate} {fmtRat o.tLog} {fmtRat o.tLin} {fmtBool o.exact}"

def step : List String → String
  | ["gauss", reg, w, n, f1, ax, b, al, be] =>
    match parseBool reg, parseWiring w, n.toNat?, parseRat f1, parseVec ax, parseVec b, parseRat al, parseRat be with
    | some reg, some w, some n, some f1, some ax, some b, some al, some be =>
      -- `L @ (Ax - b)` needs a vector of length n; `1/f1` needs f1 ≠ 0
      if blen ax.length b.length ≠ some n then "err"
      else if w = .cov ∧ f1 = 0 then "err"
      else fmtOutcome (outcome reg (gaussQuad n (unitPrec w f1) ax b) b al be)
    | _, _, _, _, _, _, _, _ => "bad-op"
  | ["gaussw", reg, w, n, kind, val, ax, b, al, be] =>
    match parseBool reg, parseWiring w, n.toNat?, parsePVal kind val, parseVec ax, parseVec b, parseRat al, parseRat be with
    | some reg, some w, some n, some pv, some ax, some b, some al, some be =>
      if !pvalInRange n pv then "bad-op"
      else if blen ax.length b.length ≠ some n then "err:shape"
      else match unitPrecOf w n pv with
        | .error e => fmtPErr e
        | .ok U => fmtOutcome (outcome reg (gaussQuadU n U ax b) b al be)
    | _, _, _, _, _, _, _, _ => "bad-op"
  | ["gausswb", w, n, kind, val, ax, b, al, be] =>
    match parseWiring w, n.toNat?, parseMat val, parseVec ax, parseVec b, parseRat al, parseRat be with
    | some w, some n, some M, some ax, some b, some al, some be =>
      if kind ≠ "dense" ∧ kind ≠ "sparse" then "bad-op"
      else if n > 12 then "bad-op"     -- the list-backed exact factorisation is only practical for small matrices
      else if blen ax.length b.length ≠ some n then "err:shape"
      else match bigQuad w n (kind = "sparse") M (devA ax b) with
        | .error e => fmtPErr e
        | .ok none => "bad-op"
        | .ok (some q) => fmtOutcome (outcome false ⟨q, q, n⟩ b al be)
    | _, _, _, _, _, _, _ => "bad-op"
  | ["gmrf", reg, o, bc, pd, n, f1, mean, b, al, be] =>
    match parseBool reg, o.toNat?, BC.ofString bc, pd.toNat?, n.toNat?, parseVec f1, parseVec mean, parseVec b,
          parseRat al, parseRat be with
    | some reg, some o, some bc, some pd, some n, some f1, some mean, some b, some al, some be =>
      if pd ≠ 1 ∧ pd ≠ 2 then "bad-op"
      else if !gmrfAccepts o bc pd n then "err"
      else if blen mean.length b.length ≠ some (gmrfDim pd n) then "err"
      else match gmrfPrecOf f1 with
        | none => "err"
        | some f1 => fmtOutcome (outcome reg (gmrfQuad o bc pd n f1 mean b) b al be)
    | _, _, _, _, _, _, _, _, _, _ => "bad-op"
  | ["gmrfs", reg, o, bc, pd, n, f1, mean, b, al, be] =>
    match parseBool reg, o.toNat?, BC.ofString bc, pd.toNat?, n.toNat?, parseVec f1, parseVec mean, parseVec b,
          parseRat al, parseRat be with
    | some reg, some o, some bc, some pd, some n, some f1, some mean, some b, some al, some be =>
      if pd ≠ 1 ∧ pd ≠ 2 then "bad-op"
      else if !gmrfAccepts o bc pd n then "err"
      else if blen mean.length b.length ≠ some (gmrfDim pd n) then "err"
      else match gmrfPrecOf f1 with
        | none => "err"
        | some f1 => fmtOutcome (outcome reg (gmrfQuadFast o bc pd n f1 mean b) b al be)
    | _, _, _, _, _, _, _, _, _, _ => "bad-op"
  | ["gammadim", a, r, g] =>
    match a.toNat?, r.toNat?, (if g = "-" then some none else g.toNat?.map some) with
    | some a, some r, some g =>
      match gammaPriorDim a r g with
      | .dim k => s!"dim {k} drawn {match drawnDim a r with | some d => toString d | none => "x"}"
      | .typeError => "TypeError"
      | .valueError => "ValueError"
    | _, _, _ => "bad-op"
  | "validateg" :: iface :: a :: r :: g :: isP :: lik :: preset :: loc :: vars =>
    match a.toNat?, r.toNat?, (if g = "-" then some none else g.toNat?.map some), parseBool isP, parseLik lik,
          parseBool preset, parseBool loc, vars.mapM parseVar with
    | some a, some r, some g, some isP, some lik, some preset, some loc, some vars =>
      match withGammaPrior ⟨isP, lik, true, 0, preset, loc, vars⟩ a r g with
      | none => "unbuildable"
      | some t =>
        match iface with
        | "exp" => fmtVerdict (validateExp t)
        | "leg" => fmtVerdict (validateLegacy t)
        | "approx" => fmtVerdict (validateApprox t)
        | "approxleg" => fmtVerdict (validateApproxLegacy t)
        | _ => "bad-op"
    | _, _, _, _, _, _, _, _ => "bad-op"
  | "validate" :: iface :: isP :: lik :: pg :: pdim :: preset :: loc :: vars =>
    match parseBool isP, parseLik lik, parseBool pg, pdim.toNat?, parseBool preset, parseBool loc, vars.mapM parseVar with
    | some isP, some lik, some pg, some pdim, some preset, some loc, some vars =>
      let t : Target := ⟨isP, lik, pg, pdim, preset, loc, vars⟩
      match iface with
      | "exp" => fmtVerdict (validateExp t)
      | "leg" => fmtVerdict (validateLegacy t)
      | "approx" => fmtVerdict (validateApprox t)
      | "approxleg" => fmtVerdict (validateApproxLegacy t)
      | _ => "bad-op"
    | _, _, _, _, _, _, _ => "bad-op"
  | ["approx", bc, pd, n, x, al] =>
    match BC.ofString bc, pd.toNat?, n.toNat?, parseVec x, parseRat al with
    | some bc, some pd, some n, some x, some al =>
      if pd ≠ 1 ∧ pd ≠ 2 then "bad-op"
      else if x.length ≠ gmrfDim pd n then "err"
      else s!"{fmtRat (approxShape x al)} {fmtVec (approxDx bc pd n x)}"
    | _, _, _, _, _ => "bad-op"
  | ["approxr", bc, pd, n, x, al, be] =>
    match BC.ofString bc, pd.toNat?, n.toNat?, parseVec x, parseRat al, parseRat be with
    | some bc, some pd, some n, some x, some al, some be =>
      if pd ≠ 1 ∧ pd ≠ 2 then "bad-op"
      else if x.length ≠ gmrfDim pd n then "err"
      else
        let dx := approxDx bc pd n x
        s!"{fmtRat (approxShape x al)} {fmtRat (approxRateLo dx be approxBits)} {fmtRat (approxRateHi dx be approxBits)}"
    | _, _, _, _, _, _ => "bad-op"
  | ["directv", kind, k, n] =>
    match (match kind with
           | "hasSample" => some DTarget.hasSample | "userSampleFunc" => some DTarget.userSampleFunc
           | "userNoSampleFunc" => some DTarget.userNoSampleFunc | "conditional" => some DTarget.conditional
           | "noSampleMethod" => some DTarget.noSampleMethod | _ => none), k.toNat?, n.toNat? with
    | some t, some k, some n =>
      match directCalls t k n with
      | some c => s!"ok {c}"
      | none => "TypeError"
    | _, _, _ => "bad-op"
  | ["direct", nv, n] =>
    match nv.toNat?, n.toNat? with
    | some nv, some n =>
      let st := directRun (fun k => k) n (directValidateN nv (chainInit 0 0))
      s!"{fmtNatList st.samples} {fmtNatList st.acc} {st.current} {st.pos}"
    | _, _ => "bad-op"
  | "directm" :: t0 :: ops =>
    match t0.toNat?, ops.mapM parseDOp with
    | some t0, some ops =>
      let st := mRun (mInit t0) ops
      let ss := if st.samples.isEmpty then "_" else ",".intercalate (st.samples.map (fun p => s!"{p.1}:{p.2}"))
      s!"{ss} {fmtNatList st.acc} {st.cur}"
    | _, _ => "bad-op"
  | _ => "bad-op"

def main : IO Unit := runDriver step
