import CuqiVerif.Model.Proto
import CuqiVerif.Model.QMat
import CuqiVerif.Model.C06
open CuqiVerif CuqiVerif.Proto CuqiVerif.C06

/-!
  Line protocol of the C06 driver (all numbers exact rationals).

  shape    := `s:<q>` | `v:<vec>` | `m:<mat>`
  spec     := <kind: cov|prec|sqrtcov|sqrtprec> <shape>
  lik      := <m> <A m×n> <d> <L m×m> spec                (L = leaf: the implementation's sqrtprec)
  prior    := `gauss` <L2 n×n> <meanLen> <mean> spec
            | `gmrf`  <L2 n×n> <mean> <P n×n>              (P = prec · DᵀD, exact)
            | `joint` <nb> (<rows> <R rows×n> <mu>)*nb
  problem  := <n> <k> lik*k prior

  `rto problem`                    → `ok <adj> <m> <B> <C> <mcode> <Ccode> <mdoc> <Cdoc>` | `singular` | `err:<class>`
  `step problem <e> <x0> <maxit> <tol2> <eps>` → `ok <x> <k> <converged>`
  `ugla <n> <m> <A> <d> <L1> spec <p> <D> <loc> <s> <w> <invScale> <wdoc>`
                                   → `ok <adj> <m> <B> <C> <mdoc> <Cdoc>` | `singular`
  `validate rto|ugla …`            → `ok` | `ValueError` | `TypeError`
-/

abbrev Q := Rat

def matOf (l : List (List Q)) : Mat Q := ofRows (l.map List.toArray).toArray
def vecOf (l : List Q) : Vec Q := ofArr l.toArray

def parseKind : String → Option Kind
  | "cov" => some .cov | "prec" => some .prec | "sqrtcov" => some .sqrtcov | "sqrtprec" => some .sqrtprec
  | _ => none

/-- shape token; also returns the raw dimensions seen (rows, cols) for refusals -/
def parseShape (s : String) : Option (Shape Q × Nat × Nat) :=
  match s.splitOn ":" with
  | ["s", q] => (fun c => (Shape.scalar c, 1, 1)) <$> parseRat q
  | ["v", v] => (fun l => (Shape.vector (vecOf l), l.length, 1)) <$> parseVec v
  | ["m", m] => (fun l => (Shape.matrix (matOf l), l.length, QMat.ncols l)) <$> parseMat m
  | _ => none

def listM (m n : Nat) (A : Mat Q) : QMat.Mat := toListM m n A

/-- certified inverse of an `n × n` model matrix (untrusted elimination, checked product) -/
def certInv (n : Nat) (A : Mat Q) : Option (Mat Q) :=
  match QMat.inverse (listM n n A) with
  | some Ai => if QMat.isInverse (listM n n A) Ai then some (matOf Ai) else none
  | none => none

/-- precision matrix of a specification (`code`: as the code takes it, else as documented) -/
def precOf (code : Bool) (n : Nat) (k : Kind) (sh : Shape Q) : Option (Mat Q) :=
  let S := tabM n n (specMat code n k sh)
  if k.isCov then certInv n S else some S

structure LikD where
  m : Nat
  A : Mat Q
  d : Vec Q
  L : Mat Q
  kind : Kind
  shape : Shape Q
  refused : Bool

structure PriorD where
  prior : Prior Q
  /-- (P, P·μ) as the code takes it / as documented; `none` when singular -/
  code : Option (Mat Q × Vec Q)
  doc : Option (Mat Q × Vec Q)
  refused : Bool

def refusedSpec (n : Nat) (k : Kind) (sh : Shape Q) (r c : Nat) : Bool :=
  !(specSymmetricOk n k sh) ||
  (match sh with
   | .matrix _ => r != c || r != n
   | .vector _ => r != n
   | .scalar _ => false)

def parseLiks (n : Nat) : Nat → List String → Option (List LikD × List String)
  | 0, ts => some ([], ts)
  | k + 1, m :: A :: d :: L :: kd :: sh :: ts => do
    let m ← m.toNat?
    let A ← parseMat A
    let d ← parseVec d
    let L ← parseMat L
    let kd ← parseKind kd
    let (sh, r, c) ← parseShape sh
    let (rest, ts') ← parseLiks n k ts
    some ({ m := m, A := matOf A, d := vecOf d, L := matOf L, kind := kd, shape := sh,
            refused := refusedSpec m kd sh r c } :: rest, ts')
  | _, _ => none

def precTimes (n : Nat) (P : Option (Mat Q)) (mu : Vec Q) : Option (Mat Q × Vec Q) :=
  P.map fun P => (P, tabV n (mulVec n P mu))

def parseJoint (n : Nat) : Nat → List String → Option (List (Nat × Mat Q × Vec Q) × List String)
  | 0, ts => some ([], ts)
  | k + 1, r :: R :: mu :: ts => do
    let r ← r.toNat?
    let R ← parseMat R
    let mu ← parseVec mu
    let (rest, ts') ← parseJoint n k ts
    some ((r, matOf R, vecOf mu) :: rest, ts')
  | _, _ => none

def parsePrior (n : Nat) : List String → Option (PriorD × List String)
  | "gauss" :: L2 :: ml :: mean :: kd :: sh :: ts => do
    let L2 ← parseMat L2
    let ml ← ml.toNat?
    let mean ← parseVec mean
    let kd ← parseKind kd
    let (sh, r, c) ← parseShape sh
    let mu := gaussMean ml (vecOf mean)
    some ({ prior := gaussPrior n (matOf L2) ml (vecOf mean),
            code := precTimes n (precOf true n kd sh) mu,
            doc := precTimes n (precOf false n kd sh) mu,
            refused := refusedSpec n kd sh r c || (ml != 1 && ml != n) }, ts)
  | "gmrf" :: L2 :: mean :: P :: ts => do
    let L2 ← parseMat L2
    let mean ← parseVec mean
    let P ← parseMat P
    let pm := precTimes n (some (matOf P)) (vecOf mean)
    some ({ prior := gmrfPrior n (matOf L2) (vecOf mean), code := pm, doc := pm,
            refused := mean.length != n }, ts)
  | "joint" :: nb :: ts => do
    let nb ← nb.toNat?
    let (bs, ts') ← parseJoint n nb ts
    -- documented: product of the independent Gaussians N(μᵢ, (RᵢᵀRᵢ)⁻¹)
    let P : Mat Q := tabM n n fun i j => (bs.map fun b => gram b.1 b.2.1 i j).foldl (· + ·) 0
    let Pmu : Vec Q := tabV n fun i => (bs.map fun b => mulVec n (gram b.1 b.2.1) b.2.2 i).foldl (· + ·) 0
    some ({ prior := jointPrior n bs, code := some (P, Pmu), doc := some (P, Pmu), refused := false }, ts')
  | _ => none

structure ProblemD where
  n : Nat
  liks : List LikD
  prior : PriorD

def parseProblem : List String → Option (ProblemD × List String)
  | n :: k :: ts => do
    let n ← n.toNat?
    let k ← k.toNat?
    let (liks, ts') ← parseLiks n k ts
    let (pr, ts'') ← parsePrior n ts'
    some ({ n := n, liks := liks, prior := pr }, ts'')
  | _ => none

def ProblemD.matLiks (P : ProblemD) : List (MatLik Q) :=
  P.liks.map fun l => { m := l.m, L := l.L, A := l.A, d := l.d }

def ProblemD.problem (P : ProblemD) : Problem Q := problemOf P.n P.matLiks P.prior.prior

/-- posterior moments from precisions: `H = Σ AᵢᵀΛᵢAᵢ + P`, `g = Σ AᵢᵀΛᵢdᵢ + Pμ` -/
def moments (P : ProblemD) (code : Bool) : Option (Vec Q × Mat Q) := do
  let (Pp, Pmu) ← if code then P.prior.code else P.prior.doc
  let lams ← P.liks.mapM fun l => (precOf code l.m l.kind l.shape).map fun Lam => (l, Lam)
  let n := P.n
  let H : Mat Q := tabM n n fun i j =>
    (lams.map fun (l, Lam) => mul l.m (tr l.A) (tabM l.m n (mul l.m Lam l.A)) i j).foldl (· + ·) (Pp i j)
  let g : Vec Q := tabV n fun i =>
    (lams.map fun (l, Lam) => tmulVec l.m l.A (tabV l.m (mulVec l.m Lam l.d)) i).foldl (· + ·) (Pmu i)
  let C ← certInv n H
  some (tabV n (mulVec n C g), C)

def fmtV (n : Nat) (v : Vec Q) : String := fmtVec (toListV n v)
def fmtM (m n : Nat) (A : Mat Q) : String := fmtMat (toListM m n A)

/-- offset, linear part and covariance of the least-squares map for a stacked operator given by
    its two actions; also reports whether flag 2 is the exact transpose of flag 1 -/
def lsqReport (N n : Nat) (fwd adj : Vec Q → Vec Q) (b : Vec Q) : Option (Bool × Vec Q × Mat Q × Mat Q) :=
  -- columns of flag 1 / rows of flag 2
  let M : Mat Q := tabM N n fun i j => fwd (unit j) i
  let Mt : Mat Q := tabM n N fun j i => adj (unit i) j
  let adjOk := (List.range N).all fun i => (List.range n).all fun j => M i j == Mt j i
  let H := tabM n n (gram N M)
  match certInv n H with
  | none => none
  | some C =>
    let B := tabM n N (mul n C (tr M))
    let m := tabV n (mulVec N B b)
    some (adjOk, m, B, C)

def optPair (o : Option (Vec Q × Mat Q)) (n : Nat) : String :=
  match o with
  | some (m, C) => s!"{fmtV n m} {fmtM n n C}"
  | none => "singular singular"

def step : List String → String
  | "rto" :: ts =>
    match parseProblem ts with
    | some (P, []) =>
      if P.liks.any (·.refused) || P.prior.refused then "err:ValueError" else
      let pb := P.problem
      let N := rowsM pb
      let b := tabV N (bTilde pb)
      -- the matrix branch must describe the same operator as the function branch
      let Mm := tabM N P.n (Mmat P.matLiks P.prior.prior)
      let same := (List.range N).all fun i => (List.range P.n).all fun j => Mm i j == Mfwd pb (unit j) i
      match lsqReport N P.n (Mfwd pb) (Madj pb) b with
      | none => "singular"
      | some (adjOk, m, B, C) =>
        s!"ok {fmtBool (adjOk && same)} {fmtV P.n m} {fmtM P.n N B} {fmtM P.n P.n C} {optPair (moments P true) P.n} {optPair (moments P false) P.n}"
    | _ => "bad-op"
  | "step" :: ts =>
    match parseProblem ts with
    | some (P, [e, x0, maxit, tol2, eps]) =>
      match parseVec e, parseVec x0, maxit.toNat?, parseRat tol2, parseRat eps with
      | some e, some x0, some maxit, some tol2, some eps =>
        if P.liks.any (·.refused) || P.prior.refused then "err:ValueError" else
        let pb := P.problem
        let st := rtoStep pb (vecOf e) (vecOf x0) maxit tol2 eps
        s!"ok {fmtV P.n st.x} {st.k} {fmtBool (st.gamma == 0)}"
      | _, _, _, _, _ => "bad-op"
    | _ => "bad-op"
  | ["ugla", n, m, A, d, L1, kd, sh, p, D, loc, s, w, invScale, wdoc] =>
    match n.toNat?, m.toNat?, parseMat A, parseVec d, parseMat L1, parseKind kd, parseShape sh, p.toNat?,
          parseMat D, parseVec loc, parseRat s, parseVec w, parseRat invScale, parseVec wdoc with
    | some n, some m, some A, some d, some L1, some kd, some (sh, _, _), some p, some D, some loc, some s,
      some w, some invScale, some wdoc =>
      let U : Ugla Q := { n := n, lik := { m := m, L := matOf L1, A := matOf A, d := vecOf d }, p := p,
                          D := matOf D, loc := vecOf loc, s := s, w := vecOf w }
      let N := U.rows
      let same := (List.range N).all fun i => (List.range n).all fun j => U.Mmat i j == U.Mfwd (unit j) i
      match lsqReport N n U.Mfwd U.Madj (tabV N U.bTilde) with
      | none => "singular"
      | some (adjOk, mm, B, C) =>
        -- documented local Gaussian: precision AᵀΛA + (1/scale) Dᵀ diag(wdoc) D
        let doc : Option (Vec Q × Mat Q) := do
          let Lam ← precOf false m kd sh
          let Am := matOf A
          let Dm := matOf D
          let Pp : Mat Q := tabM n n fun i j => invScale * sumTo p fun k => Dm k i * (vecOf wdoc k * Dm k j)
          let H : Mat Q := tabM n n fun i j => mul m (tr Am) (tabM m n (mul m Lam Am)) i j + Pp i j
          let g : Vec Q := tabV n fun i => tmulVec m Am (tabV m (mulVec m Lam (vecOf d))) i + mulVec n Pp (vecOf loc) i
          let C ← certInv n H
          some (tabV n (mulVec n C g), C)
        s!"ok {fmtBool (adjOk && same)} {fmtV n mm} {fmtM n N B} {fmtM n n C} {optPair doc n}"
    | _, _, _, _, _, _, _, _, _, _, _, _, _, _ => "bad-op"
  | "validate" :: "rto" :: t :: k :: ts =>
    let tk : Option TargetKind := match t with
      | "posterior" => some .posterior | "multiple" => some .multiple | "other" => some .other | _ => none
    match tk, k.toNat? with
    | some tk, some k =>
      let flags := ts.map (· == "1")
      if flags.length != 2 * k + 2 || ts.any (fun s => s != "0" && s != "1") then "bad-op" else
      let liks := (List.range k).map fun i => (flags.getD (2 * i) false, flags.getD (2 * i + 1) false)
      match validateRTO tk liks (flags.getD (2 * k) false) (flags.getD (2 * k + 1) false) with
      | .ok => "ok" | .valueError => "ValueError" | .typeError => "TypeError"
    | _, _ => "bad-op"
  | ["validate", "ugla", t, a, b, c] =>
    let tk : Option TargetKind := match t with
      | "posterior" => some .posterior | "multiple" => some .multiple | "other" => some .other | _ => none
    match tk with
    | some tk =>
      if [a, b, c].any (fun s => s != "0" && s != "1") then "bad-op" else
      match validateUGLA tk (a == "1") (b == "1") (c == "1") with
      | .ok => "ok" | .valueError => "ValueError" | .typeError => "TypeError"
    | none => "bad-op"
  | _ => "bad-op"

def main : IO Unit := runDriver step
