import CuqiVerif.Model.Proto
import CuqiVerif.Model.QMat
import CuqiVerif.Model.C06
import CuqiVerif.Model.C06_factor
import CuqiVerif.Model.C06_loop
import CuqiVerif.Model.C06_ugla
import CuqiVerif.Model.C06_gmrf
open CuqiVerif CuqiVerif.Proto CuqiVerif.C06

/-!
  Line protocol of the C06 driver (all numbers exact rationals).

  shape    := `s:<q>` | `v:<vec>` | `m:<mat>`
  spec     := <kind: cov|prec|sqrtcov|sqrtprec> <shape>
  lik      := <m> <A m×n> <d> <L m×m> spec                (L = leaf: the implementation's sqrtprec)
  prior    := `gauss` <L2 n×n> <meanLen> <mean> spec
            | `gmrf`  <L2 n×n> <mean> <P n×n>              (P = prec · DᵀD, exact)
            | `gmrfop` <L2 n×n> <mean> <order> <bc> <prec>   (P = prec · DᵀD computed by the model from C20's `diffOp`)
            | `joint` <nb> (<rows> <R rows×n> <mu>)*nb
  problem  := <n> <k> lik*k prior

  `rto problem`                    → `ok <adj> <m> <B> <C> <mcode> <Ccode> <mdoc> <Cdoc>` | `singular` | `err:<class>`
  `step problem <e> <x0> <maxit> <tol2> <eps>` → `ok <x> <k> <converged>`
  `ugla <n> <m> <A> <d> <L1> spec <p> <D> <loc> <s> <w> <invScale> <wdoc>`
                                   → `ok <adj> <m> <B> <C> <mdoc> <Cdoc>` | `singular`
  `validate rto|ugla …`            → `ok` | `ValueError` | `TypeError`
  `factor <dim> <kind> <arr>`      (arr := `s:<q>` python number | `v:<vec>` 1-D | `m:<mat>` 2-D)
                                   → `ok <branch> <size> <L>` | `irrational <branch> <size> <isCov> <S>` (the matrix the
                                     factor's Gram matrix must equal / invert) | `flat1` | `err:ValueError` | `err:LinAlgError`
  `loop legacy <N> <Nb> <maxit> problem <x0> <e>*`  (exact CGLS: tol = 0, eps = 2⁻⁵²; the draws in the order consumed)
  `loop exp <Nb> <Ns> <maxit> problem <x0> <e>*`   → `ok <one row per returned sample>` | `ok empty` | `err:IndexError`
  `uglaw <n> <p> <D p×n> <xk> <beta> <w>`          → `ok <residuals w⁴((D x_k)²+β)−1> <L2 = W^{1/2} D>`
  `factors <dim> <kind> <storage: dense|dia|csr|csc|coo|bsr|lil> <arr>` → `<path> <result sparse 0/1> ` + the `factor` answer
  `gmrfprec <order> <bc> <n> <prec>`               → `ok <rows of D> <D> <prec·DᵀD>` | `err:ValueError`
  `kinds <cov> <prec> <sqrtcov> <sqrtprec>` (0/1: argument given) → `cov|prec|sqrtcov|sqrtprec` | `none` | `err:ValueError`
-/

abbrev Q := Rat

/-- tabulated matrix / vector as *data* (so that it is computed once) -/
structure TM where
  a : Array (Array Q)
structure TV where
  a : Array Q
def TM.f (t : TM) : Mat Q := ofRows t.a
def TV.f (t : TV) : Vec Q := ofArr t.a
def tm (m n : Nat) (A : Mat Q) : TM := ⟨tabRows m n A⟩
def tv (n : Nat) (v : Vec Q) : TV := ⟨tabArr n v⟩
def tmOf (l : List (List Q)) : TM := ⟨(l.map List.toArray).toArray⟩
def tvOf (l : List Q) : TV := ⟨l.toArray⟩

def parseKind : String → Option Kind
  | "cov" => some .cov | "prec" => some .prec | "sqrtcov" => some .sqrtcov | "sqrtprec" => some .sqrtprec
  | _ => none

/-- shape token; also returns the raw dimensions seen (rows, cols) for refusals -/
def parseShape (s : String) : Option (Shape Q × Nat × Nat) :=
  match s.splitOn ":" with
  | ["s", q] => (fun c => (Shape.scalar c, 1, 1)) <$> parseRat q
  | ["v", v] => (fun l => let t := tvOf l; (Shape.vector t.f, l.length, 1)) <$> parseVec v
  | ["m", m] => (fun l => let t := tmOf l; (Shape.matrix t.f, l.length, QMat.ncols l)) <$> parseMat m
  | _ => none

/-- certified inverse of an `n × n` model matrix (untrusted elimination, checked product) -/
def certInv (n : Nat) (A : TM) : Option TM :=
  let l := toListM n n A.f
  match QMat.inverse l with
  | some Ai => if QMat.isInverse l Ai then some (tmOf Ai) else none
  | none => none

/-- precision matrix of a specification (`code`: as the code takes it, else as documented) -/
def precOf (code : Bool) (n : Nat) (k : Kind) (sh : Shape Q) : Option TM :=
  let S := tm n n (specMat code n k sh)
  if k.isCov then certInv n S else some S

structure LikD where
  m : Nat
  A : TM
  d : TV
  L : TM
  kind : Kind
  shape : Shape Q
  refused : Bool

structure PriorD where
  prior : Prior Q
  /-- (P, P·μ) as the code takes it / as documented; `none` when singular -/
  code : Option (TM × TV)
  doc : Option (TM × TV)
  refused : Bool

def refusedSpec (n : Nat) (k : Kind) (sh : Shape Q) (r c : Nat) : Bool :=
  !(specSymmetricOk n k sh) ||
  (match sh with
   | .matrix _ => r != c || r != n
   | .vector _ => r != n
   | .scalar _ => false)

def parseLiks (n : Nat) : Nat → List String → Option (List LikD × List String)
  | 0, ts => some ([], ts)
  | k + 1, m :: A :: d :: L :: kd :: sh :: ts => do
    let m ← m.toNat?
    let A ← parseMat A
    let d ← parseVec d
    let L ← parseMat L
    let kd ← parseKind kd
    let (sh, r, c) ← parseShape sh
    let (rest, ts') ← parseLiks n k ts
    some ({ m := m, A := tmOf A, d := tvOf d, L := tmOf L, kind := kd, shape := sh,
            refused := refusedSpec m kd sh r c } :: rest, ts')
  | _, _ => none

def precTimes (n : Nat) (P : Option TM) (mu : Vec Q) : Option (TM × TV) :=
  P.map fun P => (P, tv n (mulVec n P.f mu))

def parseJoint (n : Nat) : Nat → List String → Option (List (Nat × TM × TV) × List String)
  | 0, ts => some ([], ts)
  | k + 1, r :: R :: mu :: ts => do
    let r ← r.toNat?
    let R ← parseMat R
    let mu ← parseVec mu
    let (rest, ts') ← parseJoint n k ts
    some ((r, tmOf R, tvOf mu) :: rest, ts')
  | _, _ => none

def parsePrior (n : Nat) : List String → Option (PriorD × List String)
  | "gauss" :: L2 :: ml :: mean :: kd :: sh :: ts => do
    let L2 ← parseMat L2
    let ml ← ml.toNat?
    let mean ← parseVec mean
    let kd ← parseKind kd
    let (sh, r, c) ← parseShape sh
    let L2t := tmOf L2
    let meant := tvOf mean
    let mu := gaussMean ml meant.f
    let pr0 := gaussPrior n L2t.f ml meant.f
    let l2mu := tv n pr0.L2mu
    some ({ prior := { pr0 with L2mu := l2mu.f },
            code := precTimes n (precOf true n kd sh) mu,
            doc := precTimes n (precOf false n kd sh) mu,
            refused := refusedSpec n kd sh r c || (ml != 1 && ml != n) }, ts)
  | "gmrf" :: L2 :: mean :: P :: ts => do
    let L2 ← parseMat L2
    let mean ← parseVec mean
    let P ← parseMat P
    let L2t := tmOf L2
    let meant := tvOf mean
    let pm := precTimes n (some (tmOf P)) meant.f
    let pr0 := gmrfPrior n L2t.f meant.f
    let l2mu := tv n pr0.L2mu
    some ({ prior := { pr0 with L2mu := l2mu.f }, code := pm, doc := pm,
            refused := mean.length != n }, ts)
  | "gmrfop" :: L2 :: mean :: order :: bc :: prec :: ts => do
    let L2 ← parseMat L2
    let mean ← parseVec mean
    let order ← order.toNat?
    let bc ← C20.BC.ofString bc
    let prec ← parseRat prec
    let L2t := tmOf L2
    let meant := tvOf mean
    let P := tm n n (gmrfPrec order bc n prec)
    let pm := precTimes n (some P) meant.f
    let pr0 := gmrfPrior n L2t.f meant.f
    let l2mu := tv n pr0.L2mu
    some ({ prior := { pr0 with L2mu := l2mu.f }, code := pm, doc := pm,
            refused := mean.length != n || !gmrfAccepts order bc }, ts)
  | "joint" :: nb :: ts => do
    let nb ← nb.toNat?
    let (bs, ts') ← parseJoint n nb ts
    -- documented: product of the independent Gaussians N(μᵢ, (RᵢᵀRᵢ)⁻¹)
    let P := tm n n fun i j => (bs.map fun b => gram b.1 b.2.1.f i j).foldl (· + ·) 0
    let Pmu := tv n fun i => (bs.map fun b => tmulVec b.1 b.2.1.f (tabV b.1 (mulVec n b.2.1.f b.2.2.f)) i).foldl (· + ·) 0
    let pr0 := jointPrior n (bs.map fun b => (b.1, b.2.1.f, b.2.2.f))
    let L2t := tm pr0.p n pr0.L2
    let l2mu := tv pr0.p pr0.L2mu
    some ({ prior := { p := pr0.p, L2 := L2t.f, L2mu := l2mu.f }, code := some (P, Pmu), doc := some (P, Pmu),
            refused := false }, ts')
  | _ => none

structure ProblemD where
  n : Nat
  liks : List LikD
  prior : PriorD

def parseProblem : List String → Option (ProblemD × List String)
  | n :: k :: ts => do
    let n ← n.toNat?
    let k ← k.toNat?
    let (liks, ts') ← parseLiks n k ts
    let (pr, ts'') ← parsePrior n ts'
    some ({ n := n, liks := liks, prior := pr }, ts'')
  | _ => none

def ProblemD.matLiks (P : ProblemD) : List (MatLik Q) :=
  P.liks.map fun l => { m := l.m, L := l.L.f, A := l.A.f, d := l.d.f }

def ProblemD.problem (P : ProblemD) : Problem Q := problemOf P.n P.matLiks P.prior.prior

/-- posterior moments from precisions: `H = Σ AᵢᵀΛᵢAᵢ + P`, `g = Σ AᵢᵀΛᵢdᵢ + Pμ` -/
def moments (P : ProblemD) (code : Bool) : Option (TV × TM) := do
  let (Pp, Pmu) ← if code then P.prior.code else P.prior.doc
  let lams ← P.liks.mapM fun l => (precOf code l.m l.kind l.shape).map fun Lam =>
    (l, tm l.m P.n (mul l.m Lam.f l.A.f), tv l.m (mulVec l.m Lam.f l.d.f))
  let n := P.n
  let H := tm n n fun i j =>
    (lams.map fun (l, LamA, _) => mul l.m (tr l.A.f) LamA.f i j).foldl (· + ·) (Pp.f i j)
  let g := tv n fun i =>
    (lams.map fun (l, _, Lamd) => tmulVec l.m l.A.f Lamd.f i).foldl (· + ·) (Pmu.f i)
  let C ← certInv n H
  some (tv n (mulVec n C.f g.f), C)

def fmtV (n : Nat) (v : Vec Q) : String := fmtVec (toListV n v)
def fmtM (m n : Nat) (A : Mat Q) : String := fmtMat (toListM m n A)

/-- offset, linear part and covariance of the least-squares map for a stacked operator given by
    its two actions; also reports whether flag 2 is the exact transpose of flag 1 -/
def lsqReport (N n : Nat) (fwd adj : Vec Q → Vec Q) (b : Vec Q) : Option (Bool × TM × TV × TM × TM) :=
  -- columns of flag 1 / rows of flag 2
  let M := tm N n fun i j => fwd (unit j) i
  let Mt := tm n N fun j i => adj (unit i) j
  let adjOk := (List.range N).all fun i => (List.range n).all fun j => M.f i j == Mt.f j i
  let H := tm n n (gram N M.f)
  match certInv n H with
  | none => none
  | some C =>
    let B := tm n N (mul n C.f (tr M.f))
    let m := tv n (mulVec N B.f b)
    some (adjOk, M, m, B, C)

def optPair (o : Option (TV × TM)) (n : Nat) : String :=
  match o with
  | some (m, C) => s!"{fmtV n m.f} {fmtM n n C.f}"
  | none => "singular singular"

def parseTarget : String → Option TargetKind
  | "posterior" => some .posterior | "multiple" => some .multiple | "other" => some .other | _ => none

def fmtRefusal : Refusal → String
  | .ok => "ok" | .valueError => "ValueError" | .typeError => "TypeError"

def runUgla (n m : Nat) (A : TM) (d : TV) (L1 : TM) (kd : Kind) (sh : Shape Q) (p : Nat) (D : TM) (loc : TV)
    (s : Q) (w : TV) (invScale : Q) (wdoc : TV) : String :=
  let U : Ugla Q := { n := n, lik := { m := m, L := L1.f, A := A.f, d := d.f }, p := p,
                      D := D.f, loc := loc.f, s := s, w := w.f }
  let N := U.rows
  let b := tv N U.bTilde
  match lsqReport N n U.Mfwd U.Madj b.f with
  | none => "singular"
  | some (adjOk, M, mm, B, C) =>
    let same := (List.range N).all fun i => (List.range n).all fun j => U.Mmat i j == M.f i j
    -- documented local Gaussian: precision AᵀΛA + (1/scale) Dᵀ diag(wdoc) D
    let doc : Option (TV × TM) := do
      let Lam ← precOf false m kd sh
      let Pp := tm n n fun i j => invScale * sumTo p fun k => D.f k i * (wdoc.f k * D.f k j)
      let LamA := tm m n (mul m Lam.f A.f)
      let Lamd := tv m (mulVec m Lam.f d.f)
      let H := tm n n fun i j => mul m (tr A.f) LamA.f i j + Pp.f i j
      let g := tv n fun i => tmulVec m A.f Lamd.f i + mulVec n Pp.f loc.f i
      let C ← certInv n H
      some (tv n (mulVec n C.f g.f), C)
    s!"ok {fmtBool (adjOk && same)} {fmtV n mm.f} {fmtM n N B.f} {fmtM n n C.f} {optPair doc n}"

/-- exact rational square-root oracle (checked again by `rootChecked`) -/
def ratSqrt (a : Q) : Option Q :=
  if a < 0 then none else
  let n := a.num.natAbs
  let d := a.den
  let sn := Nat.sqrt n
  let sd := Nat.sqrt d
  if sn * sn = n && sd * sd = d then some (mkRat sn sd) else none

/-- inverse oracle (untrusted elimination; checked by `invChecked`) -/
def qInv (n : Nat) (A : Mat Q) : Option (Mat Q) :=
  (QMat.inverse (toListM n n A)).map fun l => (tmOf l).f

def parseArr (s : String) : Option (Arr Q) :=
  match s.splitOn ":" with
  | ["s", q] => (fun c => ({ twoD := true, rows := 1, cols := 1, a := fun _ _ => c } : Arr Q)) <$> parseRat q
  | ["v", v] => (fun l => let t := tvOf l; ({ twoD := false, rows := l.length, cols := 1, a := fun i _ => t.f i } : Arr Q)) <$> parseVec v
  | ["m", m] => (parseMat m).bind fun l =>
      if l.all (fun r => r.length == QMat.ncols l) then
        let t := tmOf l; some ({ twoD := true, rows := l.length, cols := QMat.ncols l, a := t.f } : Arr Q)
      else none
  | _ => none

def fmtBranch : Branch → String
  | .scalar => "scalar" | .vector => "vector" | .diagonal => "diagonal" | .full => "full"

def fmtFacErr : FacErr → String
  | .valueError => "err:ValueError" | .linAlgError => "err:LinAlgError"

def parseStorage : String → Option Storage
  | "dense" => some .dense | "dia" => some .dia | "csr" => some .csr | "csc" => some .csc
  | "coo" => some .coo | "bsr" => some .bsr | "lil" => some .lil | _ => none

def fmtPath : Path → String
  | .diagBranch => "diagBranch" | .denseFull => "denseFull" | .sparseFull => "sparseFull"
  | .keptDia => "keptDia" | .keptDiagonal => "keptDiagonal" | .keptFull => "keptFull"

def fmtFac (k : Kind) (x : Arr Q) : Fac Q → String
  | .ok b sz L => s!"ok {fmtBranch b} {sz} {fmtM sz sz L}"
  | .irrational b sz =>
    s!"irrational {fmtBranch b} {sz} {fmtBool k.isCov} {fmtM sz sz (specMat true sz k (x.shapeIn k b))}"
  | .flat1 => "flat1"
  | .err e => fmtFacErr e

def runFactor (dim : Nat) (k : Kind) (x : Arr Q) : String :=
  match sqrtprecOf ratSqrt qInv dim k x with
  | .ok b sz L => s!"ok {fmtBranch b} {sz} {fmtM sz sz L}"
  | .irrational b sz =>
    s!"irrational {fmtBranch b} {sz} {fmtBool k.isCov} {fmtM sz sz (specMat true sz k (x.shapeIn k b))}"
  | .flat1 => "flat1"
  | .err e => fmtFacErr e

def fmtSamples (n : Nat) (xs : List (Vec Q)) : String :=
  if xs.isEmpty then "ok empty" else "ok " ++ fmtMat (xs.map (toListV n))

def step : List String → String
  | "loop" :: mode :: a :: b :: maxit :: ts =>
    match a.toNat?, b.toNat?, maxit.toNat?, parseProblem ts with
    | some a, some b, some maxit, some (P, x0 :: es) =>
      match parseVec x0, es.mapM parseVec with
      | some x0, some es =>
        if P.liks.any (·.refused) || P.prior.refused then "err:ValueError" else
        let pb := P.problem
        let eps : Q := 1 / 4503599627370496
        let draws := es.map fun e => (tvOf e).f
        if mode == "legacy" then
          match legacySample pb maxit 0 eps (tvOf x0).f a b draws with
          | some xs => fmtSamples P.n xs
          | none => "err:IndexError"
        else if mode == "exp" then fmtSamples P.n (expSample pb maxit 0 eps (tvOf x0).f a b draws)
        else "bad-op"
      | _, _ => "bad-op"
    | _, _, _, _ => "bad-op"
  | ["uglaw", n, p, D, xk, beta, w] =>
    match n.toNat?, p.toNat?, parseMat D, parseVec xk, parseRat beta, parseVec w with
    | some n, some p, some D, some xk, some beta, some w =>
      let U : Ugla Q := { n := n, lik := { m := 0, L := fun _ _ => 0, A := fun _ _ => 0, d := fun _ => 0 }, p := p,
                          D := (tmOf D).f, loc := fun _ => 0, s := 1, w := (tvOf w).f }
      s!"ok {fmtV p (U.weightResidual beta (tvOf xk).f)} {fmtM p n U.L2}"
    | _, _, _, _, _, _ => "bad-op"
  | ["gmrfprec", order, bc, n, prec] =>
    match order.toNat?, C20.BC.ofString bc, n.toNat?, parseRat prec with
    | some order, some bc, some n, some prec =>
      if !gmrfAccepts order bc then "err:ValueError" else
      let r := gmrfRows order bc n
      s!"ok {r} {fmtM r n (gmrfD order bc n)} {fmtM n n (gmrfPrec order bc n prec)}"
    | _, _, _, _ => "bad-op"
  | ["factors", dim, kd, st, arr] =>
    match dim.toNat?, parseKind kd, parseStorage st, parseArr arr with
    | some dim, some kd, some st, some x =>
      let pth := storedPath kd st x.isDiag
      s!"{fmtPath pth} {fmtBool pth.resultSparse} " ++ fmtFac kd x (sqrtprecOfStored ratSqrt qInv dim kd st x)
    | _, _, _, _ => "bad-op"
  | ["factor", dim, kd, arr] =>
    match dim.toNat?, parseKind kd, parseArr arr with
    | some dim, some kd, some x => runFactor dim kd x
    | _, _, _ => "bad-op"
  | ["kinds", a, b, c, d] =>
    if [a, b, c, d].any (fun s => s != "0" && s != "1") then "bad-op" else
    match whichKind (a == "1") (b == "1") (c == "1") (d == "1") with
    | .ok (some .cov) => "cov" | .ok (some .prec) => "prec" | .ok (some .sqrtcov) => "sqrtcov"
    | .ok (some .sqrtprec) => "sqrtprec" | .ok none => "none" | .error e => fmtFacErr e
  | "rto" :: ts =>
    match parseProblem ts with
    | some (P, []) =>
      if P.liks.any (·.refused) || P.prior.refused then "err:ValueError" else
      let pb := P.problem
      let N := rowsM pb
      let b := tv N (bTilde pb)
      match lsqReport N P.n (Mfwd pb) (Madj pb) b.f with
      | none => "singular"
      | some (adjOk, M, m, B, C) =>
        -- the matrix branch must describe the same operator as the function branch
        let Mm := Mmat P.matLiks P.prior.prior
        let same := (List.range N).all fun i => (List.range P.n).all fun j => Mm i j == M.f i j
        s!"ok {fmtBool (adjOk && same)} {fmtV P.n m.f} {fmtM P.n N B.f} {fmtM P.n P.n C.f} {optPair (moments P true) P.n} {optPair (moments P false) P.n}"
    | _ => "bad-op"
  | "step" :: ts =>
    match parseProblem ts with
    | some (P, [e, x0, maxit, tol2, eps]) =>
      match parseVec e, parseVec x0, maxit.toNat?, parseRat tol2, parseRat eps with
      | some e, some x0, some maxit, some tol2, some eps =>
        if P.liks.any (·.refused) || P.prior.refused then "err:ValueError" else
        let pb := P.problem
        let st := rtoStep pb (tvOf e).f (tvOf x0).f maxit tol2 eps
        s!"ok {fmtV P.n st.x} {st.k} {fmtBool (st.gamma == 0)}"
      | _, _, _, _, _ => "bad-op"
    | _ => "bad-op"
  | ["ugla", n, m, A, d, L1, kd, sh, p, D, loc, s, w, invScale, wdoc] => Id.run do
    let some n := n.toNat? | return "bad-op"
    let some m := m.toNat? | return "bad-op"
    let some A := parseMat A | return "bad-op"
    let some d := parseVec d | return "bad-op"
    let some L1 := parseMat L1 | return "bad-op"
    let some kd := parseKind kd | return "bad-op"
    let some (sh, _, _) := parseShape sh | return "bad-op"
    let some p := p.toNat? | return "bad-op"
    let some D := parseMat D | return "bad-op"
    let some loc := parseVec loc | return "bad-op"
    let some s := parseRat s | return "bad-op"
    let some w := parseVec w | return "bad-op"
    let some invScale := parseRat invScale | return "bad-op"
    let some wdoc := parseVec wdoc | return "bad-op"
    return runUgla n m (tmOf A) (tvOf d) (tmOf L1) kd sh p (tmOf D) (tvOf loc) s (tvOf w) invScale (tvOf wdoc)
  | "validate" :: "rto" :: t :: k :: ts =>
    match parseTarget t, k.toNat? with
    | some tk, some k =>
      let flags := ts.map (· == "1")
      if flags.length != 2 * k + 2 || ts.any (fun s => s != "0" && s != "1") then "bad-op" else
      let liks := (List.range k).map fun i => (flags.getD (2 * i) false, flags.getD (2 * i + 1) false)
      fmtRefusal (validateRTO tk liks (flags.getD (2 * k) false) (flags.getD (2 * k + 1) false))
    | _, _ => "bad-op"
  | ["validate", "ugla", t, a, b, c] =>
    match parseTarget t with
    | some tk =>
      if [a, b, c].any (fun s => s != "0" && s != "1") then "bad-op" else
      fmtRefusal (validateUGLA tk (a == "1") (b == "1") (c == "1"))
    | none => "bad-op"
  | _ => "bad-op"

def main : IO Unit := runDriver step
