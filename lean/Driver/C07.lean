import CuqiVerif.Model.Proto
import CuqiVerif.Model.C07
open CuqiVerif CuqiVerif.Proto CuqiVerif.C07

/-!
Line protocol of the C07 model (R = Rat).

  geom  <g>                         -> `E=<mat> F=<mat> re=<0|1>`
  lin   <mb|fn> <A> <B|-> <gd> <gr> -> `fwd=<mat> adj=<mat> gm=<mat> tfwd=<mat|err> tadj=<mat|err> tgm=<mat|err>` | `err`
  conv1 <scipy-mode> <n> <P>        -> matrix of `convolve1d(·, P, mode)`
  deconv1 <BC> <n> <P>              -> the matrix `Deconvolution1D` stores | `err`
  deconv2 <BC> <n> <P (s×s)>        -> `fwd=<mat> adj=<mat>` (parameter level) | `err`
  abel  <n> <endpoint>              -> squares of the entries of the Abel matrix

  geometry tokens: `id:n` `imgC:r:c` `imgF:r:c` `step:n:s` `imgCs:r:c` (Continuous2D) `leaf:<sq|nsq>:pd:fd:<E>:<F>`
-/

abbrev Q := Rat

def toArr (m : List (List Rat)) : Array (Array Rat) := (m.map List.toArray).toArray

def rectangular (m : List (List Rat)) : Option (Nat × Nat) :=
  match m with
  | [] => some (0, 0)
  | r :: rs => if rs.all (fun x => x.length == r.length) then some (m.length, r.length) else none

def parseLMat (s : String) : Option (LMat Q) := do
  let m ← parseMat s
  let (r, c) ← rectangular m
  some (LMat.ofRows r c (toArr m))

def fmtL (M : LMat Q) : String :=
  if M.rows = 0 ∨ M.cols = 0 then s!"_{M.rows}x{M.cols}" else fmtMat M.toList

def parseGeom (s : String) : Option (Geom Q) :=
  match s.splitOn ":" with
  | ["id", n] => do let n ← n.toNat?; some (Geom.ident n)
  | ["imgC", r, c] => do let r ← r.toNat?; let c ← c.toNat?; some (Geom.image r c false)
  | ["imgCs", r, c] => do let r ← r.toNat?; let c ← c.toNat?; some (Geom.image r c false true)
  | ["imgF", r, c] => do let r ← r.toNat?; let c ← c.toNat?; some (Geom.image r c true)
  | ["step", n, k] => do
      let n ← n.toNat?; let k ← k.toNat?
      -- `_check_grid_setup`: n_steps ≤ number of grid points; a regular grid needs ≥ 2 nodes
      if k > n ∨ n < 2 ∨ k = 0 then none else some (Geom.step n k)
  | ["leaf", sq, pd, fd, e, f] => do
      let pd ← pd.toNat?; let fd ← fd.toNat?
      let sq ← (match sq with | "sq" => some true | "nsq" => some false | _ => none)
      let E ← parseLMat e; let F ← parseLMat f
      if E.rows = fd ∧ E.cols = pd ∧ F.rows = pd ∧ F.cols = fd then some (Geom.leaf pd fd E F sq) else none
  | _ => none

def parseExt : String → Option Ext
  | "constant" => some .constant | "wrap" => some .wrap | "nearest" => some .nearest
  | "reflect" => some .reflect | "mirror" => some .mirror | _ => none

def vecFn (v : List Rat) : Nat → Q := let a := v.toArray; fun i => a.getD i 0
def matFn (m : List (List Rat)) : Nat → Nat → Q := let a := toArr m; fun i j => (a.getD i #[]).getD j 0

/-- forced products (same entries as `fwdMat`/`adjMat`/`tFwdMat`/`tAdjMat`, see `Props/C07.force_e`, `mul3Forced_e`) -/
def prod3 (X Y Z : LMat Q) : LMat Q := LMat.mul3Forced X Y Z

def step : List String → String
  | ["geom", g] =>
    match parseGeom g with
    | some g => s!"E={fmtL g.E} F={fmtL g.F} re={fmtBool g.reOk}"
    | none => "err"
  | ["lin", kind, a, b, gd, gr] =>
    match parseLMat a, parseGeom gd, parseGeom gr with
    | some A, some D, some Rg =>
      let M? : Option (LinModel Q) :=
        match kind, b with
        | "mb", "-" => some (LinModel.ofMatrix A D Rg)
        | "fn", b => (parseLMat b).map (fun B => { A := A, B := B, dom := D, rng := Rg, matrixBacked := false })
        | _, _ => none
      match M? with
      | none => "bad-op"
      | some M =>
        if !M.shapesOk then "err" else
        let fwd := prod3 M.rng.F M.A M.dom.E
        let adj := prod3 M.dom.F M.B M.rng.E
        let gm := if !M.getMatrixOk then "err" else fmtL (if M.matrixBacked then M.getMatrix else fwd)
        let t :=
          if M.tOk then
            let tf := (M.dom.reFMat.mul (prod3 M.dom.F M.B (M.rng.reEMat.mul M.rng.E).force)).force
            let ta := (M.rng.reFMat.mul (prod3 M.rng.F M.A (M.dom.reEMat.mul M.dom.E).force)).force
            let tg := if !M.tGetMatrixOk then "err" else fmtL (if M.matrixBacked then M.tGetMatrix else tf)
            s!"tfwd={fmtL tf} tadj={fmtL ta} tgm={tg}"
          else "tfwd=err tadj=err tgm=" ++ (if M.matrixBacked then fmtL M.tGetMatrix else "err")
        s!"fwd={fmtL fwd} adj={fmtL adj} gm={gm} {t}"
    | _, _, _ => "bad-op"
  | ["conv1", mode, n, p] =>
    match parseExt mode, n.toNat?, parseVec p with
    | some m, some n, some P => fmtL (conv1 m P.length (vecFn P) n)
    | _, _, _ => "bad-op"
  | ["deconv1", bc, n, p] =>
    match n.toNat?, parseVec p with
    | some n, some P =>
      match bc1d bc.toLower with
      | some m => fmtL (deconv1dMatrix m P.length (vecFn P) n)
      | none => "err"
    | _, _ => "bad-op"
  | ["deconv2", bc, n, p] =>
    match n.toNat?, parseMat p with
    | some n, some P =>
      match bc2d bc.toLower, rectangular P with
      | some m, some (r, c) =>
        if r ≠ c then "err:nonsquare" else
        let M := deconv2dModel m r (matFn P) n
        let M := { M with A := M.A.force, B := M.B.force }
        s!"fwd={fmtL (prod3 M.rng.F M.A M.dom.E)} adj={fmtL (prod3 M.dom.F M.B M.rng.E)}"
      | none, _ => "err"
      | _, none => "bad-op"
    | _, _ => "bad-op"
  | ["abel", n, ep] =>
    match n.toNat?, parseRat ep with
    | some n, some ep => if n = 0 ∨ ep = 0 then "err" else fmtL (abelSq n ep)
    | _, _ => "bad-op"
  | _ => "bad-op"

def main : IO Unit := runDriver step
