import CuqiVerif.Model.Proto
import CuqiVerif.Model.C07
import CuqiVerif.Model.C07_psf
import CuqiVerif.Model.C07_obj
import CuqiVerif.Model.C07_repr
import CuqiVerif.Model.C07_legacy
open CuqiVerif CuqiVerif.Proto CuqiVerif.C07

/-!
Line protocol of the C07 model (R = Rat).

  geom  <g>                         -> `E=<mat> F=<mat> re=<0|1>`
  lin   <mb|fn> <A> <B|-> <gd> <gr> -> `fwd=<mat> adj=<mat> gm=<mat> tfwd=<mat|err> tadj=<mat|err> tgm=<mat|err>` | `err`
  conv1 <scipy-mode> <n> <P>        -> matrix of `convolve1d(·, P, mode)`
  deconv1 <BC> <n> <P>              -> the matrix `Deconvolution1D` stores | `err`
  deconv2 <BC> <n> <P (s×s)>        -> `fwd=<mat> adj=<mat>` (parameter level) | `err`
  abel  <n> <endpoint>              -> squares of the entries of the Abel matrix

  psf1  <name> <size> <param|none> <g|->            -> `err` | `nan` | PSF vector  (`_GaussPSF_1D` … ; `g` = Gauss profile values g(0),g(1),…)
  psf2  <name> <size> <param|none> <g|->            -> `err` | `nan` | PSF matrix  (`_GaussPSF` …)
  deconv1n <BC> <n> <name> <size|none> <param|none> <g|->        -> `err` | `nan` | `psf=<vec> mat=<mat>`
  deconv2n <BC> <n> <name> <size|dflt> <param|none|dflt> <g|->   -> `err` | `nan` | `psf=<mat> fwd=<mat> adj=<mat>`

  hist  <mb|fn> <A> <B|-> <gd> <gr> <ops>           -> the `lin` observation of the object after the history `ops`
        (`_` or `|`-separated `gm`, `sd=<g>`, `sr=<g>`, `T` = take and keep `self.T`; then `ktfwd/ktadj/ktgm` of the kept T are appended): fwd/adj/tfwd/tadj on the current geometries, `tgm` of a `T`
        taken now, then `gm` (the stored matrix if one was cached)

  repr  <C> <keeps 0|1> <g0> <g1> <g2> <geq: 9 bits, row-major> <tagThrough: 3 bits> <gd> <gr> <plain|cu:h:ip> <is_par 0|1> <vec>
        -> `<vec> <plain|cu>`: `Model._apply_func(C, range = g_gr, domain = g_gd, x, is_par)` (data of the result, wrapped or not)

  legacy <BC> <size-given 0|1> <dim> <name|-> <vec>   -> `err` | the matrix of `Deconvolution1D(use_legacy=True)` (`vec`: custom PSF, or the
        profile values h0(0..dim/2) of a named PSF)
  projshape <n> <s1> <s2>                             -> `r,c`: output shape of `_proj_forward_2D` for an s1 x s2 PSF

  geometry tokens: `id:n` `imgC:r:c` `imgF:r:c` `step:n:s` `imgCs:r:c` (Continuous2D) `leaf:<sq|nsq>:pd:fd:<E>:<F>`
-/

abbrev Q := Rat

def toArr (m : List (List Rat)) : Array (Array Rat) := (m.map List.toArray).toArray

def rectangular (m : List (List Rat)) : Option (Nat × Nat) :=
  match m with
  | [] => some (0, 0)
  | r :: rs => if rs.all (fun x => x.length == r.length) then some (m.length, r.length) else none

def parseLMat (s : String) : Option (LMat Q) := do
  let m ← parseMat s
  let (r, c) ← rectangular m
  some (LMat.ofRows r c (toArr m))

def fmtL (M : LMat Q) : String :=
  if M.rows = 0 ∨ M.cols = 0 then s!"_{M.rows}x{M.cols}" else fmtMat M.toList

def parseGeom (s : String) : Option (Geom Q) :=
  match s.splitOn ":" with
  | ["id", n] => do let n ← n.toNat?; some (Geom.ident n)
  | ["imgC", r, c] => do let r ← r.toNat?; let c ← c.toNat?; some (Geom.image r c false)
  | ["imgCs", r, c] => do let r ← r.toNat?; let c ← c.toNat?; some (Geom.image r c false true)
  | ["imgF", r, c] => do let r ← r.toNat?; let c ← c.toNat?; some (Geom.image r c true)
  | ["step", n, k] => do
      let n ← n.toNat?; let k ← k.toNat?
      -- `_check_grid_setup`: n_steps ≤ number of grid points; a regular grid needs ≥ 2 nodes
      if k > n ∨ n < 2 ∨ k = 0 then none else some (Geom.step n k)
  | ["leaf", sq, pd, fd, e, f] => do
      let pd ← pd.toNat?; let fd ← fd.toNat?
      let sq ← (match sq with | "sq" => some true | "nsq" => some false | _ => none)
      let E ← parseLMat e; let F ← parseLMat f
      if E.rows = fd ∧ E.cols = pd ∧ F.rows = pd ∧ F.cols = fd then some (Geom.leaf pd fd E F sq) else none
  | _ => none

def parseExt : String → Option Ext
  | "constant" => some .constant | "wrap" => some .wrap | "nearest" => some .nearest
  | "reflect" => some .reflect | "mirror" => some .mirror | _ => none

def vecFn (v : List Rat) : Nat → Q := let a := v.toArray; fun i => a.getD i 0
def matFn (m : List (List Rat)) : Nat → Nat → Q := let a := toArr m; fun i j => (a.getD i #[]).getD j 0

/-- forced products (same entries as `fwdMat`/`adjMat`/`tFwdMat`/`tAdjMat`, see `Props/C07.force_e`, `mul3Forced_e`) -/
def prod3 (X Y Z : LMat Q) : LMat Q := LMat.mul3Forced X Y Z

/-- the observation of a `LinearModel` object: forward / adjoint / get_matrix / T.forward / T.adjoint / T.get_matrix -/
def obsLine (o : Obj Q) : String :=
  let M := o.M
  if !M.shapesOk then "err" else
  let fwd := prod3 M.rng.F M.A M.dom.E
  let adj := prod3 M.dom.F M.B M.rng.E
  let gm := if !o.getMatrixOk || (o.cache.isNone && !M.getMatrixOk) then "err" else
    fmtL (match o.cache with
          | some C => if M.matrixBacked then M.getMatrix else C
          | none => if M.matrixBacked then M.getMatrix else fwd)
  let t :=
    if M.tOk then
      let tf := (M.dom.reFMat.mul (prod3 M.dom.F M.B (M.rng.reEMat.mul M.rng.E).force)).force
      let ta := (M.rng.reFMat.mul (prod3 M.rng.F M.A (M.dom.reEMat.mul M.dom.E).force)).force
      let tg := match o.cache, M.matrixBacked with
        | some C, false => fmtL C.transpose
        | _, _ => if !M.tGetMatrixOk then "err" else fmtL (if M.matrixBacked then M.tGetMatrix else tf)
      s!"tfwd={fmtL tf} tadj={fmtL ta} tgm={tg}"
    else "tfwd=err tadj=err tgm=" ++ (match o.cache, M.matrixBacked with
        | some C, false => fmtL C.transpose
        | _, _ => if M.matrixBacked then fmtL M.tGetMatrix else "err")
  s!"fwd={fmtL fwd} adj={fmtL adj} gm={gm} {t}"

def parseOp (s : String) : Option (HOp Q) :=
  if s = "gm" then some (.base .getMatrix)
  else if s = "T" then some .takeT
  else if s.startsWith "sd=" then (parseGeom (s.drop 3).toString).map (fun g => .base (.setDom g))
  else if s.startsWith "sr=" then (parseGeom (s.drop 3).toString).map (fun g => .base (.setRng g))
  else none

def parseOps (s : String) : Option (List (HOp Q)) :=
  if s = "_" then some [] else (s.splitOn "|").mapM parseOp

/-- tabulate the cached matrices (same entries: `force_e`) -/
def forcedH (s : HState Q) : HState Q :=
  { o := { s.o with cache := s.o.cache.map LMat.force }, t := s.t.map (fun t => { t with cache := t.cache.map LMat.force }) }

/-- matrix of a parameter map by unit vectors -/
def colsOf (rows cols : Nat) (f : (Nat → Q) → Nat → Q) : LMat Q := (columnsOf rows cols f).force

/-- observation of a kept transposed model: `ktfwd`, `ktadj`, `ktgm` -/
def obsKept (t : TObj Q) (o : Obj Q) : String :=
  let tf := colsOf (t.fwdLen o) t.dom.parDim (t.fwdPar o)
  let ta := colsOf (t.adjLen o) t.rng.parDim (t.adjPar o)
  let tg := if !t.getMatrixOk o then "err" else fmtL (match t.cache with | some C => C | none => tf)
  s!"ktfwd={if t.fwdOk o then fmtL tf else "err"} ktadj={if t.adjOk o then fmtL ta else "err"} ktgm={tg}"

def stepHist : List String → Option String
  | ["hist", kind, a, b, gd, gr, ops] => do
    let A ← parseLMat a; let D ← parseGeom gd; let Rg ← parseGeom gr; let ops ← parseOps ops
    let M ← (match kind, b with
      | "mb", "-" => some (LinModel.ofMatrix A D Rg)
      | "fn", b => (parseLMat b).map (fun B => ({ A := A, B := B, dom := D, rng := Rg, matrixBacked := false } : LinModel Q))
      | _, _ => none)
    -- the history is run by the model's `HState.step`; every cached matrix is tabulated when it is stored
    let fin := ops.foldl (fun s op => forcedH (s.step op)) ({ o := Obj.fresh M, t := none } : HState Q)
    match fin.t with
    | none => some (obsLine fin.o)
    | some t =>
      -- a parent whose own forward raises still lets the kept T be observed
      let base := obsLine fin.o
      some ((if base = "err" then "fwd=err adj=err gm=err tfwd=err tadj=err tgm=err" else base) ++ " " ++ obsKept t fin.o)
  | _ => none

def parseOptRat (s : String) : Option (Option Rat) :=
  if s = "none" then some none else (parseRat s).map some

def parseOptNat (s : String) : Option (Option Nat) :=
  if s = "none" then some none else s.toNat?.map some

def parseG (s : String) : Option (Nat → Q) :=
  if s = "-" then some (fun _ => 0) else (parseVec s).map vecFn

def fmtV (n : Nat) (P : Nat → Q) : String := fmtVec ((List.range n).map P)
def fmtM2 (n : Nat) (P : Nat → Nat → Q) : String :=
  if n = 0 then "_0x0" else fmtMat ((List.range n).map fun a => (List.range n).map fun b => P a b)

def stepPsf : List String → Option String
  | ["psf1", name, size, param, g] => do
    let s ← size.toNat?; let p ← parseOptRat param; let g ← parseG g
    match psfKind name.toLower with
    | none => some "err"
    | some k => match namedPSF1 k s p g with
      | .raises => some "err" | .nan => some "nan" | .ok P => some (fmtV s P)
  | ["psf2", name, size, param, g] => do
    let s ← size.toNat?; let p ← parseOptRat param; let g ← parseG g
    match psfKind name.toLower with
    | none => some "err"
    | some k => match namedPSF2 k s p g with
      | .raises => some "err" | .nan => some "nan" | .ok P => some (fmtM2 s P)
  | ["deconv1n", bc, n, name, size, param, g] => do
    let n ← n.toNat?; let sz ← parseOptNat size; let p ← parseOptRat param; let g ← parseG g
    match deconv1dNamed bc name n sz p g with
    | .raises => some "err" | .nan => some "nan"
    | .ok (s, P, A) => some s!"psf={fmtV s P} mat={fmtL A}"
  | ["deconv2n", bc, n, name, size, param, g] => do
    let n ← n.toNat?; let g ← parseG g
    let s ← (if size = "dflt" then some deconv2dDefaultSize else size.toNat?)
    let p ← (if param = "dflt" then some (some deconv2dDefaultParam) else parseOptRat param)
    match deconv2dNamed bc name n s p g with
    | .raises => some "err" | .nan => some "nan"
    | .ok (P, M) =>
      -- tabulate the PSF once (the entry function divides by the normalising sum)
      let Pt := (LMat.mk s s P).force
      let M := { M with A := (conv2 (match bc2d bc.toLower with | some m => m | none => .wrap) s Pt.e n).force,
                        B := (conv2 (match bc2d bc.toLower with | some m => m | none => .wrap) s (flip2 s Pt.e) n).force }
      some s!"psf={fmtM2 s Pt.e} fwd={fmtL (prod3 M.rng.F M.A M.dom.E)} adj={fmtL (prod3 M.dom.F M.B M.rng.E)}"
  | _ => none

def bitAt (s : String) (i : Nat) : Bool := (s.toList.getD i '0') == '1'

def stepRepr : List String → Option String
  | ["repr", c, keeps, g0, g1, g2, geq, tt, gd, gr, tag, ispar, v] => do
    let C ← parseLMat c; let G0 ← parseGeom g0; let G1 ← parseGeom g1; let G2 ← parseGeom g2
    let gd ← gd.toNat?; let gr ← gr.toNat?; let x ← parseVec v
    let tg ← (match tag.splitOn ":" with
      | ["plain"] => some Tag.plain
      | ["cu", h, ip] => (h.toNat?).map (fun h => Tag.cu h (ip == "1"))
      | _ => none)
    if geq.length ≠ 9 ∨ tt.length ≠ 3 ∨ gd > 2 ∨ gr > 2 then none else
    let env : ReprEnv Q := { geomOf := fun i => if i = 0 then G0 else if i = 1 then G1 else G2,
                             geq := fun a b => bitAt geq (3 * a + b), tagThrough := fun a => bitAt tt a }
    let r := applyFunc env C (keeps == "1") gd gr { data := vecFn x, len := x.length, tag := tg } (ispar == "1")
    some (fmtV r.len r.data ++ " " ++ (match r.tag with | .plain => "plain" | .cu _ _ => "cu"))
  | _ => none

def stepLegacy : List String → Option String
  | ["legacy", bc, sg, dim, name, v] => do
    let dim ← dim.toNat?; let x ← parseVec v
    let nm : Option String := if name = "-" then none else some name.toLower
    match legacyMatrix bc (sg == "1") dim nm x.length (vecFn x) with
    | none => some "err"
    | some A => some (fmtL A)
  | ["projshape", n, s1, s2] => do
    let n ← n.toNat?; let s1 ← s1.toNat?; let s2 ← s2.toNat?
    let (r, c) := projOutShape n s1 s2
    some s!"{r},{c}"
  | _ => none

def step : List String → String
  | ["geom", g] =>
    match parseGeom g with
    | some g => s!"E={fmtL g.E} F={fmtL g.F} re={fmtBool g.reOk}"
    | none => "err"
  | ["lin", kind, a, b, gd, gr] =>
    match parseLMat a, parseGeom gd, parseGeom gr with
    | some A, some D, some Rg =>
      let M? : Option (LinModel Q) :=
        match kind, b with
        | "mb", "-" => some (LinModel.ofMatrix A D Rg)
        | "fn", b => (parseLMat b).map (fun B => { A := A, B := B, dom := D, rng := Rg, matrixBacked := false })
        | _, _ => none
      match M? with
      | none => "bad-op"
      | some M => obsLine (Obj.fresh M)
    | _, _, _ => "bad-op"
  | ["conv1", mode, n, p] =>
    match parseExt mode, n.toNat?, parseVec p with
    | some m, some n, some P => fmtL (conv1 m P.length (vecFn P) n)
    | _, _, _ => "bad-op"
  | ["deconv1", bc, n, p] =>
    match n.toNat?, parseVec p with
    | some n, some P =>
      match bc1d bc.toLower with
      | some m => fmtL (deconv1dMatrix m P.length (vecFn P) n)
      | none => "err"
    | _, _ => "bad-op"
  | ["deconv2", bc, n, p] =>
    match n.toNat?, parseMat p with
    | some n, some P =>
      match bc2d bc.toLower, rectangular P with
      | some m, some (r, c) =>
        if r ≠ c then "err:nonsquare" else
        let M := deconv2dModel m r (matFn P) n
        let M := { M with A := M.A.force, B := M.B.force }
        s!"fwd={fmtL (prod3 M.rng.F M.A M.dom.E)} adj={fmtL (prod3 M.dom.F M.B M.rng.E)}"
      | none, _ => "err"
      | _, none => "bad-op"
    | _, _ => "bad-op"
  | ["abel", n, ep] =>
    match n.toNat?, parseRat ep with
    | some n, some ep => if n = 0 ∨ ep = 0 then "err" else fmtL (abelSq n ep)
    | _, _ => "bad-op"
  | l => match stepPsf l with
    | some o => o
    | none => match stepHist l with
      | some o => o
      | none => match stepRepr l with
        | some o => o
        | none => match stepLegacy l with | some o => o | none => "bad-op"

def main : IO Unit := runDriver step
