import CuqiVerif.Model.Proto
import CuqiVerif.Model.QMat
import CuqiVerif.Model.RExpr
import CuqiVerif.Model.C20
import CuqiVerif.Model.C04
import CuqiVerif.Model.C04_gaussobj
import CuqiVerif.Model.C04_eig
import CuqiVerif.Model.C04_dim
open CuqiVerif CuqiVerif.Proto CuqiVerif.C04 CuqiVerif.RExpr

/-!
Line protocol of the C04 driver (one line in, one line out).  Floats are printed as
`f:<uint64 bits of the double>`, exact rationals as `q:<n/d>`.

  iid <family> <dim> <modes> <x> <p1> <p2> <p3>   -> `formula <f>` | `-inf` | `inf` | `nan` | `raise`
        family ∈ normal(mean,std,_) normalpdf(mean,std,_) laplace(location,scale,_) smoothedlaplace(location,scale,beta)
                 sldoc(location,scale,beta: the documented value) cauchy(location,scale,_) gamma(shape,rate,_)
                 invgamma(shape,location,scale) beta(alpha,beta,_) mhn(alpha,beta,gamma) uniform(low,high,_)
                 uniformdoc(low,high,_)
        modes: one char per parameter: s = Python scalar, l = Python list, a = ndarray, - = unused
  cdf <family> <x> <p1> <p2> <componentcdfs>      -> `value q:<combined>` | `-inf` | `zero`
  gausscov <form> <kind> <dim> <M>                -> `ok <exact covariance>` | `raise` | `nan` | `unsupported`
  gauss <form> <kind> <dim> <x> <mu> <M>          -> `ok <rank> <detCov> <quad> <f:logpdf> <f:logupdf> <P|->`
                                                      | `raise` | `nologdet <quad>` | `nan` | `unsupported`
  logn <kind> <dim> <x> <logx> <mu> <M>           -> `-inf` | `ok <f:logpdf>` | `raise` | ...
  gmrf <1|2> <order> <bc> <n> <prec> <x> <mu>     -> `ok <declaredRank> <trueRank> <pdet|-> <quad> <f:logpdf|->` | `raise`
  mrf <lmrf|cmrf> <1|2> <bc> <n> <scale> <x> <loc> -> `ok <m> <f:logpdf>` | `raise`
  sparseflag <dim>                                -> `0|1`
  zerodim <family>                                -> `0|1`  (is a 0-d ndarray parameter refused)
  mindimsparse                                    -> `75`
  -- session 3 (Model/C04_gaussobj.lean); <stored> = `p|<kind>|<M>` | `d|<n>|<offsets>|<data>` (scipy dia_matrix) | `l|<R>|<detCov or ->` (LinearOperator)
  gstored <form> <dim> <x> <mu> <stored>          -> as `gauss`, plus `-inf <quad>` (log-determinant +inf)
  gobj <dim> <mean> <op> ...                      -> one answer per op, space separated
        ops: `new~<form>=<stored>~...` (matrix keywords that are not None) | `set~<form>~<stored>` | `mean~<vec>` | `ccov` | `rcov` | `lp~<x>`
        answers: `ok` | `E:ValueError` | `E:NotImplementedError` | `M:<matrix>` | `R` (the user's own object) | `None`
                 | `f:<logpdf bits>` | `-inf` | `raise` | `nan` | `unsupported` | `-` (no object)
  maxdiminv                                       -> `2000`
  gausseig <form> <n> <x> <mu> <lam> <Q> <R>      -> `ok <rank> <detCov> <quad>` | `raise` | `nan` | `bad-certificate`
        eigen branches (dim > MIN_DIM_SPARSE, dense full matrix R); (lam, rows of Q) = eigenpairs of R (cov, prec) resp. R Rᵀ
  eigeps <spectrum>                               -> `q:<eps>`
  dim <geometry par_dim or -> <kinds>             -> `dim <n>` | `E:TypeError` | `E:ValueError` | `E:IndexError`
        kinds (comma separated, one per mutable variable): N None, C callable, S number, L<k> list, A<k> 1-D array,
        M<m>x<n> 2-D array, Z 0-d array, P<m> sparse matrix with m rows, K<nnz> DOK sparse matrix
-/

def fmtQ (q : Rat) : String := "q:" ++ fmtRatS q
def floatStr (f : Float) : String := "f:" ++ toString f.toBits
def rf : Rat → Float := ratToFloat
def fl (l : List Rat) : List Float := l.map rf

def evF : (Nat → Float) → RExpr → Float := evalFloat
def v0 : RExpr := var 0
def v1 : RExpr := var 1
def v2 : RExpr := var 2
def v3 : RExpr := var 3

def modeAt (m : String) (k : Nat) : Char := (m.toList.getD k '-')

def stepIid (fam : String) (dim : Nat) (modes : String) (x p1 p2 p3 : List Rat) : String :=
  let out (g : Guard) (v : Float) : String := if g = .formula then s!"formula {floatStr v}" else g.toString
  let xs := fl x; let a := fl p1; let b := fl p2; let c := fl p3
  match fam with
  | "normal" =>
      if !(bcOk x [p1, p2]) then "raise" else
      if normalListRaises (modeAt modes 1 = 'l') then "raise" else
      out .formula (iid evF 0.0 (normalLogpdf v0 v1 v2) xs [a, b])
  | "normalpdf" =>
      if !(bcOk x [p1, p2]) then "raise" else
      if normalListRaises (modeAt modes 1 = 'l') then "raise" else
      out .formula (prodTo (bcLen x [p1, p2]) fun j => evF (env 0.0 xs [a, b] j) (normalPdf v0 v1 v2))
  | "laplace" =>
      if !(bcOk x [p1]) || p2.length ≠ 1 then "raise" else
      out .formula (laplaceCode evF 0.0 dim xs a b)
  | "smoothedlaplace" =>
      if !(bcOk x [p1, p2]) || p3.length ≠ 1 then "raise" else
      out .formula (slCode evF 0.0 xs a b c)
  | "sldoc" =>
      if !(bcOk x [p1, p2]) || p3.length ≠ 1 then "raise" else
      out .formula (slDoc evF 0.0 xs a b c)
  | "cauchy" =>
      if !(bcOk x [p1, p2]) then "raise" else
      out (cauchyGuard p2) (iid evF 0.0 (cauchyLogpdf v0 v1 v2) xs [a, b])
  | "gamma" =>
      if !(bcOk x [p1, p2]) then "raise" else
      -- parameters: shape, rate; scipy is called with scale = 1/rate
      let sc := b.map (1.0 / ·)
      let n := bcLen x [p1, p2]
      out (gammaGuard x p1 p2) (sumTo n fun j =>
        if gammaAtZero (bc 0 x j) (bc 0 p1 j) then evF (env 0.0 xs [a, sc] j) (-(log v2))
        else evF (env 0.0 xs [a, sc] j) (gammaLogpdf v0 v1 v2))
  | "invgamma" =>
      if !(bcOk x [p1, p2, p3]) then "raise" else
      out (invGammaGuard x p1 p2 p3) (iid evF 0.0 (invGammaLogpdf v0 v1 v2 v3) xs [a, b, c])
  | "beta" =>
      if !(bcOk x [p1, p2]) then "raise" else
      out (betaGuard x p1 p2) (iid evF 0.0 (betaLogpdf v0 v1 v2) xs [a, b])
  | "mhn" =>
      -- the getters of `beta` and `gamma` return `_alpha`: the formula reads alpha three times
      if !(bcOk x [p1]) then "raise" else
      if modeAt modes 0 = 'l' then "raise" else         -- `list - 1`: TypeError
      out (mhnGuard x) (iid evF 0.0 (mhnLogpdf v0 v1 v1 v1) xs [a])
  | "mhndoc" =>
      if !(bcOk x [p1, p2, p3]) then "raise" else
      out (mhnGuard x) (iid evF 0.0 (mhnLogpdf v0 v1 v2 v3) xs [a, b, c])
  | "uniform" =>
      if !(bcOk x [p1, p2]) then "raise" else
      if uniformOutside x p1 p2 then "-inf" else
      let ml := modeAt modes 0; let mh := modeAt modes 1
      if uniformListRaises (ml = 'l') (mh = 'l') (ml = 'a') (mh = 'a') then "raise" else
      let v := uniformVolCode dim p1 p2
      out .formula (evF (fun _ => rf v) (uniformLogpdf v0))
  | "uniformdoc" =>
      if !(bcOk x [p1, p2]) then "raise" else
      if uniformOutside x p1 p2 then "-inf" else
      out .formula (evF (fun _ => rf (uniformVolDoc dim p1 p2)) (uniformLogpdf v0))
  | _ => "bad-op"

def stepCdf (fam : String) (x p1 p2 comps : List Rat) : String :=
  match cdfRule fam with
  | none => "bad-op"
  | some r =>
    if fam = "cauchy" && cauchyGuard p2 = .negInf then "-inf" else
    if fam = "beta" && betaCdfGuardZero x p1 p2 then "zero" else
    s!"value {fmtQ (cdfCombine r comps.length (fn comps))}"

def gaussFloats (c : Canon) (quad : Rat) : Float × Float :=
  let e := fun (_ : Nat) => (0.0 : Float)
  (evF e (gaussLogpdf (const (c.rank : Rat)) (const c.detCov) (const quad)), evF e (gaussLogupdf (const quad)))

/-- quadratic form `zᵀ P z`; through a solve with the covariance when the branch formed one and the
    dimension is large (certificate `C y = z` checked by `solveVec`) -/
def gaussQuadOf (c : Canon) (dim : Nat) (z : List Rat) : Option Rat :=
  match c.P, c.C with
  | some P, _ => some (quadForm dim (fn2 P) (fn z))
  | none, some C => (solveVec C z).map (QMat.dot z)
  | none, none => none

def stepGauss (form : Form) (kind : Kind) (dim : Nat) (x mu : List Rat) (M : QMat.Mat) : String :=
  if x.length ≠ dim || !(mu.length = 1 || mu.length = dim) then "raise" else
  let z := (List.range dim).map fun j => x.getD j 0 - bc 0 mu j
  match canon form kind dim M with
  | .raises => "raise"
  | .nan => "nan"
  | .unsupported => "unsupported"
  | .noLogdet P => s!"nologdet {fmtQ (quadForm dim (fn2 P) (fn z))}"
  | .ok c =>
    match gaussQuadOf c dim z with
    | none => "unsupported"
    | some quad =>
      let (lp, lup) := gaussFloats c quad
      let Ps := match c.P with | some P => if dim ≤ 6 then fmtMat P else "-" | none => "-"
      s!"ok {c.rank} {fmtQ c.detCov} {fmtQ quad} {floatStr lp} {floatStr lup} {Ps}"

def stepLogn (kind : Kind) (dim : Nat) (x logx mu : List Rat) (M : QMat.Mat) : String :=
  if x.length ≠ dim || logx.length ≠ dim || !(mu.length = 1 || mu.length = dim) then "raise" else
  if lognormalGuard x = .negInf then "-inf" else
  let z := (List.range dim).map fun j => logx.getD j 0 - bc 0 mu j
  match canon .cov kind dim M with
  | .ok c =>
    match gaussQuadOf c dim z with
    | none => "unsupported"
    | some quad =>
      -- `np.log(normal.pdf(np.log(x)) * np.prod(1/x))`
      let (lp, _) := gaussFloats c quad
      s!"ok {floatStr (lp - (fl logx).foldl (· + ·) 0.0)}"
  | .raises => "raise"
  | .nan => "nan"
  | _ => "unsupported"

def stepGmrf (pd order : Nat) (b : C20.BC) (n : Nat) (prec : Rat) (x mu : List Rat) : String :=
  let dim := if pd = 2 then n * n else n
  if x.length ≠ dim || !(mu.length = 1 || mu.length = dim) || !(b = .zero || b = .periodic || b = .neumann) then "raise" else
  let P := toQ (C20.gram (mrfOp pd order b n))
  let z := (List.range dim).map fun j => x.getD j 0 - bc 0 mu j
  let quad := quadForm dim (fn2 P) (fn z)
  let (r, pd?) := gmrfConst b P
  let e := fun (_ : Nat) => (0.0 : Float)
  match pd? with
  | some d =>
    let lp := evF e (gmrfLogpdf (const (r : Rat)) (const prec) (const d) (const quad))
    s!"ok {r} {QMat.rank P} {fmtQ d} {fmtQ quad} {floatStr lp}"
  | none => s!"ok {r} {QMat.rank P} - {fmtQ quad} -"

def stepMrf (fam : String) (pd : Nat) (b : C20.BC) (n : Nat) (s : Rat) (x loc : List Rat) : String :=
  let dim := if pd = 2 then n * n else n
  if x.length ≠ dim || !(loc.length = 1 || loc.length = dim) then "raise" else
  let Dm := mrfOp pd 1 b n
  let D := toQ Dm
  let z := (List.range dim).map fun j => x.getD j 0 - bc 0 loc j
  let u := QMat.mulVec D z
  let m := Dm.rows
  let sF := rf s
  match fam with
  | "lmrf" =>
      -- `len(Dx)*(-(np.log(2)+np.log(self.scale))) - np.linalg.norm(Dx, ord=1)/self.scale`
      let v := sumTo m fun k => evF (fun i => if i = 0 then rf (u.getD k 0) else sF) (lmrfComp v0 v1)
      s!"ok {m} {floatStr v}"
  | "cmrf" =>
      -- `-len(Dx)*np.log(np.pi) + sum(np.log(scale) - np.log(Dx**2 + scale**2))`
      let v := sumTo m fun k => evF (fun i => if i = 0 then rf (u.getD k 0) else sF) (cmrfComp v0 v1 - log pi)
      s!"ok {m} {floatStr v}"
  | _ => "bad-op"

/-! ### session 3: stored arguments and the Gaussian object -/

def parseStored (s : String) : Option Stored :=
  match s.splitOn "|" with
  | ["p", k, M] => do
      let k ← Kind.ofString k
      let M ← parseMat M
      some (.plain k M)
  | ["d", n, offs, data] => do
      let n ← n.toNat?
      let o ← parseVec offs
      let data ← parseMat data
      let d : Dia := { n := n, offsets := o.map (·.num), data := data }
      if o.all (·.den = 1) && d.wellFormed then some (.dia d) else none
  | ["l", R, dc] => do
      let R ← parseMat R
      if dc = "-" then some (.linop R none) else do
        let q ← parseRat dc
        some (.linop R (some q))
  | _ => none

def checkedInverse (P : QMat.Mat) : Option QMat.Mat :=
  match QMat.inverse P with
  | some C => if QMat.isInverse P C then some C else none
  | none => none

/-- `inv(sqrtprec.T @ sqrtprec)` for a stored argument, exact and certificate-checked -/
def denoteCov (form : Form) (s : Stored) (dim : Nat) : Option QMat.Mat :=
  match canonStored form dim s with
  | .base (.ok c) => canonCov c
  | .base (.noLogdet P) => checkedInverse P
  | .negInf P => checkedInverse P
  | _ => none

def devOf (dim : Nat) (x mu : List Rat) : List Rat := (List.range dim).map fun j => x.getD j 0 - bc 0 mu j

/-- logpdf outcome of a converted argument at deviation `z` (long form: as the `gauss` op) -/
def renderSRes (r : SRes) (dim : Nat) (z : List Rat) (long : Bool) : String :=
  match r with
  | .negInf P => if long then s!"-inf {fmtQ (quadForm dim (fn2 P) (fn z))}" else "-inf"
  | .base .raises => "raise"
  | .base .nan => "nan"
  | .base .unsupported => "unsupported"
  | .base (.noLogdet P) => if long then s!"nologdet {fmtQ (quadForm dim (fn2 P) (fn z))}" else "E:NotImplementedError"
  | .base (.ok c) =>
    match gaussQuadOf c dim z with
    | none => "unsupported"
    | some quad =>
      let (lp, lup) := gaussFloats c quad
      if long then s!"ok {c.rank} {fmtQ c.detCov} {fmtQ quad} {floatStr lp} {floatStr lup}" else floatStr lp

def stepGStored (form : Form) (dim : Nat) (x mu : List Rat) (s : Stored) : String :=
  if x.length ≠ dim || !(mu.length = 1 || mu.length = dim) then "raise" else
  renderSRes (canonStored form dim s) dim (devOf dim x mu) true

def parseKw (t : String) : Option (Form × Stored) :=
  match t.splitOn "=" with
  | [f, s] => do
      let f ← Form.ofString f
      let s ← parseStored s
      some (f, s)
  | _ => none

/-- one operation on the object: (answer, new state); `none` state: no object was constructed -/
def objOp (o? : Option GObj) (dim : Nat) (mean0 : List Rat) (tok : String) : String × Option GObj :=
  match tok.splitOn "~" with
  | "new" :: kws =>
    match kws.mapM parseKw with
    | none => ("bad-op", none)
    | some args =>
      match construct dim mean0 args with
      | .ok o => ("ok", some o)
      | .error e => (e.toString, none)
  | parts =>
    match o? with
    | none => ("-", none)
    | some o =>
      match parts with
      | ["set", f, s] =>
        match Form.ofString f, parseStored s with
        | some f, some s =>
          match setMain o f s with
          | .ok o' => ("ok", some o')
          | .error e => (e.toString, some o)
        | _, _ => ("bad-op", some o)
      | ["mean", m] =>
        match parseVec m with
        | some m => ("ok", some (setMean o m))
        | none => ("bad-op", some o)
      | ["ccov"] =>
        match computeCov denoteCov o with
        | .ok (some C, o') => (s!"M:{fmtMat C}", some o')
        | .ok (none, o') => ("unsupported", some o')
        | .error e => (e.toString, some o)
      | ["rcov"] =>
        match getCov o with
        | .ok .none_ => ("None", some o)
        | .ok (.raw _) => ("R", some o)
        | .ok (.full C) => (s!"M:{fmtMat C}", some o)
        | .error e => (e.toString, some o)
      | ["lp", x] =>
        match parseVec x, o.main with
        | some x, some s =>
          if x.length ≠ o.dim || !(o.mean.length = 1 || o.mean.length = o.dim) then ("raise", some o)
          else (renderSRes (canonStored o.form o.dim s) o.dim (devOf o.dim x o.mean) false, some o)
        | some _, none => ("E:NotImplementedError", some o)
        | none, _ => ("bad-op", some o)
      | _ => ("bad-op", some o)

def stepGObj (dim : Nat) (mean0 : List Rat) (ops : List String) : String :=
  let (outs, _) := ops.foldl (fun (acc : List String × Option GObj) tok =>
    let (a, o') := objOp acc.2 dim mean0 tok
    (acc.1 ++ [a], o')) ([], none)
  " ".intercalate outs

def stepGaussEig (form : Form) (n : Nat) (x mu lam : List Rat) (Q R : QMat.Mat) : String :=
  if x.length ≠ n || !(mu.length = 1 || mu.length = n) then "raise" else
  let S := match form with
    | .cov | .prec => R
    | _ => QMat.mul R (QMat.transpose R)
  match eigBranch form n lam Q S R (devOf n x mu) with
  | .ok r d qd => s!"ok {r} {fmtQ d} {fmtQ qd}"
  | .raises => "raise"
  | .nan => "nan"
  | .badCertificate => "bad-certificate"

def parsePKind (t : String) : Option PKind :=
  match t.toList with
  | ['N'] => some .none_
  | ['C'] => some .callable
  | ['S'] => some .number
  | ['Z'] => some .arr0
  | 'L' :: r => (String.ofList r).toNat?.map .list
  | 'A' :: r => (String.ofList r).toNat?.map .arr1
  | 'P' :: r => (String.ofList r).toNat?.map .sparse
  | 'K' :: r => (String.ofList r).toNat?.map .dok
  | 'M' :: r =>
    match (String.ofList r).splitOn "x" with
    | [m, n] => match m.toNat?, n.toNat? with
      | some m, some n => some (.arr2 m n)
      | _, _ => none
    | _ => none
  | _ => none

def vecOr (s : String) : Option (List Rat) := if s = "-" then some [] else parseVec s

def step : List String → String
  | ["iid", fam, dim, modes, x, p1, p2, p3] =>
    match dim.toNat?, parseVec x, vecOr p1, vecOr p2, vecOr p3 with
    | some dim, some x, some p1, some p2, some p3 =>
      if x.isEmpty || p1.isEmpty then "bad-op" else stepIid fam dim modes x p1 p2 p3
    | _, _, _, _, _ => "bad-op"
  | ["cdf", fam, x, p1, p2, comps] =>
    match parseVec x, vecOr p1, vecOr p2, parseVec comps with
    | some x, some p1, some p2, some comps => if comps.isEmpty then "bad-op" else stepCdf fam x p1 p2 comps
    | _, _, _, _ => "bad-op"
  | ["gauss", form, kind, dim, x, mu, M] =>
    match Form.ofString form, Kind.ofString kind, dim.toNat?, parseVec x, parseVec mu, parseMat M with
    | some form, some kind, some dim, some x, some mu, some M => stepGauss form kind dim x mu M
    | _, _, _, _, _, _ => "bad-op"
  | ["gausscov", form, kind, dim, M] =>
    match Form.ofString form, Kind.ofString kind, dim.toNat?, parseMat M with
    | some form, some kind, some dim, some M =>
      match canon form kind dim M with
      | .ok c => match canonCov c with | some C => s!"ok {fmtMat C}" | none => "unsupported"
      | .raises => "raise"
      | .nan => "nan"
      | .noLogdet P => match QMat.inverse P with | some C => (if QMat.isInverse P C then s!"ok {fmtMat C}" else "unsupported") | none => "unsupported"
      | .unsupported => "unsupported"
    | _, _, _, _ => "bad-op"
  | ["logn", kind, dim, x, logx, mu, M] =>
    match Kind.ofString kind, dim.toNat?, parseVec x, parseVec logx, parseVec mu, parseMat M with
    | some kind, some dim, some x, some logx, some mu, some M => stepLogn kind dim x logx mu M
    | _, _, _, _, _, _ => "bad-op"
  | ["gmrf", pd, o, b, n, prec, x, mu] =>
    match pd.toNat?, o.toNat?, C20.BC.ofString b, n.toNat?, parseRat prec, parseVec x, parseVec mu with
    | some pd, some o, some b, some n, some prec, some x, some mu =>
      if (pd = 1 || pd = 2) && o ≤ 2 then stepGmrf pd o b n prec x mu else "bad-op"
    | _, _, _, _, _, _, _ => "bad-op"
  | ["mrf", fam, pd, b, n, s, x, loc] =>
    match pd.toNat?, C20.BC.ofString b, n.toNat?, parseRat s, parseVec x, parseVec loc with
    | some pd, some b, some n, some s, some x, some loc =>
      if pd = 1 || pd = 2 then stepMrf fam pd b n s x loc else "bad-op"
    | _, _, _, _, _, _ => "bad-op"
  | ["sparseflag", dim] =>
    match dim.toNat? with
    | some d => fmtBool (sparseFlag d)
    | none => "bad-op"
  | ["zerodim", fam] => fmtBool (zeroDimArrayRaises fam)
  | ["mindimsparse"] => toString MIN_DIM_SPARSE
  | ["maxdiminv"] => toString MAX_DIM_INV
  | ["gausseig", form, n, x, mu, lam, Q, R] =>
    match Form.ofString form, n.toNat?, parseVec x, parseVec mu, parseVec lam, parseMat Q, parseMat R with
    | some form, some n, some x, some mu, some lam, some Q, some R => stepGaussEig form n x mu lam Q R
    | _, _, _, _, _, _, _ => "bad-op"
  | ["dim", g, kinds] =>
    match (kinds.splitOn ",").mapM parsePKind with
    | none => "bad-op"
    | some ps =>
      if g = "-" then (resolveDim none ps).toString
      else match g.toNat? with
        | some gd => if gd = 0 then "bad-op" else (resolveDim (some gd) ps).toString
        | none => "bad-op"
  | ["eigeps", sp] =>
    match parseVec sp with
    | some sp => fmtQ (eigEps sp)
    | none => "bad-op"
  | ["gstored", form, dim, x, mu, st] =>
    match Form.ofString form, dim.toNat?, parseVec x, parseVec mu, parseStored st with
    | some form, some dim, some x, some mu, some st => stepGStored form dim x mu st
    | _, _, _, _, _ => "bad-op"
  | "gobj" :: dim :: mean :: ops =>
    match dim.toNat?, parseVec mean with
    | some dim, some mean => if ops.isEmpty then "bad-op" else stepGObj dim mean ops
    | _, _ => "bad-op"
  | _ => "bad-op"

def main : IO Unit := runDriver step
