import CuqiVerif.Model.Proto
import CuqiVerif.Model.QMat
import CuqiVerif.Model.C18
import CuqiVerif.Model.C18_testproblems
import CuqiVerif.Model.C18_interp
import CuqiVerif.Model.C18_history
import CuqiVerif.Model.C18_shapes
open CuqiVerif CuqiVerif.Proto CuqiVerif.C18

/-!
Line protocol of the C18 model (R = Rat).  `<fam>` is ten tokens `A0 A1 D E b0 b1 B c0 c1 C`
(matrix / vector or `_` = absent) describing the PDE form

    A(p,t) = A0 + t·A1 + Dᵀ diag(E p) D        b(p,t) = b0 + t·b1 + B p       ic(p,t) = c0 + t·c1 + C p

  steady <n> <solver> <fam> <ops>                         ops: `a:<p>` (assemble) / `s` (solve), `|`-separated
        -> per `s`:  `ok <u> <info>` | `err:<Class>`      joined by `|`
  time   <n> <method> <solver> <ts> <fam> <p>             -> `ok <levels (row k = level k)> <info> <form-call times>` | `err:<Class>`
  grids  <gridops>                                        gridops: `init:<sol>:<obs>` / `sol:<v>` / `obs:<v>`, `|`-separated, `none` = None
        -> per op `<equal>:<sol>:<obs>` joined by `|`
  obst   <gridops> <ts> <tobs> <ndim> <U> <W> <om>        -> `<branch> <out>` | `err:<Class>`
  obss   <gridops> <u> <W> <om>                           -> `<branch> <out>` | `err:<Class>`
  pipet  <n> <method> <solver> <ts> <fam> <p> <gridops> <tobs> <W> <om>   -> `<out>` | `err:<Class>`   (PDEModel._forward_func)
  pipes  <n> <solver> <fam> <p> <gridops> <W> <om>                         -> `<out>` | `err:<Class>`
  grad   <cap> <m> <dir> <J> <g>                          cap ∈ g | j | gj | n   -> `<vec>` | `err:<Class>`

  tpp    <dim> <endpoint> <c0,c1,c2> <fmap> <gm> <solver> <x> <W|exact>      `Poisson1D(dim, endpoint, source=c0+c1 s+c2 s², map=fmap, observation_grid_map=gm)`
        -> `ok <N> <grid_domain> <grid_sol> <grid_obs> <equal> <source grid> <diff_op at x> <rhs> <model.forward(x)>` | `err:<Class>`
  tph    <dim> <endpoint> <max_time> <fmap> <gm> <x> <W>                   `Heat1D(dim, endpoint, max_time, map=fmap, observation_grid_map=gm)`
        -> `ok <max_iter> <time_steps> <grid_sol> <grid_obs> <equal> <Dxx> <model.forward(x)>` | `err:<Class>`
  obsq   <gridops> <u> <om>                              as `obss`, with the exact quadratic spline (`interp1dQuadratic`) instead of leaf data `W`
  interpq <gs> <u> <go>                                  -> `v:<vec>` | `err:<Class>`   (`interp1d(gs, u, kind='quadratic')(go)` exactly)
  hist   <n> <method> <solver> <ts> <fam> <np> <ops>     ONE TimeDependentLinearPDE object; ops `|`-separated:
          `a:<p>` assemble, `as:<t>` assemble_step, `s` solve, `m:<string>` method setter, `ts:<vec>` time_steps, `f:<x>` PDEModel forward (up to observe)
        -> per op `<out>~<_parameter|none>~<assembled p>@<assembled t>|none`, out = `u` | `err:<Class>` | `ok~<levels>~<info>`, joined by `|`
  timeb  <method> <solver> <ts> <op> <src> <ic>           `solve()` with form components of arbitrary shape (time-independent here)
          op: mat:<m> | sc:<q> | vec:<v>    src: vec:<v> | sc:<q> | col:<v> | row:<v>    ic: vec:<v> | sc:<q> | col:<v>
        -> `ok <n> <levels> <info>` | `err:<Class>`
  fmap  : id | sq | aff:<a>:<b>          gm: none | pick:<i,j,…> | mid | shift

  solver: plain | t0 | t1 | t2 | t3 | raise       (what `linalg_solve` returns: x, (), (x,), (x, b[0]), (x, b[0], A[0,0]))
  tobs  : none | str:<s> | v:<vec>                W: matrix/vector of scipy's values, `err` if scipy refuses, `-` unused
  om    : id | sq | sc:<q> | left:<mat> | row:<i> | take:<k>
  out   : s:<q> | v:<vec> | m:<mat>
  Every solve of the ℚ model is certificate-checked (`QMat.solves`) before it is used.
-/

abbrev Q := Rat

def vecFn (v : List Q) : Vec Q := let a := v.toArray; fun i => a.getD i 0
def matFn (m : List (List Q)) : Mat Q :=
  let a : Array (Array Q) := (m.map List.toArray).toArray
  fun i j => (a.getD i #[]).getD j 0
def vecL (n : Nat) (v : Vec Q) : List Q := (List.range n).map v
def matL (n : Nat) (A : Mat Q) : List (List Q) := (List.range n).map fun i => (List.range n).map fun j => A i j

def rect (m : List (List Q)) (r c : Nat) : Bool := m.length == r && m.all (fun x => x.length == c)

/-- optional matrix token of prescribed shape (`_` = zero) -/
def optMat (s : String) (r c : Nat) : Option (List (List Q)) :=
  if s = "_" then some (List.replicate r (List.replicate c 0)) else do
    let m ← parseMat s
    if rect m r c then some m else none

def optVec (s : String) (n : Nat) : Option (List Q) :=
  if s = "_" then some (List.replicate n 0) else do
    let v ← parseVec s
    if v.length = n then some v else none

structure Fam where
  n : Nat
  A0 : List (List Q)
  A1 : List (List Q)
  D : List (List Q)      -- m × n (m may be 0)
  E : List (List Q)      -- m × np
  b0 : List Q
  b1 : List Q
  B : List (List Q)      -- n × np
  c0 : List Q
  c1 : List Q
  C : List (List Q)      -- n × np
  np : Nat

def parseFam (n : Nat) (np : Nat) : List String → Option Fam
  | [a0, a1, d, e, b0, b1, b, c0, c1, c] => do
    let A0 ← optMat a0 n n
    let A1 ← optMat a1 n n
    let D ← if d = "_" then some [] else parseMat d
    let m := D.length
    if !(rect D m n) then none
    let E ← if d = "_" then some [] else parseMat e
    if !(rect E m np) then none
    let b0 ← optVec b0 n
    let b1 ← optVec b1 n
    let B ← optMat b n np
    let c0 ← optVec c0 n
    let c1 ← optVec c1 n
    let C ← optMat c n np
    some { n, A0, A1, D, E, b0, b1, B, c0, c1, C, np }
  | _ => none

def Fam.opAt (f : Fam) (p : List Q) (t : Q) : List (List Q) :=
  let w := QMat.mulVec f.E p
  let DtWD := QMat.mul (QMat.transposeN f.n f.D) (List.zipWith (fun wk row => row.map (wk * ·)) w f.D)
  let base := QMat.madd f.A0 (QMat.mscale t f.A1)
  if f.D.isEmpty then base else QMat.madd base DtWD

def Fam.srcAt (f : Fam) (p : List Q) (t : Q) : List Q :=
  QMat.vadd (QMat.vadd f.b0 (QMat.vscale t f.b1)) (QMat.mulVec f.B p)

def Fam.icAt (f : Fam) (p : List Q) (t : Q) : List Q :=
  QMat.vadd (QMat.vadd f.c0 (QMat.vscale t f.c1)) (QMat.mulVec f.C p)

def Fam.form (f : Fam) (p : List Q) (t : Q) : Form Q :=
  { op := matFn (f.opAt p t), src := vecFn (f.srcAt p t), ic := vecFn (f.icAt p t) }

def Fam.steadyForm (f : Fam) (p : List Q) : SteadyForm Q :=
  { op := matFn (f.opAt p 0), rhs := vecFn (f.srcAt p 0) }

/-- the user's `linalg_solve` of kind `kind`, by exact elimination with a checked certificate -/
def mkSolver (n : Nat) (kind : String) (A : Mat Q) (b : Vec Q) : SolverRet (Vec Q) Q :=
  if kind = "raise" then .raised else
  let Al := matL n A
  let bl := vecL n b
  match QMat.solve Al bl with
  | none => .raised
  | some x =>
    if !(QMat.solves Al x bl) || x.length != n then .raised else
    let xv := vecFn x
    match kind with
    | "plain" => .plain xv
    | "t0" => .tuple0
    | "t1" => .tuple xv []
    | "t2" => .tuple xv [b 0]
    | "t3" => .tuple xv [b 0, A 0 0]
    | _ => .raised

def solverKinds : List String := ["plain", "t0", "t1", "t2", "t3", "raise"]

def fmtInfo : Option (List Q) → String
  | none => "i:none"
  | some l => "i:" ++ fmtVec l

def fmtErr (e : Err) : String := "err:" ++ e.toString

def fmtArr : Arr Q → String
  | .scalar x => "s:" ++ fmtRat x
  | .vec v => "v:" ++ fmtVec v
  | .mat m => "m:" ++ fmtMat m

def parseOptGrid (s : String) : Option (Option (List Q)) :=
  if s = "none" then some none else (parseVec s).map some

def fmtOptGrid : Option (List Q) → String
  | none => "none"
  | some v => fmtVec v

/-- grid op sequence; the first op must be `init` -/
def parseGridOps (s : String) : Option (Grids Q × List (GridOp Q) × List (Grids Q)) := do
  let toks := s.splitOn "|"
  match toks with
  | [] => none
  | first :: rest =>
    let g0 ← (match first.splitOn ":" with
      | ["init", a, b] => do
        let a ← parseOptGrid a; let b ← parseOptGrid b
        some (Grids.init a b)
      | _ => none)
    let ops ← rest.mapM fun tk => (match tk.splitOn ":" with
      | ["sol", a] => (parseOptGrid a).map GridOp.setSol
      | ["obs", a] => (parseOptGrid a).map GridOp.setObs
      | _ => none)
    -- trace of states
    let trace := ops.foldl (fun (acc : List (Grids Q)) op =>
      let g := acc.getLast?.getD g0
      acc ++ [match op with | .setSol v => g.setSol v | .setObs v => g.setObs v]) [g0]
    some (g0, ops, trace)

def fmtGrids (g : Grids Q) : String := s!"{fmtBool g.equal}:{fmtOptGrid g.sol}:{fmtOptGrid g.obs}"

def parseTobs (s : String) : Option (TimeObsArg Q) :=
  if s = "none" then some .noneVal
  else if s.startsWith "str:" then some (.str (s.drop 4).toString.toLower)
  else if s.startsWith "v:" then (parseVec (s.drop 2).toString).map .explicit
  else none

def parseOm (s : String) : Option (ObsMap Q) :=
  match s.splitOn ":" with
  | ["id"] => some .ident
  | ["sq"] => some .square
  | ["sc", c] => (parseRat c).map .scale
  | ["left", m] => (parseMat m).map .left
  | ["row", i] => i.toNat?.map .row
  | ["take", k] => k.toNat?.map .take
  | _ => none

def interp2Of (w : String) : Option (List Q → List Q → List (List Q) → List Q → List Q → Except Err (List (List Q))) :=
  if w = "err" then some (fun _ _ _ _ _ => .error .interpError)
  else if w = "-" then some (fun _ _ _ _ _ => .error .interpError)
  else (parseMat w).map fun W => tableInterp2 W

def interp1Of (w : String) : Option (List Q → List Q → List Q → Except Err (List Q)) :=
  if w = "err" then some (fun _ _ _ => .error .interpError)
  else if w = "-" then some (fun _ _ _ => .error .interpError)
  else (parseVec w).map fun W => tableInterp1 W

def fmtBranch : Branch → String
  | .direct => "direct" | .interp => "interp" | .refuse => "refuse"

/-- levels (row k = level k) to space × time rows -/
def levelsToU (n : Nat) (levels : List (Array Q)) : List (List Q) :=
  (List.range n).map fun i => levels.map fun u => rd u i

def runSteadyOps (s : Steady (List Q) Q Q) (n : Nat) : List String → Option (List String)
  | [] => some []
  | op :: rest =>
    if op = "s" then
      let out := match s.solve with
        | .error e => fmtErr e
        | .ok (u, info) => s!"ok {fmtVec (vecL n u)} {fmtInfo info}"
      (runSteadyOps s n rest).map (out :: ·)
    else if op.startsWith "a:" then do
      let p ← parseVec (op.drop 2).toString
      runSteadyOps (s.assemble p) n rest
    else none

def parseFmap (s : String) : Option (FieldMap Q) :=
  match s.splitOn ":" with
  | ["id"] => some .ident
  | ["sq"] => some .square
  | ["aff", a, b] => do some (.affine (← parseRat a) (← parseRat b))
  | _ => none

def parseGm (s : String) : Option GridMap :=
  match s.splitOn ":" with
  | ["none"] => some .none
  | ["mid"] => some .mid
  | ["shift"] => some .shiftInterior
  | ["pick", l] => (parseNatList l).map .pick
  | _ => none

def matLr (r c : Nat) (A : Mat Q) : List (List Q) := (List.range r).map fun i => (List.range c).map fun j => A i j

def parseHOp (tk : String) : Option (HOp (List Q) Q) :=
  if tk = "s" then some .solve
  else if tk.startsWith "as:" then (parseRat (tk.drop 3).toString).map .assembleStep
  else if tk.startsWith "a:" then (parseVec (tk.drop 2).toString).map .assemble
  else if tk.startsWith "m:" then some (.setMethod (tk.drop 2).toString)
  else if tk.startsWith "ts:" then (if tk = "ts:" then some (.setTs []) else (parseVec (tk.drop 3).toString).map .setTs)
  else if tk.startsWith "f:" then (parseVec (tk.drop 2).toString).map .forward
  else none

def fmtHOut (n : Nat) : HOut Q Q → String
  | .unit => "u"
  | .err e => fmtErr e
  | .solved levels info => s!"ok~{fmtMat (levels.map fun u => vecL n (rd u))}~{fmtInfo info}"

def fmtHState (o : TimeObj (List Q) Q Q) : String :=
  let p := match o.param with | none => "none" | some p => fmtVec p
  let l := match o.lastStep with | none => "none" | some (p, t) => s!"{fmtVec p}@{fmtRat t}"
  s!"{p}~{l}"

def runHist (n : Nat) (o : TimeObj (List Q) Q Q) : List (HOp (List Q) Q) → List String
  | [] => []
  | op :: rest =>
    let (o1, out) := o.step op
    s!"{fmtHOut n out}~{fmtHState o1}" :: runHist n o1 rest

def parseOpArg (s : String) : Option (OpArg Q) :=
  if s.startsWith "mat:" then (parseMat (s.drop 4).toString).bind fun m =>
    if m.all (fun r => r.length == m.length) then some (.mat m.length (matFn m)) else none
  else if s.startsWith "sc:" then (parseRat (s.drop 3).toString).map .scalar
  else if s.startsWith "vec:" then (parseVec (s.drop 4).toString).map fun v => .vec v.length (vecFn v)
  else none

def parseSrcArg (s : String) : Option (SrcArg Q) :=
  if s.startsWith "vec:" then (parseVec (s.drop 4).toString).map fun v => .vec v.length (vecFn v)
  else if s.startsWith "sc:" then (parseRat (s.drop 3).toString).map .scalar
  else if s.startsWith "col:" then (parseVec (s.drop 4).toString).map fun v => .col v.length (vecFn v)
  else if s.startsWith "row:" then (parseVec (s.drop 4).toString).map fun v => .row v.length (vecFn v)
  else none

def parseIcArg (s : String) : Option (IcArg Q) :=
  if s.startsWith "vec:" then (parseVec (s.drop 4).toString).map fun v => .vec v.length (vecFn v)
  else if s.startsWith "sc:" then (parseRat (s.drop 3).toString).map .scalar
  else if s.startsWith "col:" then (parseVec (s.drop 4).toString).map fun v => .col v.length (vecFn v)
  else none

def stepShapes : List String → String
  | ["timeb", method, kind, ts, op, src, ic] =>
    match parseVec ts, parseOpArg op, parseSrcArg src, parseIcArg ic with
    | some ts, some op, some src, some ic =>
      if !(solverKinds.contains kind) then "bad-op" else
      match Method.ofString method with
      | none => "err:ValueError"
      | some m =>
        -- the solver needs the size: it is `len(ic)`
        let n := match bcIc ic with | .ok (n, _) => n | .error _ => 0
        match solveTimeShapes m (fun _ => { op := op, src := src, ic := ic }) (mkSolver n kind) ts with
        | .error e => fmtErr e
        | .ok (n, levels, info) => s!"ok {n} {fmtMat (levels.map fun u => vecL n (rd u))} {fmtInfo info}"
    | _, _, _, _ => "bad-op"
  | _ => "bad-op"

def stepHist : List String → String
  | "hist" :: n :: method :: kind :: ts :: rest =>
    match n.toNat?, parseVec ts, rest with
    | some n, some ts, [a0, a1, d, e, b0, b1, b, c0, c1, c, np, ops] =>
      match np.toNat? with
      | none => "bad-op"
      | some np =>
      match parseFam n np [a0, a1, d, e, b0, b1, b, c0, c1, c], Method.ofString method, (ops.splitOn "|").mapM parseHOp with
      | some fam, some m, some hops =>
        if !(solverKinds.contains kind) then "bad-op" else
        let o : TimeObj (List Q) Q Q := { n := n, formP := fun p t => fam.form p t, solver := mkSolver n kind, method := m, ts := ts }
        "|".intercalate (runHist n o hops)
      | _, _, _ => "bad-op"
    | _, _, _ => "bad-op"
  | l => stepShapes l

def stepTP : List String → String
  | ["tpp", dim, endpoint, src, fmap, gm, kind, x, w] =>
    match dim.toNat?, parseRat endpoint, parseVec src, parseFmap fmap, parseGm gm, parseVec x,
        (if w = "exact" then some (interp1dQuadratic QMat.solve) else interp1Of w) with
    | some dim, some endpoint, some [c0, c1, c2], some fm, some gm, some x, some interp =>
      if !(solverKinds.contains kind) then "bad-op" else
      match poissonSetup dim endpoint gm with
      | .error e => fmtErr e
      | .ok s =>
        if x.length != dim then "err:ValueError" else      -- `np.diag(x)` of the wrong size does not multiply with `Dx`
        let source : Q → Q := fun t => c0 + c1 * t + c2 * t * t
        let st : Steady (Vec Q) Q Q := poissonSteady s source fm (mkSolver s.N kind)
        let f := st.form (vecFn x)
        let pde : PDEObj (List Q) (List Q) (Arr Q) Q :=
          { solveFor := fun p => ((st.assemble (vecFn p)).solve).map fun (u, info) => (vecL s.N u, info)
            observe := fun u => observeSteady s.grids u interp .ident }
        let out := match pdeModelForward pde x with
          | .error e => fmtErr e
          | .ok a => fmtArr a
        s!"ok {s.N} {fmtVec s.gridDomain} {fmtOptGrid s.grids.sol} {fmtOptGrid s.grids.obs} {fmtBool s.grids.equal} {fmtVec s.srcGrid} {fmtMat (matLr s.N s.N f.op)} {fmtVec (vecL s.N f.rhs)} {out}"
    | _, _, _, _, _, _, _ => "bad-op"
  | ["obsq", gops, u, om] =>
    match parseGridOps gops, parseVec u, parseOm om with
    | some (g0, ops, _), some u, some om =>
      let g := g0.run ops
      let br := if g.equal then "direct" else "interp"
      match observeSteady g u (interp1dQuadratic QMat.solve) om with
      | .error e => s!"{br} {fmtErr e}"
      | .ok a => s!"{br} {fmtArr a}"
    | _, _, _ => "bad-op"
  | ["interpq", gs, u, go] =>
    match parseVec gs, parseVec u, parseVec go with
    | some gs, some u, some go =>
      match interp1dQuadratic QMat.solve gs u go with
      | .error e => fmtErr e
      | .ok v => "v:" ++ fmtVec v
    | _, _, _ => "bad-op"
  | ["tph", dim, endpoint, maxTime, fmap, gm, x, w] =>
    match dim.toNat?, parseRat endpoint, parseRat maxTime, parseFmap fmap, parseGm gm, parseVec x, interp2Of w with
    | some dim, some endpoint, some maxTime, some fm, some gm, some x, some interp =>
      match heatMaxIterInt dim endpoint maxTime with
      | none => "err:ZeroDivisionError"
      | some mi =>
        if mi < 0 then "err:ValueError" else
        match heatSetup dim endpoint maxTime mi.toNat gm with
        | .error e => fmtErr e
        | .ok s =>
          if x.length != dim then "err:ValueError" else
          match Method.ofString "forward_euler" with
          | none => "bad-op"
          | some m =>
            let pde : PDEObj (List Q) (List (List Q)) (Arr Q) Q :=
              { solveFor := fun p =>
                  (solveTime s.N m (heat1dForm s.dx (fun k => fm.apply (vecFn p k))) (mkSolver s.N "plain") s.timeSteps).map
                    fun (levels, info) => (levelsToU s.N levels, info)
                observe := fun U => observeTime s.grids s.timeSteps s.tobs U interp .ident }
            let out := match pdeModelForward pde x with
              | .error e => fmtErr e
              | .ok a => fmtArr a
            s!"ok {s.maxIter} {fmtVec s.timeSteps} {fmtOptGrid s.grids.sol} {fmtOptGrid s.grids.obs} {fmtBool s.grids.equal} {fmtMat (matLr s.N s.N (heatDxx s.dx))} {out}"
    | _, _, _, _, _, _, _ => "bad-op"
  | l => stepHist l

def step : List String → String
  | "steady" :: n :: kind :: rest =>
    match n.toNat?, rest with
    | some n, [a0, a1, d, e, b0, b1, b, c0, c1, c, np, ops] =>
      match np.toNat? with
      | none => "bad-op"
      | some np =>
      match parseFam n np [a0, a1, d, e, b0, b1, b, c0, c1, c] with
      | none => "bad-op"
      | some fam =>
        if !(solverKinds.contains kind) then "bad-op" else
        let s : Steady (List Q) Q Q := { form := fun p => fam.steadyForm p, solver := mkSolver n kind }
        match runSteadyOps s n (ops.splitOn "|") with
        | none => "bad-op"
        | some outs => "|".intercalate outs
    | _, _ => "bad-op"
  | "time" :: n :: method :: kind :: ts :: rest =>
    match n.toNat?, parseVec ts, rest with
    | some n, some ts, [a0, a1, d, e, b0, b1, b, c0, c1, c, p] =>
      match parseVec p with
      | none => "bad-op"
      | some p =>
      match parseFam n p.length [a0, a1, d, e, b0, b1, b, c0, c1, c] with
      | none => "bad-op"
      | some fam =>
        if !(solverKinds.contains kind) then "bad-op" else
        match Method.ofString method with
        | none => "err:ValueError"
        | some m =>
          match solveTime n m (fam.form p) (mkSolver n kind) ts with
          | .error e => fmtErr e
          | .ok (levels, info) =>
            s!"ok {fmtMat (levels.map fun u => vecL n (rd u))} {fmtInfo info} {fmtVec (formCalls m ts)}"
    | _, _, _ => "bad-op"
  | ["grids", ops] =>
    match parseGridOps ops with
    | none => "bad-op"
    | some (_, _, trace) => "|".intercalate (trace.map fmtGrids)
  | ["obst", gops, ts, tobs, ndim, u, w, om] =>
    match parseGridOps gops, parseVec ts, parseTobs tobs, ndim.toNat?, parseOm om, interp2Of w with
    | some (g0, ops, _), some ts, some tobs, some ndim, some om, some interp =>
      let g := g0.run ops
      match resolveTimeObs ts tobs with
      | .error e => fmtErr e
      | .ok tobsR =>
        let br := branchTime g ts tobsR ndim
        if ndim != 2 then s!"{fmtBranch br} -" else
        match parseMat u with
        | none => "bad-op"
        | some U =>
          match observeTime g ts tobsR U interp om with
          | .error e => s!"{fmtBranch br} {fmtErr e}"
          | .ok a => s!"{fmtBranch br} {fmtArr a}"
    | _, _, _, _, _, _ => "bad-op"
  | ["obss", gops, u, w, om] =>
    match parseGridOps gops, parseVec u, parseOm om, interp1Of w with
    | some (g0, ops, _), some u, some om, some interp =>
      let g := g0.run ops
      let br := if g.equal then "direct" else "interp"
      match observeSteady g u interp om with
      | .error e => s!"{br} {fmtErr e}"
      | .ok a => s!"{br} {fmtArr a}"
    | _, _, _, _ => "bad-op"
  | "pipet" :: n :: method :: kind :: ts :: rest =>
    match n.toNat?, parseVec ts, rest with
    | some n, some ts, [a0, a1, d, e, b0, b1, b, c0, c1, c, p, gops, tobs, w, om] =>
      match parseVec p, parseGridOps gops, parseTobs tobs, parseOm om, interp2Of w with
      | some p, some (g0, ops, _), some tobs, some om, some interp =>
        match parseFam n p.length [a0, a1, d, e, b0, b1, b, c0, c1, c] with
        | none => "bad-op"
        | some fam =>
          if !(solverKinds.contains kind) then "bad-op" else
          match Method.ofString method, resolveTimeObs ts tobs with
          | none, _ => "err:ValueError"
          | _, .error e => fmtErr e
          | some m, .ok tobsR =>
            let g := g0.run ops
            let pde : PDEObj (List Q) (List (List Q)) (Arr Q) Q :=
              { solveFor := fun x => (solveTime n m (fam.form x) (mkSolver n kind) ts).map
                  fun (levels, info) => (levelsToU n levels, info)
                observe := fun U => observeTime g ts tobsR U interp om }
            match pdeModelForward pde p with
            | .error e => fmtErr e
            | .ok a => fmtArr a
      | _, _, _, _, _ => "bad-op"
    | _, _, _ => "bad-op"
  | "pipes" :: n :: kind :: rest =>
    match n.toNat?, rest with
    | some n, [a0, a1, d, e, b0, b1, b, c0, c1, c, p, gops, w, om] =>
      match parseVec p, parseGridOps gops, parseOm om, interp1Of w with
      | some p, some (g0, ops, _), some om, some interp =>
        match parseFam n p.length [a0, a1, d, e, b0, b1, b, c0, c1, c] with
        | none => "bad-op"
        | some fam =>
          if !(solverKinds.contains kind) then "bad-op" else
          let g := g0.run ops
          let pde : PDEObj (List Q) (List Q) (Arr Q) Q :=
            { solveFor := fun x =>
                let s : Steady (List Q) Q Q := { form := fun q => fam.steadyForm q, solver := mkSolver n kind }
                ((s.assemble x).solve).map fun (u, info) => (vecL n u, info)
              observe := fun u => observeSteady g u interp om }
          match pdeModelForward pde p with
          | .error e => fmtErr e
          | .ok a => fmtArr a
      | _, _, _, _ => "bad-op"
    | _, _ => "bad-op"
  | ["grad", cap, m, dir, j, g] =>
    match m.toNat?, parseVec dir with
    | some m, some dir =>
      let jac : Option (List (List Q)) := if j = "-" then none else parseMat j
      let gv : Option (List Q) := if g = "-" then none else parseVec g
      let ncols := match jac with | some (r :: _) => r.length | _ => 0
      let caps : Option (GradCaps Q) :=
        match cap, jac, gv with
        | "g", _, some gv => some { gradWrt := some fun _ _ => vecFn gv, jacWrt := none }
        | "j", some J, _ => some { gradWrt := none, jacWrt := some fun _ => matFn J }
        | "gj", some J, some gv => some { gradWrt := some fun _ _ => vecFn gv, jacWrt := some fun _ => matFn J }
        | "n", _, _ => some { gradWrt := none, jacWrt := none }
        | _, _, _ => none
      match caps with
      | none => "bad-op"
      | some caps =>
        if dir.length != m then "bad-op" else
        match gradientFunc m caps (vecFn dir) (vecFn []) with
        | .error e => fmtErr e
        | .ok v =>
          let len := match cap, gv with
            | "j", _ => ncols
            | _, some gv => gv.length
            | _, _ => 0
          fmtVec (vecL len v)
    | _, _ => "bad-op"
  | l => stepTP l

def main : IO Unit := runDriver step
