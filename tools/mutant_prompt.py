#!/usr/bin/env python3
"""Print the prompt given to an independent sub-agent that seeds a property-breaking change.
Only the property's text and the scratch worktree path are included (nothing from /verif)."""
import json, sys
pid, wt = sys.argv[1], sys.argv[2]
n = int(sys.argv[3]) if len(sys.argv) > 3 else 2
for l in open('/verif/properties.jsonl'):
    p = json.loads(l)
    if p['id'] == pid:
        break
print(f"""You are helping to evaluate a verification framework by mutation seeding. You work ONLY inside the scratch git worktree {wt} (a checkout of the CUQIpy Python library, package `cuqi`). Do not read or write anything under /verif or /repo. Run Python as `cd {wt} && /venv/bin/python ...` (this imports `cuqi` from the worktree; confirm with `import cuqi; print(cuqi.__file__)`). There is no network.

The library is supposed to satisfy this semantic property:

TITLE: {p['title']}
STATEMENT: {p['statement']}
QUANTIFIER: {p['quantifier']['text']}
RELEVANT FILES: {', '.join(p['anchors']['files'])}

Task: produce {n} DIFFERENT, independent source changes (mutants) to the library under {wt}/cuqi, each of which BREAKS this property while the library still imports and the existing test suite still passes. Make the changes realistic (the kind of slip a maintainer could make in a refactor or "optimisation"), and make them need something SPECIFIC to manifest: an unusual input or option combination, a particular parameterisation, a multi-step sequence of operations, a particular position/size/boundary, or two cooperating sites that each look fine alone. Do NOT make changes that ordinary use or the existing tests would expose at once. Each mutant should touch a different mechanism / code site.

For each mutant k = 1..{n}:
 1. Start from a clean worktree (`git -C {wt} checkout -- .`), make the change, save it as {wt}/mutants/m<k>/patch.diff (`git -C {wt} diff > ...`; create the directory; the mutants/ directory is untracked and survives checkout).
 2. Write a small demonstration program {wt}/mutants/m<k>/demo.py (plain python, exits non-zero / assertion error WITH the change and exits 0 WITHOUT it) that shows the property failing on a concrete input. Verify both directions yourself.
 3. Run the relevant existing tests with the change applied and confirm they pass: at minimum the test files touching the changed module(s), and preferably the whole suite: `cd {wt} && OMP_NUM_THREADS=1 OPENBLAS_NUM_THREADS=1 MKL_NUM_THREADS=1 /venv/bin/python -m pytest -q -p no:cacheprovider --timeout=900 -x -q tests 2>&1 | tail -5` (about 5 minutes, 1506 tests). A mutant that fails any existing test is not acceptable: rework it.
 4. Write {wt}/mutants/m<k>/meta.json with keys: property ("{pid}"), summary (what was changed), needs (what specific input/sequence/option is needed for it to manifest), files (changed files), tests_run (the command you ran and the result line).
IMPORTANT: never use `git stash` (the stash is shared by all worktrees of this repository and other agents are working in sibling worktrees) — to go back and forth use `git apply` / `git apply -R` on your patch file or `git checkout -- .`. Finally restore the worktree (`git -C {wt} checkout -- .`) and reply with a short list: for each mutant, one line of what was changed, what triggers it, and the test result line. Do not include anything else.""")
