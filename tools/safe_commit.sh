#!/bin/sh
# usage: tools/safe_commit.sh "message" — stages everything except extra theorem files (Props/Cxx_*.lean and their Proofs/Cxx_*.lean)
# that do not build yet (work in progress of a stretch builder), then commits.
cd /verif || exit 2
git add -A
for f in lean/CuqiVerif/Props/C??_*.lean; do
  [ -f "$f" ] || continue
  m=$(echo "$f" | sed 's#^lean/##; s/\.lean$//; s#/#.#g')
  if ! (cd lean && flock .build.lock lake build "$m" >/tmp/safe_commit_build.log 2>&1); then
    echo "excluding (does not build yet): $f"
    git reset -q -- "$f"
  fi
done
git commit -qm "$1" && git log --oneline | head -1
