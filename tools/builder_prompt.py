#!/usr/bin/env python3
import sys, json
pid = sys.argv[1]
extra = sys.argv[2] if len(sys.argv) > 2 else ""
for l in open('/verif/properties.jsonl'):
    p = json.loads(l)
    if p['id'] == pid: break
print(f"""You are building the verification check for property {pid} of the CUQIpy library inside /verif. Read /verif/tools/BUILDING.md FULLY first (conventions, files you own, API, how to run, rules), then /verif/DESIGN.md section "### {pid}" (the plan: Model / Theorems / Tie / Search / Not carried) and DESIGN.md §1 and §5 (known defects of the pinned tree relevant to {pid}), then the worked example C20 (lean/CuqiVerif/Model/C20.lean, lean/Driver/C20.lean, lean/CuqiVerif/Props/C20.lean, harness/props/c20.py, KNOWN_FINDINGS.jsonl), then the anchored source files in /repo.

PROPERTY {pid}: {p['title']}
STATEMENT: {p['statement']}
QUANTIFIER: {p['quantifier']['text']}
ANCHOR FILES: {', '.join(p['anchors']['files'])}

Deliverables (your files only, see BUILDING.md): lean/CuqiVerif/Model/{pid}.lean, lean/Driver/{pid}.lean, lean/CuqiVerif/Props/{pid}.lean (+ optional lean/CuqiVerif/Proofs/{pid}.lean), harness/props/{pid.lower()}.py, known/{pid}.jsonl, tools/claims.d/{pid}.json, docs/{pid}.md.

Order of work: (1) within the first ~60-90 minutes get a minimal end-to-end check running: a model of the core logic, a driver, a harness with a real generator + correspondence diff + oracle, one or two proved theorems, `./check {pid}` exits 0 on the unchanged tree with valid evidence and known findings listed; (2) then deepen: more of the code inside the model, the theorems of the DESIGN plan at full generality (for all sizes/inputs/histories — by induction/algebra, not by enumeration), better generators (structured, mostly-valid inputs plus a malformed stream; include the inputs of DESIGN §5), the failing-input search; (3) self-test detection with 2-3 hand-made breaking changes in a scratch copy of /repo under /tmp (CUQI_REPO=... ./check {pid}), strengthening the check where it misses; (4) write docs/{pid}.md and tools/claims.d/{pid}.json. Budget about 4 hours of work in total; quality over quantity; everything you leave must build with no sorry and `./check {pid}` must exit 0 in ≤ 3 minutes (quick) for seeds 0..3. The theorems must be genuinely about the executable model definitions the driver runs (or a generic version instantiated by them), and the model must genuinely transcribe what the code does (faithful, including its defects), so that a property-breaking change of the code shows up as a model/implementation disagreement or an oracle failure.
{extra}
Final reply (short): what the model covers, theorem names with one-line meanings, what the tie compares and case counts, known findings recorded (with keys), which hand-made breaking changes were detected, run time of quick, and anything from the DESIGN plan not delivered.""")
