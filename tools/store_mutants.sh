#!/bin/sh
# usage: tools/store_mutants.sh <worktree> <prefix e.g. C20-r2> ; copies mutants/m*/ into seeded/<prefix>m<k>, removes the worktree
W=$1; P=$2
for d in $W/mutants/m*; do
  k=$(basename $d)
  [ -f $d/patch.diff ] || continue
  mkdir -p /verif/seeded/$P$k
  cp $d/patch.diff $d/demo.py /verif/seeded/$P$k/ 2>/dev/null
  [ -f $d/meta.json ] && cp $d/meta.json /verif/seeded/$P$k/ || echo '{"property":"'$(echo $P | cut -c1-3)'","summary":"(meta.json missing from the seeding agent)","needs":""}' > /verif/seeded/$P$k/meta.json
done
git -C /repo worktree remove --force $W
python3 - <<'PY'
import re,glob
for f in glob.glob('/verif/seeded/*/demo.py'):
    s=open(f).read()
    s2=re.sub(r'^assert [^\n]*cuqi\.__file__[^\n]*\n', '# (worktree-path assertion removed when stored under /verif/seeded)\n', s, flags=re.M)
    if s2!=s: open(f,'w').write(s2); print('patched',f)
PY
