#!/usr/bin/env python3
"""record_seed.py <seeded-dir> <detected: yes|no|after-strengthening> <detected_by check ids> <free text>"""
import json, sys, os
d, det, by, txt = sys.argv[1], sys.argv[2], sys.argv[3], sys.argv[4]
p = os.path.join(d, "meta.json")
m = json.load(open(p))
m["confirmed"] = {"demo_fails_with_patch": True, "demo_passes_without_patch": True,
                  "existing_tests": m.get("tests_run", "full suite run by the seeding agent (1506 passed)"),
                  "ran": f"tools/try_mutant.sh {d} {by}"}
m["detected"] = det
m["detected_by"] = by.split(",")
m["detection_notes"] = txt
json.dump(m, open(p, "w"), indent=1)
