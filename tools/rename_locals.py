#!/usr/bin/env python3
"""rename_locals.py file.py ...  — renames local variables (plain assigned names that are not parameters / globals / nonlocals /
used in nested scopes) of every function in the given files by appending '_lv'. Behaviour preserving."""
import ast, sys, tokenize, io

def process(path):
    src = open(path).read()
    tree = ast.parse(src)
    edits = {}  # (lineno, col) -> newname
    class V(ast.NodeVisitor):
        def visit_FunctionDef(self, fn):
            self.handle(fn); 
        visit_AsyncFunctionDef = visit_FunctionDef
        def handle(self, fn):
            # skip functions with nested scopes (def/lambda/class/comprehension) or locals()/eval/exec/global/nonlocal use
            for n in ast.walk(fn):
                if n is not fn and isinstance(n, (ast.FunctionDef, ast.AsyncFunctionDef, ast.Lambda, ast.ClassDef, ast.ListComp, ast.SetComp, ast.DictComp, ast.GeneratorExp, ast.Global, ast.Nonlocal)):
                    # still recurse into nested defs as separate candidates
                    for c in ast.iter_child_nodes(fn):
                        self.visit(c)
                    return
                if isinstance(n, ast.Call) and isinstance(n.func, ast.Name) and n.func.id in ("locals", "eval", "exec", "vars", "dir"):
                    return
            params = {a.arg for a in fn.args.args + fn.args.kwonlyargs + fn.args.posonlyargs}
            if fn.args.vararg: params.add(fn.args.vararg.arg)
            if fn.args.kwarg: params.add(fn.args.kwarg.arg)
            stores = set()
            for n in (m for st in fn.body for m in ast.walk(st)):
                if isinstance(n, ast.Name) and isinstance(n.ctx, (ast.Store, ast.Del)):
                    stores.add(n.id)
                if isinstance(n, (ast.Import, ast.ImportFrom)):
                    for a in n.names:
                        params.add((a.asname or a.name).split(".")[0])
                if isinstance(n, ast.ExceptHandler) and n.name:
                    params.add(n.name)
            loc = {s for s in stores if s not in params and not s.startswith("__")}
            for n in (m for st in fn.body for m in ast.walk(st)):
                if isinstance(n, ast.Name) and n.id in loc:
                    edits[(n.lineno, n.col_offset)] = n.id + "_lv"
    V().visit(tree)
    if not edits:
        return 0
    lines = src.split("\n")
    # apply edits right-to-left per line
    byline = {}
    for (ln, col), new in edits.items():
        byline.setdefault(ln, []).append((col, new))
    for ln, lst in byline.items():
        s = lines[ln - 1]
        # ast col offsets are in utf8 bytes
        b = s.encode("utf8")
        for col, new in sorted(lst, reverse=True):
            old = new[:-3].encode()
            assert b[col:col + len(old)] == old, (path, ln, col, b[col:col+20], old)
            b = b[:col] + new.encode() + b[col + len(old):]
        lines[ln - 1] = b.decode("utf8")
    new_src = "\n".join(lines)
    ast.parse(new_src)
    open(path, "w").write(new_src)
    return len(edits)

for p in sys.argv[1:]:
    try:
        print(p, process(p))
    except AssertionError as e:
        print("SKIP", p, e)
