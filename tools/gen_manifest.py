#!/usr/bin/env python3
"""Regenerates MANIFEST.json from tools/claims.json (per-property claim text) — keeps it schema-valid."""
import json, os
V = os.path.dirname(os.path.dirname(os.path.abspath(__file__)))
claims = json.load(open(os.path.join(V, "tools", "claims.json")))
import glob
for f in sorted(glob.glob(os.path.join(V, "tools", "claims.d", "*.json"))):
    claims.update(json.load(open(f)))
props = [json.loads(l)["id"] for l in open(os.path.join(V, "properties.jsonl"))]
import re as _re
def extra_files_note(pid):
    fs = sorted(glob.glob(os.path.join(V, "lean", "CuqiVerif", "Props", f"{pid}_*.lean")))
    if not fs:
        return ""
    parts = []
    for f in fs:
        n = len(_re.findall(r"^\s*theorem\s+\S+", open(f).read(), _re.M))
        parts.append(f"{os.path.basename(f)} ({n} theorems)")
    return " Further audited theorem files (second pass, see the matching sections of docs/" + pid + ".md): " + ", ".join(parts) + "."
ready = set(open(os.path.join(V, "tools", "ready.txt")).read().split())
checks, na = [], []
for pid in props:
    c = claims.get(pid)
    if c and c.get("claimed") and pid in ready:
        checks.append({
            "property_id": pid,
            "quick_cmd": f"./check {pid} --tier quick",
            "thorough_cmd": f"./check {pid} --tier thorough",
            "evidence_file": f"evidence/{pid}.json",
            "replay_cmd_template": f"./check {pid} --replay {{path}}",
            "engine": "lean4-proof+correspondence",
            "level_claimed": {"category": "proof", "text": c["text"] + extra_files_note(pid), "design_ref": c.get("design_ref", f"DESIGN.md §2 {pid}, §9, docs/{pid}.md")},
            "level_note": c["note"],
            "technique": c.get("technique", "Lean 4 theorems about a hand-written model + differential correspondence check against /repo"),
        })
    else:
        na.append({"property_id": pid, "reason": (c or {}).get("reason", "check not built yet in this round (planned: Lean 4 model + correspondence, see DESIGN.md §2)")})
import subprocess
try:
    fixes = [l.strip() for l in subprocess.run(["git", "-C", "/repo", "log", "--format=%h %s"], capture_output=True, text=True).stdout.splitlines() if " fix:" in l or l.split(" ", 1)[-1].startswith("fix:")]
except Exception:
    fixes = []
m = {
    "version": 1,
    "setup_cmd": "./setup.sh",
    "hooks": {"guard": "CUQIPY_VERIF", "enable": "no source hooks: the harness monkeypatches at run time; checks import cuqi from /repo's working tree with CUQIPY_VERIF=1 set (unused by the repo)",
              "baseline_off_cmd": "cd /repo && /venv/bin/python -m pytest -ra -q -p no:cacheprovider --timeout=900 --continue-on-collection-errors",
              "source_commits": [], "add_only": True},
    "engines": [{"name": "lean4-proof+correspondence", "path": "lean/ + harness/", "serves_properties": [c["property_id"] for c in checks],
                 "kind_free_text": "Lean 4.33 + Mathlib theorems over executable models (lean/CuqiVerif), tied to /repo by line-protocol differential checks (harness/props) and an AST table translator (harness/translate)"}],
    "checks": checks,
    "notes": "All checks: ./check Cxx --tier quick|thorough; VERIF_SEED respected; KNOWN_FINDINGS.jsonl (+ known/Cxx.jsonl, same format) list genuine defects of the pinned tree (printed as KNOWN-FINDING, exit 0) and 'fixed' records for the defects repaired in /repo by these unguarded fix: commits: " + "; ".join(fixes) + ". No source hooks were added to /repo (hooks.source_commits is empty).",
    "not_applicable": na,
}
json.dump(m, open(os.path.join(V, "MANIFEST.json"), "w"), indent=1)
print("claimed:", [c["property_id"] for c in checks])
