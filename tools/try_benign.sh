#!/bin/sh
# usage: tools/try_benign.sh <dir with patch.diff> [Cxx ...]   (default: all 20)
# Applies a behaviour-preserving patch to a scratch copy of /repo and runs the quick checks against it: every check must exit 0
# (a non-zero exit is a FALSE ALARM of the machinery). Evidence files are saved/restored.
S=$(readlink -f "$1"); shift
[ $# -eq 0 ] && set -- C01 C02 C03 C04 C05 C06 C07 C08 C09 C10 C11 C12 C13 C14 C15 C16 C17 C18 C19 C20
R=/tmp/benrepo.$$
rm -rf $R; mkdir -p $R; rsync -a --exclude .git /repo/ $R/
cd $R && git init -q . >/dev/null 2>&1
git apply --check "$S/patch.diff" 2>/dev/null || { echo "PATCH DOES NOT APPLY"; rm -rf $R; exit 2; }
git apply "$S/patch.diff"
mkdir -p /tmp/ev_save.$$; cp /verif/evidence/*.json /tmp/ev_save.$$/ 2>/dev/null
n=$(basename $S)
echo "$@" | tr ' ' '\n' | xargs -P 5 -I{} sh -c "cd /verif && CUQI_REPO=$R ./check {} > /tmp/ben_${n}_{}.out 2>&1; rc=\$?; [ \$rc -ne 0 ] && { echo \"$n {} FALSE-ALARM exit=\$rc\"; grep -E '^VIOLATION|machinery' /tmp/ben_${n}_{}.out | cut -c1-220 | head -4; }; true"
echo "$n done"
cp /tmp/ev_save.$$/*.json /verif/evidence/ 2>/dev/null; rm -rf /tmp/ev_save.$$
rm -rf $R
# restore the generated tables for /repo
cd /verif/lean && /venv/bin/python ../harness/translate/ast_tables.py /repo CuqiVerif/Generated >/dev/null 2>&1
