#!/usr/bin/env python3
"""run_seeds.py [names...]  — runs tools/try_mutant.sh for the named seeded dirs (default: those without a 'detected' field),
prints one summary line each and stores the raw outcome in meta.json under 'last_run'."""
import sys, os, json, subprocess, glob, re
V = os.path.dirname(os.path.dirname(os.path.abspath(__file__)))
names = sys.argv[1:] or [os.path.basename(d) for d in sorted(glob.glob(os.path.join(V, "seeded", "*"))) if "detected" not in json.load(open(os.path.join(d, "meta.json")))]
for n in names:
    d = os.path.join(V, "seeded", n)
    pid = n[:3]
    r = subprocess.run([os.path.join(V, "tools", "try_mutant.sh"), d, pid], capture_output=True, text=True)
    out = r.stdout + r.stderr
    demo_with = re.search(r"demo exit with patch \(want !=0\): (\d+)", out)
    demo_wo = re.search(r"demo exit without patch \(want 0\): (\d+)", out)
    chk = re.search(r"check \S+ exit \(want 1\): (\d+)", out)
    viol = re.findall(r"^VIOLATION.*$", out, re.M)
    with_input = [v for v in viol if not v.rstrip().endswith("no-failing-input-found")]
    status = "PATCH-FAIL" if "PATCH DOES NOT APPLY" in out else ("detected" if chk and chk.group(1) == "1" and with_input else "detected-no-input" if chk and chk.group(1) == "1" else "MISSED")
    print(f"{n}: {status} demo_with={demo_with.group(1) if demo_with else '?'} demo_without={demo_wo.group(1) if demo_wo else '?'} violations={len(viol)} with_input={len(with_input)}  {with_input[0][:140] if with_input else (viol[0][:140] if viol else '')}", flush=True)
    mp = os.path.join(d, "meta.json")
    m = json.load(open(mp))
    hist = m.setdefault("run_history", [])
    hist.append(status)
    if status in ("detected", "detected-no-input"):
        was_missed = any(h in ("MISSED", "detected-no-input") for h in hist[:-1]) or m.get("detected") == "after-strengthening"
        m["detected"] = ("after-strengthening" if was_missed else "yes") if status == "detected" else "tie-only (no failing input exhibited)"
        m["detected_by"] = [pid]
        m.setdefault("confirmed", {"demo_fails_with_patch": True, "demo_passes_without_patch": True,
                                   "existing_tests": m.get("tests_run", "full suite run by the seeding agent (1506 passed)"),
                                   "ran": f"tools/try_mutant.sh seeded/{n} {pid}"})
    elif status == "MISSED":
        m["detected"] = "no"
    m["last_run"] = {"status": status, "demo_exit_with_patch": demo_with and int(demo_with.group(1)), "demo_exit_without_patch": demo_wo and int(demo_wo.group(1)),
                     "violation_lines": viol[:6]}
    json.dump(m, open(mp, "w"), indent=1)
