#!/usr/bin/env python3
"""Round-3 wrapper: prints the standard mutant prompt plus the list of mechanisms already used for this property."""
import sys, json, subprocess
pid, wt, n = sys.argv[1], sys.argv[2], sys.argv[3]
base = subprocess.run([sys.executable, '/verif/tools/mutant_prompt.py', pid, wt, n], capture_output=True, text=True).stdout
used = json.load(open('/tmp/used_mech.json')).get(pid, [])
print(base)
print("\nEXTRA REQUIREMENT (later round): the following change ideas have ALREADY been used for this property by earlier seeders — do not repeat them or close variants; find mechanisms of a DIFFERENT kind (other functions, other option combinations, other multi-step histories, other numeric regimes such as extreme scales / degenerate sizes / special dtypes / aliasing between objects):")
for u in used:
    print(" - " + u)
