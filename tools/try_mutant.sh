#!/bin/sh
# usage: tools/try_mutant.sh <seeded-dir> <Cxx> [more check ids]
# applies seeded/<dir>/patch.diff to /repo, runs demo.py (must fail) and the checks (should report VIOLATION), reverts, re-runs demo (must pass).
S=$1; shift
cd /repo || exit 2
[ -z "$(git status --porcelain)" ] || { echo "/repo not clean"; exit 2; }
git apply --check "$S/patch.diff" || { echo "PATCH DOES NOT APPLY"; exit 2; }
git apply "$S/patch.diff"
(cd /repo && OMP_NUM_THREADS=1 /venv/bin/python "$S/demo.py" >/tmp/demo.out 2>&1; echo "demo exit with patch (want !=0): $?"; grep -m1 "cuqi from" /tmp/demo.out)
for c in "$@"; do
  (cd /verif && ./check $c > /tmp/mut_$c.out 2>&1; echo "check $c exit (want 1): $?"; grep -E "^VIOLATION|^\\[C" /tmp/mut_$c.out | cut -c1-200 | head -6)
done
git -C /repo checkout -- .
(cd /repo && OMP_NUM_THREADS=1 /venv/bin/python "$S/demo.py" >/tmp/demo0.out 2>&1; echo "demo exit without patch (want 0): $?")
git -C /repo status --short | head -3
