#!/bin/sh
# usage: tools/try_mutant.sh <seeded-dir> <Cxx> [more check ids]
# Applies seeded/<dir>/patch.diff to a scratch copy of /repo (so concurrent work on /repo is not disturbed), runs demo.py
# (must fail) and the checks with CUQI_REPO pointing at the copy (should report VIOLATION), then runs the demo on /repo (must pass).
# Evidence files are saved and restored (evidence must come from runs against /repo itself).
# With TRY_IN_PLACE=1 the patch is applied to /repo itself and reverted afterwards (the procedure of the brief).
S=$(readlink -f "$1"); shift
if [ "$TRY_IN_PLACE" = "1" ]; then
  R=/repo
  cd /repo || exit 2
  [ -z "$(git status --porcelain)" ] || { echo "/repo not clean"; exit 2; }
else
  R=/tmp/mutrepo.$$
  rm -rf $R; mkdir -p $R; rsync -a --exclude .git /repo/ $R/
  cd $R && git init -q . >/dev/null 2>&1
fi
cd $R
git apply --check "$S/patch.diff" 2>/dev/null || { echo "PATCH DOES NOT APPLY"; [ "$R" != /repo ] && rm -rf $R; exit 2; }
git apply "$S/patch.diff"
mkdir -p /tmp/ev_save.$$; cp /verif/evidence/*.json /tmp/ev_save.$$/ 2>/dev/null
(cd $R && PYTHONPATH=$R OMP_NUM_THREADS=1 /venv/bin/python "$S/demo.py" >/tmp/demo.out 2>&1; echo "demo exit with patch (want !=0): $?"; grep -m1 "cuqi from" /tmp/demo.out)
for c in "$@"; do
  (cd /verif && CUQI_REPO=$R ./check $c > /tmp/mut_$c.out 2>&1; echo "check $c exit (want 1): $?"; grep -E "^VIOLATION|^\[C" /tmp/mut_$c.out | cut -c1-200 | head -6)
done
cp /tmp/ev_save.$$/*.json /verif/evidence/ 2>/dev/null; rm -rf /tmp/ev_save.$$
if [ "$R" = /repo ]; then git -C /repo checkout -- .; else rm -rf $R; fi
(cd /repo && OMP_NUM_THREADS=1 /venv/bin/python "$S/demo.py" >/tmp/demo0.out 2>&1; echo "demo exit without patch (want 0): $?")
