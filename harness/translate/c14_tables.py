#!/usr/bin/env python3
"""C14 translator: c14_tables.py <repo> <outdir>  ->  <outdir>/C14Tables.lean

Reads (by AST only, never importing cuqi)
  * cuqi/experimental/mcmc/_*.py : for every sampler class of the stateful interface
      - `_STATE_KEYS`, `_HISTORY_KEYS` (evaluating `Base._KEYS.union({...})`),
      - attributes of `self` written by the constructor chain / by `initialize` (+ `_initialize`),
      - those written at initialisation from an expression that involves a random source
        (np.random.*, `.sample(`, `estimate_spectral_norm`, or a tainted attribute / method),
      - "carried reads" of `step`, `_pre_sample`: attributes of `self` read before the method has
        unconditionally (top-level statement) assigned them, following `self.m()` calls, `super()`
        calls, property getters/setters and closures stored in attributes,
      - reads/writes of `tune`, `_pre_warmup`, writes of `step`,
      - attributes mutated in place by `step` (`self.a[i] = `, `self.a += `, alias `x = self.a; x[i] = `),
        `.append` on an attribute is recorded separately (history growth),
    all with property names canonicalised to the underlying attributes (`scale` -> `_scale`);
  * cuqi/sampler/_*.py : for every sampler class of the stateless interface, for `_sample` and
    `_sample_adapt`: does the transition loop call `self._call_callback`, does it hand a *view*
    (`samples[:, s]`) to `single_update`, and does `single_update` store through that parameter.

The output is human-readable Lean data; `Props/C14.lean` proves the per-class cover facts over it
by `decide`, so they are re-checked against the current source on every run.
"""
import ast, os, sys, glob

RANDOM_CALLS = {"estimate_spectral_norm", "sample", "rvs", "rand", "randn", "standard_normal", "normal",
                "exponential", "uniform", "randint", "choice", "random"}
# `sample`/`warmup`/`load_checkpoint` call `_ensure_initialized()` before anything else, so inside
# `_pre_sample`/`_pre_warmup` the call is a no-op and is not followed
SKIP_METHODS = {"_ensure_initialized"}
MUTATING_METHODS = {"extend", "pop", "insert", "remove", "sort", "reverse", "clear", "fill", "resize", "put", "itemset"}


# ------------------------------------------------------------------------------ class database
class ClassInfo:
    def __init__(self, name, node, bases):
        self.name, self.node, self.bases = name, node, bases
        self.methods, self.getters, self.setters, self.assigns = {}, {}, {}, {}
        for st in node.body:
            if isinstance(st, ast.FunctionDef):
                kind = "method"
                for d in st.decorator_list:
                    if isinstance(d, ast.Name) and d.id == "property":
                        kind = "getter"
                    elif isinstance(d, ast.Attribute) and d.attr == "setter":
                        kind = "setter"
                    elif isinstance(d, ast.Attribute) and d.attr == "getter":
                        kind = "getter"
                {"method": self.methods, "getter": self.getters, "setter": self.setters}[kind][st.name] = st
            elif isinstance(st, ast.Assign) and len(st.targets) == 1 and isinstance(st.targets[0], ast.Name):
                self.assigns[st.targets[0].id] = st.value


def load_classes(files):
    db = {}
    for f in files:
        tree = ast.parse(open(f).read(), filename=f)
        for st in tree.body:
            if isinstance(st, ast.ClassDef):
                bases = [b.id for b in st.bases if isinstance(b, ast.Name)]
                db[st.name] = ClassInfo(st.name, st, bases)
    return db


def mro(db, name):
    out = []
    def go(n):
        if n in db and n not in out:
            out.append(n)
            for b in db[n].bases:
                go(b)
    go(name)
    return out


def lookup(db, cls, kind, name, after=None):
    """first class in the MRO of `cls` (strictly after `after` if given) defining `name` of `kind`"""
    chain = mro(db, cls)
    if after is not None and after in chain:
        chain = chain[chain.index(after) + 1:]
    for c in chain:
        d = getattr(db[c], kind)
        if name in d:
            return c, d[name]
    return None, None


def is_property(db, cls, name):
    return lookup(db, cls, "getters", name)[1] is not None


def eval_keys(db, cls, attr):
    """evaluate `_STATE_KEYS`-like class attributes: set/list literals, Base.attr, X.union(Y)"""
    def ev(node, owner):
        if isinstance(node, (ast.Set, ast.List, ast.Tuple)):
            return {e.value for e in node.elts if isinstance(e, ast.Constant)}
        if isinstance(node, ast.Attribute) and isinstance(node.value, ast.Name) and node.value.id in db:
            return eval_keys(db, node.value.id, node.attr)
        if isinstance(node, ast.Name):
            return eval_keys(db, owner, node.id)
        if isinstance(node, ast.Call) and isinstance(node.func, ast.Attribute) and node.func.attr == "union":
            s = ev(node.func.value, owner)
            for a in node.args:
                s = s | ev(a, owner)
            return s
        raise ValueError(f"cannot evaluate {attr} of {cls}: {ast.dump(node)[:80]}")
    for c in mro(db, cls):
        if attr in db[c].assigns:
            return ev(db[c].assigns[attr], c)
    return set()


# ------------------------------------------------------------------------------ effect analysis
class Effects:
    def __init__(self):
        self.reads, self.writes, self.mutates, self.appends, self.carried = set(), set(), set(), set(), set()
        self.random = False


def is_self(node):
    return isinstance(node, ast.Name) and node.id == "self"


def self_attr(node):
    """'a' if node is `self.a`"""
    if isinstance(node, ast.Attribute) and is_self(node.value):
        return node.attr
    return None


class Analyzer:
    def __init__(self, db, cls):
        self.db, self.cls = db, cls
        self.closures = {}     # attr -> Effects of the nested function/lambda stored in it
        self._collect_closures()

    # closures: `self.M = M` where M is a nested def, or `self.f = lambda ...`
    def _collect_closures(self):
        for c in mro(self.db, self.cls):
            for m in list(self.db[c].methods.values()):
                nested = {n.name: n for n in ast.walk(m) if isinstance(n, ast.FunctionDef) and n is not m}
                for st in ast.walk(m):
                    if isinstance(st, ast.Assign) and len(st.targets) == 1:
                        a = self_attr(st.targets[0])
                        if a is None:
                            continue
                        fn = None
                        if isinstance(st.value, ast.Name) and st.value.id in nested:
                            fn = nested[st.value.id]
                        elif isinstance(st.value, ast.Lambda):
                            fn = st.value
                        if fn is not None and a not in self.closures:
                            self.closures[a] = (c, fn)

    def method_effects(self, name, owner_after=None, stack=()):
        owner, fn = lookup(self.db, self.cls, "methods", name, after=owner_after)
        eff = Effects()
        if fn is None:
            return eff
        self._body(fn.body, owner, eff, stack + ((owner, name),), set(), toplevel=True)
        return eff

    # -- statements, in order, tracking attributes definitely assigned at top level
    def _body(self, stmts, owner, eff, stack, assigned, toplevel):
        aliases = {}
        for st in stmts:
            self._stmt(st, owner, eff, stack, assigned, toplevel, aliases)

    def _stmt(self, st, owner, eff, stack, assigned, toplevel, aliases):
        if isinstance(st, (ast.FunctionDef, ast.Lambda)):
            return  # nested definitions are accounted where the closure attribute is read
        if isinstance(st, ast.Assign):
            self._expr(st.value, owner, eff, stack, assigned, aliases)
            for t in st.targets:
                self._target(t, st.value, owner, eff, stack, assigned, toplevel, aliases)
            return
        if isinstance(st, ast.AugAssign):
            self._expr(st.value, owner, eff, stack, assigned, aliases)
            a = self_attr(st.target)
            if a is not None:
                self._read(a, owner, eff, stack, assigned)
                for k in self._canon(a):
                    eff.writes.add(k); eff.mutates.add(k)
            elif isinstance(st.target, ast.Name) and st.target.id in aliases:
                eff.mutates.add(aliases[st.target.id])
            elif isinstance(st.target, ast.Subscript):
                self._store_subscript(st.target, owner, eff, stack, assigned, aliases)
            return
        if isinstance(st, ast.If) and self._is_default_fill(st):
            # `if self.a is None: self.a = <default>` : idempotent normalisation of a configuration
            # attribute (same result on every sampler of equal configuration); reads only
            self._expr(st.test, owner, eff, stack, assigned, aliases)
            for s in st.body:
                self._expr(s.value, owner, eff, stack, set(assigned), aliases)
            return
        if isinstance(st, (ast.If, ast.While)):
            self._expr(st.test, owner, eff, stack, assigned, aliases)
            for b in (st.body, st.orelse):
                inner = set(assigned)
                for s in b:
                    self._stmt(s, owner, eff, stack, inner, False, aliases)
            return
        if isinstance(st, ast.For):
            self._expr(st.iter, owner, eff, stack, assigned, aliases)
            for b in (st.body, st.orelse):
                inner = set(assigned)
                for s in b:
                    self._stmt(s, owner, eff, stack, inner, False, aliases)
            return
        if isinstance(st, ast.Try):
            for b in [st.body, st.orelse, st.finalbody] + [h.body for h in st.handlers]:
                inner = set(assigned)
                for s in b:
                    self._stmt(s, owner, eff, stack, inner, False, aliases)
            return
        if isinstance(st, ast.With):
            for it in st.items:
                self._expr(it.context_expr, owner, eff, stack, assigned, aliases)
            for s in st.body:
                self._stmt(s, owner, eff, stack, assigned, toplevel, aliases)
            return
        for child in ast.iter_child_nodes(st):
            if isinstance(child, ast.expr):
                self._expr(child, owner, eff, stack, assigned, aliases)

    @staticmethod
    def _is_default_fill(st):
        t = st.test
        if not (isinstance(t, ast.Compare) and len(t.ops) == 1 and isinstance(t.ops[0], ast.Is)
                and isinstance(t.comparators[0], ast.Constant) and t.comparators[0].value is None):
            return False
        a = self_attr(t.left)
        if a is None or st.orelse or not st.body:
            return False
        return all(isinstance(s, ast.Assign) and len(s.targets) == 1 and self_attr(s.targets[0]) == a for s in st.body)

    def _target(self, t, value, owner, eff, stack, assigned, toplevel, aliases):
        if isinstance(t, (ast.Tuple, ast.List)):
            for e in t.elts:
                self._target(e, None, owner, eff, stack, assigned, toplevel, aliases)
            return
        a = self_attr(t)
        if a is not None:
            so, sfn = lookup(self.db, self.cls, "setters", a)
            if sfn is not None and (so, "set:" + a) not in stack:
                self._body(sfn.body, so, eff, stack + ((so, "set:" + a),), set(assigned), toplevel=False)
            elif sfn is None:
                eff.writes.add(a)
                if toplevel:
                    assigned.add(a)
            return
        if isinstance(t, ast.Name):
            aliases.pop(t.id, None)
            if value is not None:
                va = self_attr(value)
                if va is not None:
                    for k in self._canon(va):
                        aliases[t.id] = k
            return
        if isinstance(t, ast.Subscript):
            self._store_subscript(t, owner, eff, stack, assigned, aliases)
            return
        if isinstance(t, ast.Attribute):   # self.a.b = v  : mutation of the object held in a
            base = t.value
            a = self_attr(base)
            if a is not None:
                self._read(a, owner, eff, stack, assigned)
                for k in self._canon(a):
                    eff.mutates.add(k)
            else:
                self._expr(base, owner, eff, stack, assigned, aliases)

    def _store_subscript(self, t, owner, eff, stack, assigned, aliases):
        self._expr(t.slice, owner, eff, stack, assigned, aliases)
        base = t.value
        a = self_attr(base)
        if a is not None:
            self._read(a, owner, eff, stack, assigned)
            for k in self._canon(a):
                eff.mutates.add(k)
        elif isinstance(base, ast.Name) and base.id in aliases:
            eff.mutates.add(aliases[base.id])
        else:
            self._expr(base, owner, eff, stack, assigned, aliases)

    # -- expressions
    def _expr(self, e, owner, eff, stack, assigned, aliases):
        if e is None:
            return
        if isinstance(e, ast.Lambda):
            return
        if isinstance(e, ast.Call):
            f = e.func
            # self.m(...)
            if isinstance(f, ast.Attribute) and is_self(f.value):
                self._call_self(f.attr, None, owner, eff, stack, assigned)
                for a in list(e.args) + [k.value for k in e.keywords]:
                    self._expr(a, owner, eff, stack, assigned, aliases)
                return
            # super().m(...)
            if isinstance(f, ast.Attribute) and isinstance(f.value, ast.Call) and isinstance(f.value.func, ast.Name) and f.value.func.id == "super":
                self._call_self(f.attr, owner, owner, eff, stack, assigned)
                for a in list(e.args) + [k.value for k in e.keywords]:
                    self._expr(a, owner, eff, stack, assigned, aliases)
                return
            # self.a.append(x) and other in-place methods on an attribute
            if isinstance(f, ast.Attribute) and self_attr(f.value) is not None:
                a = self_attr(f.value)
                if f.attr == "append":
                    for k in self._canon(a):
                        eff.appends.add(k)
                    for x in list(e.args) + [k.value for k in e.keywords]:
                        self._expr(x, owner, eff, stack, assigned, aliases)
                    return
                if f.attr in MUTATING_METHODS:
                    for k in self._canon(a):
                        eff.mutates.add(k)
            if isinstance(f, ast.Attribute) and f.attr in RANDOM_CALLS:
                eff.random = True
            if isinstance(f, ast.Name) and f.id in RANDOM_CALLS:
                eff.random = True
            # hasattr(self, "x") / getattr(self, "x")
            if isinstance(f, ast.Name) and f.id in ("hasattr", "getattr") and e.args and is_self(e.args[0]):
                if len(e.args) > 1 and isinstance(e.args[1], ast.Constant) and isinstance(e.args[1].value, str):
                    self._read(e.args[1].value, owner, eff, stack, assigned)
                return
        a = self_attr(e)
        if a is not None and isinstance(e.ctx, ast.Load):
            self._read(a, owner, eff, stack, assigned)
            return
        for child in ast.iter_child_nodes(e):
            if isinstance(child, ast.expr):
                self._expr(child, owner, eff, stack, assigned, aliases)
            elif isinstance(child, ast.comprehension):
                self._expr(child.iter, owner, eff, stack, assigned, aliases)
                for c in child.ifs:
                    self._expr(c, owner, eff, stack, assigned, aliases)
            elif isinstance(child, ast.keyword):
                self._expr(child.value, owner, eff, stack, assigned, aliases)

    def _call_self(self, name, after, owner, eff, stack, assigned):
        if name in SKIP_METHODS:
            return
        mo, fn = lookup(self.db, self.cls, "methods", name, after=after)
        if fn is None:
            # calling a callable stored in an attribute (self.M(x, 1), self.Lk_fun(x), self.proposal(...))
            self._read(name, owner, eff, stack, assigned)
            return
        if (mo, name) in stack:
            return
        self._body(fn.body, mo, eff, stack + ((mo, name),), set(assigned), toplevel=False)

    def _canon(self, a):
        """underlying attributes of a (property) name"""
        go, gfn = lookup(self.db, self.cls, "getters", a)
        if gfn is None:
            return {a}
        sub = Effects()
        self._body(gfn.body, go, sub, ((go, "get:" + a),), set(), toplevel=False)
        return set(sub.reads) or {a}

    def _read(self, a, owner, eff, stack, assigned):
        go, gfn = lookup(self.db, self.cls, "getters", a)
        if gfn is not None:
            if (go, "get:" + a) in stack:
                return
            self._body(gfn.body, go, eff, stack + ((go, "get:" + a),), set(assigned), toplevel=False)
            return
        mo, mfn = lookup(self.db, self.cls, "methods", a)
        if mfn is not None:
            return   # bound method object, no data
        eff.reads.add(a)
        if a not in assigned:
            eff.carried.add(a)
        if a in self.closures and ("closure", a) not in stack:
            co, fn = self.closures[a]
            body = fn.body if isinstance(fn.body, list) else [ast.Expr(fn.body)]
            self._body(body, co, eff, stack + (("closure", a),), set(assigned), toplevel=False)


def init_random_attrs(db, cls):
    """attributes written during `initialize` from an expression involving a random source (fixpoint)"""
    an = Analyzer(db, cls)
    # collect assignment statements of all methods reachable from `initialize`
    reach, todo = [], ["initialize"]
    seen = set()
    while todo:
        m = todo.pop()
        if m in seen:
            continue
        seen.add(m)
        o, fn = lookup(db, cls, "methods", m)
        if fn is None:
            continue
        reach.append((m, fn))
        for n in ast.walk(fn):
            if isinstance(n, ast.Call) and isinstance(n.func, ast.Attribute) and (is_self(n.func.value) or (
                    isinstance(n.func.value, ast.Call) and isinstance(n.func.value.func, ast.Name) and n.func.value.func.id == "super")):
                todo.append(n.func.attr)
    # method-level taint: body contains a random call, directly or through self-calls
    def method_random(name, stack=()):
        o, fn = lookup(db, cls, "methods", name)
        if fn is None or name in stack:
            return False
        for n in ast.walk(fn):
            if isinstance(n, ast.Call):
                f = n.func
                if isinstance(f, ast.Attribute) and is_self(f.value):
                    if method_random(f.attr, stack + (name,)):
                        return True
                elif isinstance(f, ast.Attribute) and f.attr in RANDOM_CALLS and f.attr not in ("sample",):
                    return True
                elif isinstance(f, ast.Attribute) and f.attr == "sample":
                    return True
                elif isinstance(f, ast.Name) and f.id in RANDOM_CALLS:
                    return True
        return False
    tainted = set()
    changed = True
    while changed:
        changed = False
        for m, fn in reach:
            for st in ast.walk(fn):
                if not isinstance(st, ast.Assign):
                    continue
                tgt = []
                for t in st.targets:
                    for e in (t.elts if isinstance(t, (ast.Tuple, ast.List)) else [t]):
                        a = self_attr(e)
                        if a is not None:
                            tgt.append(a)
                if not tgt:
                    continue
                bad = False
                for n in ast.walk(st.value):
                    if isinstance(n, ast.Call):
                        f = n.func
                        if isinstance(f, ast.Attribute) and is_self(f.value) and method_random(f.attr):
                            bad = True
                        elif isinstance(f, ast.Attribute) and not is_self(f.value) and f.attr in RANDOM_CALLS:
                            bad = True
                        elif isinstance(f, ast.Name) and f.id in RANDOM_CALLS:
                            bad = True
                    a = self_attr(n)
                    if a is not None and any(k in tainted for k in an._canon(a)):
                        bad = True
                if bad:
                    for a in tgt:
                        for k in an._canon(a):
                            if k not in tainted:
                                tainted.add(k); changed = True
    return tainted


def experimental_tables(repo):
    files = sorted(glob.glob(os.path.join(repo, "cuqi", "experimental", "mcmc", "_*.py")))
    db = load_classes(files)
    out = []
    for name in sorted(db):
        chain = mro(db, name)
        if "Sampler" not in chain or name in ("Sampler", "ProposalBasedSampler"):
            continue
        an = Analyzer(db, name)
        canon = lambda ks: sorted({c for k in ks for c in an._canon(k)})
        state = eval_keys(db, name, "_STATE_KEYS")
        hist = eval_keys(db, name, "_HISTORY_KEYS")
        ctor = an.method_effects("__init__")
        init = an.method_effects("initialize")
        step = an.method_effects("step")
        tune = an.method_effects("tune")
        pre = an.method_effects("_pre_sample")
        prew = an.method_effects("_pre_warmup")
        out.append({
            "name": name,
            "stateKeysRaw": sorted(state), "historyKeysRaw": sorted(hist),
            "stateKeys": canon(state), "historyKeys": canon(hist),
            "ctorKeys": sorted(ctor.writes), "initKeys": sorted(init.writes),
            "randomInitKeys": sorted(init_random_attrs(db, name)),
            "stepCarried": sorted(step.carried - {"_is_initialized"}), "stepReads": sorted(step.reads), "stepWrites": sorted(step.writes),
            "stepMutates": sorted(step.mutates), "stepAppends": sorted(step.appends),
            "tuneReads": sorted(tune.reads), "tuneWrites": sorted(tune.writes),
            "preSampleCarried": sorted(pre.carried - {"_is_initialized"}), "preSampleWrites": sorted(pre.writes),
            "preWarmupWrites": sorted(prew.writes),
        })
    # base-class facts about the sampling loops
    base = {}
    s_o, s_fn = lookup(db, "Sampler", "methods", "sample")
    w_o, w_fn = lookup(db, "Sampler", "methods", "warmup")
    def loop_facts(fn):
        f = {"appendsPoint": 0, "appendsAcc": 0, "callbacks": 0, "steps": 0, "callbackArgIsLenMinus1": False}
        if fn is None:
            return f
        for loop in [n for n in ast.walk(fn) if isinstance(n, ast.For)]:
            for st in loop.body:
                for n in ast.walk(st):
                    if isinstance(n, ast.Call) and isinstance(n.func, ast.Attribute):
                        if n.func.attr == "append" and self_attr(n.func.value) == "_samples":
                            f["appendsPoint"] += 1
                        if n.func.attr == "append" and self_attr(n.func.value) == "_acc":
                            f["appendsAcc"] += 1
                        if n.func.attr == "step" and is_self(n.func.value):
                            f["steps"] += 1
                        if n.func.attr == "_call_callback" and is_self(n.func.value):
                            f["callbacks"] += 1
                            if len(n.args) == 2 and ast.unparse(n.args[1]).replace(" ", "") == "len(self._samples)-1" \
                                    and ast.unparse(n.args[0]) == "self.current_point":
                                f["callbackArgIsLenMinus1"] = True
        return f
    base["sample"] = loop_facts(s_fn)
    base["warmup"] = loop_facts(w_fn)
    return out, base


# ------------------------------------------------------------------------------ stateless interface
def legacy_tables(repo):
    files = sorted(glob.glob(os.path.join(repo, "cuqi", "sampler", "_*.py")))
    db = load_classes(files)
    out = []
    for name in sorted(db):
        chain = mro(db, name)
        if "Sampler" not in chain or name in ("Sampler", "ProposalBasedSampler"):
            continue
        row = {"name": name}
        for meth, tag in (("_sample", "sample"), ("_sample_adapt", "adapt")):
            o, fn = lookup(db, name, "methods", meth)
            # follow `return self._sample(N, Nb)` delegation
            hops = 0
            while fn is not None and hops < 3:
                body = [s for s in fn.body if not (isinstance(s, ast.Expr) and isinstance(s.value, ast.Constant))]
                if len(body) == 1 and isinstance(body[0], ast.Return) and isinstance(body[0].value, ast.Call) \
                        and isinstance(body[0].value.func, ast.Attribute) and is_self(body[0].value.func.value):
                    o, fn = lookup(db, name, "methods", body[0].value.func.attr)
                    hops += 1
                else:
                    break
            cb = 0; view = False; loops = 0; present = fn is not None
            if fn is not None:
                for loop in [n for n in ast.walk(fn) if isinstance(n, ast.For)]:
                    loops += 1
                    for n in ast.walk(loop):
                        if isinstance(n, ast.Call) and isinstance(n.func, ast.Attribute) and is_self(n.func.value):
                            if n.func.attr == "_call_callback":
                                cb += 1
                            if n.func.attr == "single_update" and n.args and isinstance(n.args[0], ast.Subscript):
                                view = True
            row[tag + "Present"] = present
            row[tag + "Callbacks"] = cb
            row[tag + "PassesView"] = view
        # does single_update store through its first parameter?
        o, fn = lookup(db, name, "methods", "single_update")
        mut = False
        if fn is not None and len(fn.args.args) >= 2:
            p = fn.args.args[1].arg
            rebound = False
            for st in fn.body:
                for n in ast.walk(st):
                    if isinstance(n, ast.Assign):
                        for t in n.targets:
                            if isinstance(t, ast.Name) and t.id == p:
                                rebound = True
                            if isinstance(t, ast.Subscript) and isinstance(t.value, ast.Name) and t.value.id == p and not rebound:
                                mut = True
                    if isinstance(n, ast.AugAssign):
                        t = n.target
                        if isinstance(t, ast.Name) and t.id == p and not rebound:
                            mut = True
                        if isinstance(t, ast.Subscript) and isinstance(t.value, ast.Name) and t.value.id == p and not rebound:
                            mut = True
        row["updateStoresThroughArg"] = mut
        out.append(row)
    return out


# ------------------------------------------------------------------------------ Lean output
def lstr(xs):
    return "[" + ", ".join('"' + x + '"' for x in xs) + "]"


def lbool(b):
    return "true" if b else "false"


def render(exp, base, leg):
    L = []
    L.append("/- GENERATED by harness/translate/c14_tables.py from the Python source (AST only). Do not edit. -/")
    L.append("namespace CuqiVerif.C14.Gen")
    L.append("")
    L.append("structure ClassTable where")
    for f in ("name : String", "stateKeysRaw : List String", "historyKeysRaw : List String", "stateKeys : List String", "historyKeys : List String",
              "ctorKeys : List String", "initKeys : List String", "randomInitKeys : List String",
              "stepCarried : List String", "stepReads : List String", "stepWrites : List String", "stepMutates : List String",
              "stepAppends : List String", "tuneReads : List String", "tuneWrites : List String",
              "preSampleCarried : List String", "preSampleWrites : List String", "preWarmupWrites : List String"):
        L.append("  " + f)
    L.append("")
    for t in exp:
        L.append(f"def cls_{t['name']} : ClassTable where")
        L.append(f"  name := \"{t['name']}\"")
        for k in ("stateKeysRaw", "historyKeysRaw", "stateKeys", "historyKeys", "ctorKeys", "initKeys", "randomInitKeys", "stepCarried",
                  "stepReads", "stepWrites", "stepMutates", "stepAppends", "tuneReads", "tuneWrites", "preSampleCarried",
                  "preSampleWrites", "preWarmupWrites"):
            L.append(f"  {k} := {lstr(t[k])}")
        L.append("")
    L.append("def classes : List ClassTable := [" + ", ".join("cls_" + t["name"] for t in exp) + "]")
    L.append("")
    L.append("structure LoopFacts where")
    L.append("  steps : Nat")
    L.append("  appendsPoint : Nat")
    L.append("  appendsAcc : Nat")
    L.append("  callbacks : Nat")
    L.append("  callbackArgIsLenMinus1 : Bool")
    for k in ("sample", "warmup"):
        b = base[k]
        L.append(f"def base_{k} : LoopFacts := ⟨{b['steps']}, {b['appendsPoint']}, {b['appendsAcc']}, {b['callbacks']}, {lbool(b['callbackArgIsLenMinus1'])}⟩")
    L.append("")
    L.append("structure LegacyTable where")
    for f in ("name : String", "samplePresent : Bool", "sampleCallbacks : Nat", "samplePassesView : Bool",
              "adaptPresent : Bool", "adaptCallbacks : Nat", "adaptPassesView : Bool", "updateStoresThroughArg : Bool"):
        L.append("  " + f)
    L.append("")
    for t in leg:
        L.append(f"def leg_{t['name']} : LegacyTable := ⟨\"{t['name']}\", {lbool(t['samplePresent'])}, {t['sampleCallbacks']}, {lbool(t['samplePassesView'])}, "
                 f"{lbool(t['adaptPresent'])}, {t['adaptCallbacks']}, {lbool(t['adaptPassesView'])}, {lbool(t['updateStoresThroughArg'])}⟩")
    L.append("")
    L.append("def legacy : List LegacyTable := [" + ", ".join("leg_" + t["name"] for t in leg) + "]")
    L.append("")
    L.append("end CuqiVerif.C14.Gen")
    return "\n".join(L) + "\n"


def main():
    repo, outdir = sys.argv[1], sys.argv[2]
    exp, base = experimental_tables(repo)
    leg = legacy_tables(repo)
    txt = render(exp, base, leg)
    path = os.path.join(outdir, "C14Tables.lean")
    old = open(path).read() if os.path.exists(path) else None
    if old != txt:
        tmp = path + ".tmp%d" % os.getpid()
        with open(tmp, "w") as fh:
            fh.write(txt)
        os.replace(tmp, path)
        print(f"wrote {path} ({len(exp)} classes, {len(leg)} legacy classes)")
    else:
        print(f"unchanged {path} ({len(exp)} classes, {len(leg)} legacy classes)")
    if "--json" in sys.argv:
        import json
        print(json.dumps({"experimental": exp, "base": base, "legacy": leg}, indent=1))
    return 0


if __name__ == "__main__":
    sys.exit(main())
