#!/usr/bin/env python3
"""Dispatcher of the AST translators: ast_tables.py <repo> <outdir>

Runs every `harness/translate/c*_tables.py <repo> <outdir>` it finds (each property owns its own
translator and writes its own `Generated/Cxx*.lean`).  Translators read the Python source by AST
only (no import of cuqi).  A translator that fails is reported on stdout/stderr and makes the
dispatcher exit 1; the others still run."""
import sys, os, glob, subprocess


def main():
    if len(sys.argv) < 3:
        print(__doc__)
        return 2
    repo, outdir = sys.argv[1], sys.argv[2]
    os.makedirs(outdir, exist_ok=True)
    here = os.path.dirname(os.path.abspath(__file__))
    rc = 0
    for tr in sorted(glob.glob(os.path.join(here, "c*_tables.py"))):
        r = subprocess.run([sys.executable, tr, repo, outdir], capture_output=True, text=True)
        msg = (r.stdout + r.stderr).strip()
        print(f"[{os.path.basename(tr)}] rc={r.returncode} {msg}")
        if r.returncode != 0:
            rc = 1
    return rc


if __name__ == "__main__":
    sys.exit(main())
