#!/usr/bin/env python3
"""C11 translator: c11_tables.py <repo> <outdir>  ->  <outdir>/C11WriteSets.lean

Reads the Python source by AST only (no import of cuqi).  For every method that takes part in
conditioning / evaluating / sampling (list METHODS below) it extracts

  * every attribute write  `<recv>.<field> = …`, `<recv>.<field> op= …`, `<recv>.<field>[i] = …`,
    `setattr(<recv>, …)`, and every mutating container call `<recv>.<field>.append(…)` etc.;
  * the classification of the receiver by a conservative intra-procedural rule:
      self        the receiver is `self`
      fresh       a local name bound (only) to `copy(…)`, `….​_make_copy()` or a constructor call `Class(…)`
      selfField   `self.<attr>` (an object held by self)
      param       a parameter of the method (other than self)
      condResult  a local name bound to the result of calling a density (`self(…)`, `self.distribution(…)`, `density(…)`)
      unknown     anything else
  * the call sites of `_add_constants_to_density` and `_reduce_to_single_density` with the kind of
    the object they are applied to, and what the Gibbs constructors store as their target.

The Lean side (`Props/C11.lean`) decides on every run that every extracted write is to a fresh
object or to a benign cache, and that the method list of the heap model is covered."""
import ast, os, sys

METHODS = {
    "cuqi/density/_density.py": {
        "Density": ["logd", "gradient", "_make_copy", "__call__"],
        "EvaluatedDensity": ["_logd", "_condition", "__call__"],
    },
    "cuqi/distribution/_distribution.py": {
        "Distribution": ["geometry", "logd", "_logd", "sample", "pdf", "_condition", "__call__", "get_conditioning_variables",
                         "get_mutable_variables", "get_parameter_names", "is_cond", "to_likelihood", "_parse_args_add_to_kwargs",
                         "dim", "_infer_dim_of_mutable_variables"],
    },
    "cuqi/distribution/_joint_distribution.py": {
        "JointDistribution": ["logd", "__call__", "_condition", "get_parameter_names", "get_density", "_get_conditioning_variables",
                              "_parse_args_add_to_kwargs", "_sum_evaluated_densities", "_reduce_to_single_density",
                              "_add_constants_to_density", "_as_stacked", "dim", "geometry"],
        "_StackedJointDistribution": ["logd", "logpdf"],
        "MultipleLikelihoodPosterior": ["logpdf", "gradient"],
    },
    "cuqi/distribution/_posterior.py": {
        "Posterior": ["logpdf", "_gradient", "get_conditioning_variables", "get_parameter_names"],
    },
    "cuqi/distribution/_lognormal.py": {
        "Lognormal": ["_normal", "dim", "pdf", "logpdf", "_gradient", "_sample"],
    },
    "cuqi/distribution/_gaussian.py": {
        "Gaussian": ["logpdf", "_gradient", "_sample", "cdf"],
    },
    "cuqi/implicitprior/_regularizedGaussian.py": {
        "RegularizedGaussian": ["gaussian", "logpdf", "get_conditioning_variables", "get_mutable_variables", "_condition"],
    },
    "cuqi/likelihood/_likelihood.py": {
        "Likelihood": ["_logd", "_gradient", "get_parameter_names", "model", "_condition", "__call__", "geometry"],
    },
    "cuqi/model/_model.py": {
        "Model": ["forward", "__call__", "_parse_args_add_to_kwargs"],
    },
    "cuqi/sampler/_gibbs.py": {
        "Gibbs": ["__init__", "step"],
    },
    "cuqi/experimental/mcmc/_gibbs.py": {
        "HybridGibbs": ["__init__", "_set_target", "_set_targets"],
    },
}

MUTATORS = {"append", "extend", "insert", "remove", "pop", "clear", "update", "sort", "reverse", "setdefault", "popitem", "fill", "resize"}


def lean_str(s):
    return '"' + s.replace("\\", "\\\\").replace('"', '\\"') + '"'


def is_property_getter(fn):
    for d in fn.decorator_list:
        if isinstance(d, ast.Name) and d.id == "property":
            return True
    return False


def is_setter(fn):
    for d in fn.decorator_list:
        if isinstance(d, ast.Attribute) and d.attr in ("setter", "deleter"):
            return True
    return False


def find_methods(tree, cls, name):
    """getter / plain method called `name` in class `cls` (setters excluded: they are configuration, not evaluation)"""
    out = []
    for node in tree.body:
        if isinstance(node, ast.ClassDef) and node.name == cls:
            for fn in node.body:
                if isinstance(fn, (ast.FunctionDef, ast.AsyncFunctionDef)) and fn.name == name and not is_setter(fn):
                    out.append(fn)
    return out


def binding_kind(value):
    """what a local name is bound to"""
    if isinstance(value, ast.Call):
        f = value.func
        if isinstance(f, ast.Name):
            if f.id in ("copy", "set", "dict", "list", "tuple", "sorted"):
                return "fresh"
            if f.id[:1].isupper() or f.id.startswith("_Stacked") or f.id.startswith("_Default"):
                return "fresh"          # constructor call
            return "condResult"         # density(**kw), target(), var_val(**args)
        if isinstance(f, ast.Attribute):
            if f.attr == "_make_copy":
                return "fresh"
            if f.attr == "copy":        # dict.copy()
                return "fresh"
            return "condResult" if isinstance(f.value, ast.Name) and f.value.id == "self" else "unknown"
    if isinstance(value, (ast.Dict, ast.List, ast.Set, ast.ListComp, ast.DictComp, ast.SetComp, ast.Tuple)):
        return "fresh"
    if isinstance(value, ast.Subscript) and isinstance(value.slice, ast.Slice):
        return "fresh"                  # x[:] is a new list
    if isinstance(value, ast.Name) and value.id == "self":
        return "self"
    if isinstance(value, ast.Attribute) and isinstance(value.value, ast.Name) and value.value.id == "self":
        return "selfField"
    return "unknown"


class Fn:
    def __init__(self, cls, fn):
        self.cls, self.fn = cls, fn
        a = fn.args
        self.params = [x.arg for x in a.posonlyargs + a.args + a.kwonlyargs if x.arg != "self"]
        self.star = [x.arg for x in (a.vararg, a.kwarg) if x is not None]
        self.bind = {}
        for node in ast.walk(fn):
            targets = []
            if isinstance(node, ast.Assign):
                targets = [(t, node.value) for t in node.targets]
            elif isinstance(node, ast.AnnAssign) and node.value is not None:
                targets = [(node.target, node.value)]
            elif isinstance(node, (ast.For, ast.comprehension)):
                for n in ast.walk(node.target):
                    if isinstance(n, ast.Name):
                        self.bind.setdefault(n.id, set()).add((getattr(node, "lineno", 0), "unknown"))
            elif isinstance(node, ast.With):
                pass
            for t, v in targets:
                if isinstance(t, ast.Name):
                    self.bind.setdefault(t.id, set()).add((node.lineno, binding_kind(v)))
                elif isinstance(t, ast.Tuple):
                    for n in t.elts:
                        if isinstance(n, ast.Name):
                            self.bind.setdefault(n.id, set()).add((node.lineno, "unknown"))

    def recv_kind(self, expr):
        if isinstance(expr, ast.Name):
            if expr.id == "self":
                return "self"
            if expr.id in self.star:
                return "fresh"          # *args / **kwargs are new containers
            # the binding in force: the last assignment textually before the write (straight-line approximation;
            # a name with bindings of different kinds *before* the write is unknown unless the last one dominates:
            # we take the last one, and additionally demand that no earlier binding is 'self'/'param' aliasing)
            binds = sorted(b for b in self.bind.get(expr.id, ()) if b[0] < getattr(expr, "lineno", 10 ** 9))
            if binds:
                kinds = {k for _, k in binds}
                if "self" in kinds or "selfField" in kinds:
                    return "self" if kinds == {"self"} else "unknown"
                return binds[-1][1]
            if expr.id in self.params:
                return "param"
            return "unknown"
        if isinstance(expr, ast.Attribute) and isinstance(expr.value, ast.Name) and expr.value.id == "self":
            return "selfField"
        if isinstance(expr, ast.Subscript) and isinstance(expr.value, ast.Attribute) and isinstance(expr.value.value, ast.Name) \
                and expr.value.value.id == "self":
            return "selfField"
        if isinstance(expr, ast.Attribute) and isinstance(expr.value, ast.Attribute):
            return "unknown"
        return "unknown"


def text(e):
    try:
        return ast.unparse(e)
    except Exception:  # noqa
        return "?"


def collect(cls, fn):
    F = Fn(cls, fn)
    writes, calls = [], []
    meth = fn.name

    def canon(kind_, txt):
        # names of locals and parameters are not observable: a harmless rename must not change the table
        # (attribute paths `self.<attr>` ARE semantic and are kept verbatim)
        return txt if kind_ in ("self", "selfField") else "<" + kind_ + ">"

    def add(recv_expr, field, kind):
        k_ = F.recv_kind(recv_expr)
        writes.append((cls, meth, k_, canon(k_, text(recv_expr)), field, kind))

    def target_write(t, kind):
        if isinstance(t, ast.Attribute):
            add(t.value, t.attr, kind)
        elif isinstance(t, ast.Subscript):
            base = t.value
            if isinstance(base, ast.Attribute):
                add(base.value, base.attr, "elem:call" if kind == "assign:call" else "elem")
            elif isinstance(base, ast.Name):
                k = F.recv_kind(base)
                if k != "fresh":
                    writes.append((cls, meth, k, canon(k, base.id), "[]", "elem"))
            else:
                writes.append((cls, meth, "unknown", "<unknown>", "[]", "elem"))
        elif isinstance(t, (ast.Tuple, ast.List)):
            for e in t.elts:
                target_write(e, kind)

    for node in ast.walk(fn):
        if isinstance(node, ast.Assign):
            for t in node.targets:
                if isinstance(t, ast.Subscript) and isinstance(node.value, ast.Call) and isinstance(node.value.func, ast.Name):
                    target_write(t, "assign:call")      # container element replaced by the result of calling a local (density(**kw))
                else:
                    target_write(t, "assign")
        elif isinstance(node, ast.AugAssign):
            if not isinstance(node.target, ast.Name):
                target_write(node.target, "aug")
        elif isinstance(node, ast.AnnAssign) and node.value is not None:
            target_write(node.target, "assign")
        elif isinstance(node, ast.Delete):
            for t in node.targets:
                target_write(t, "del")
        elif isinstance(node, ast.Call):
            f = node.func
            if isinstance(f, ast.Name) and f.id in ("setattr", "delattr") and node.args:
                fld = node.args[1].value if len(node.args) > 1 and isinstance(node.args[1], ast.Constant) else "<dynamic>"
                add(node.args[0], str(fld), "setattr")
            elif isinstance(f, ast.Attribute) and f.attr in MUTATORS:
                base = f.value
                if isinstance(base, ast.Attribute):
                    add(base.value, base.attr, "call:" + f.attr)
                elif isinstance(base, ast.Name):
                    k = F.recv_kind(base)
                    if k not in ("fresh",):
                        writes.append((cls, meth, k, canon(k, base.id), "[]", "call:" + f.attr))
            elif isinstance(f, ast.Attribute) and f.attr in ("__setattr__", "__dict__"):
                add(f.value, "<dunder>", "setattr")
            # call sites of interest
            if isinstance(f, ast.Attribute) and f.attr == "_add_constants_to_density" and node.args:
                a = node.args[0]
                if isinstance(a, ast.Call) and isinstance(a.func, ast.Name) and a.func.id[:1].isupper():
                    ak = "constructor"
                elif text(a) == "self._distributions[0]":
                    ak = "ownDistribution"
                else:
                    ak = "other:" + text(a)
                calls.append((cls, meth, "_add_constants_to_density", ak))
            if isinstance(f, ast.Attribute) and f.attr == "_reduce_to_single_density":
                calls.append((cls, meth, "_reduce_to_single_density", F.recv_kind(f.value)))
        # object.__setattr__(x, ...) / x.__dict__[...] = ...
        if isinstance(node, ast.Attribute) and node.attr == "__dict__":
            writes.append((cls, meth, F.recv_kind(node.value), canon(F.recv_kind(node.value), text(node.value)), "__dict__", "dunder"))
    # what the Gibbs constructors store as target
    if cls in ("Gibbs", "HybridGibbs") and meth == "__init__":
        for node in ast.walk(fn):
            if isinstance(node, ast.Assign):
                for t in node.targets:
                    if isinstance(t, ast.Attribute) and t.attr == "target" and isinstance(t.value, ast.Name) and t.value.id == "self":
                        v = node.value
                        if isinstance(v, ast.Call) and isinstance(v.func, ast.Name) and v.func.id == "target":
                            calls.append((cls, meth, "store-target", "callOfArgument"))
                        else:
                            calls.append((cls, meth, "store-target", "other:" + text(v)))
    return writes, calls


def main():
    repo, outdir = sys.argv[1], sys.argv[2]
    os.makedirs(outdir, exist_ok=True)
    writes, calls, found, missing = [], [], [], []
    for rel, classes in METHODS.items():
        path = os.path.join(repo, rel)
        try:
            tree = ast.parse(open(path).read())
        except Exception as e:  # noqa
            missing.append(f"{rel}: {type(e).__name__}")
            continue
        for cls, names in classes.items():
            for name in names:
                fns = find_methods(tree, cls, name)
                if not fns:
                    missing.append(f"{cls}.{name}")
                    continue
                found.append(f"{cls}.{name}")
                for fn in fns:
                    w, c = collect(cls, fn)
                    writes += w
                    calls += c
    out = ["/- GENERATED by harness/translate/c11_tables.py from the Python source (AST only). Do not edit. -/",
           "namespace CuqiVerif.C11.Gen", "",
           "inductive Recv | self | fresh | selfField | param | condResult | unknown",
           "  deriving DecidableEq, Repr", "",
           "structure W where", "  cls : String", "  meth : String", "  recv : Recv", "  recvText : String", "  field : String", "  kind : String",
           "  deriving DecidableEq, Repr", "",
           "structure C where", "  cls : String", "  meth : String", "  callee : String", "  arg : String",
           "  deriving DecidableEq, Repr", "",
           "def writes : List W := ["]
    out.append(",\n".join(f"  ⟨{lean_str(c)}, {lean_str(m)}, .{k}, {lean_str(rt)}, {lean_str(f)}, {lean_str(kd)}⟩" for (c, m, k, rt, f, kd) in writes))
    out += ["]", "", "def calls : List C := ["]
    out.append(",\n".join(f"  ⟨{lean_str(c)}, {lean_str(m)}, {lean_str(cal)}, {lean_str(a)}⟩" for (c, m, cal, a) in calls))
    out += ["]", "", "def methodsFound : List String := [" + ", ".join(lean_str(x) for x in found) + "]", "",
            "def methodsMissing : List String := [" + ", ".join(lean_str(x) for x in missing) + "]", "",
            "end CuqiVerif.C11.Gen", ""]
    txt = "\n".join(out)
    dst = os.path.join(outdir, "C11WriteSets.lean")
    old = open(dst).read() if os.path.exists(dst) else None
    if old != txt:
        with open(dst, "w") as fh:
            fh.write(txt)
    print(f"C11WriteSets: {len(writes)} writes, {len(calls)} call sites, {len(found)} methods, missing {missing}")
    return 0


if __name__ == "__main__":
    sys.exit(main())
