"""Shared machinery of the CUQIpy Lean-4 verification checks.

A check for property Cxx is `harness/props/cxx.py` exposing `run(ctx)`.  `ctx` (class Check)
provides:
  * the Lean side: build of `CuqiVerif.Props.Cxx` + axiom audit + forbidden-token scan, and a
    line-protocol call into `lean/Driver/Cxx.lean` (the executable model);
  * bookkeeping of cases, correspondence disagreements and oracle failures;
  * KNOWN_FINDINGS handling, replay files, the VIOLATION / KNOWN-FINDING lines, evidence.

Exit codes: 0 = held on everything explored (known findings printed), 1 = violation, 2 = the
machinery itself failed (timeout, crash).
"""
import os, sys, re, json, time, subprocess, hashlib, random, fcntl, traceback, warnings, io, contextlib
from fractions import Fraction

VERIF = os.path.dirname(os.path.dirname(os.path.abspath(__file__)))
REPO = os.environ.get("CUQI_REPO", "/repo")
LEAN = os.path.join(VERIF, "lean")
ALLOWED_AXIOMS = {"propext", "Classical.choice", "Quot.sound"}
FORBIDDEN = re.compile(r"\b(sorry|admit|native_decide|bv_decide|implemented_by)\b|^\s*axiom\s|\bunsafe\s|maxHeartbeats\s+0\b")
GUARD = "CUQIPY_VERIF"


# ----------------------------------------------------------------------------- exact numbers
def q(x):
    """exact rational string of a python number (float -> the exact binary value)"""
    if isinstance(x, Fraction):
        f = x
    elif isinstance(x, (int,)):
        f = Fraction(x)
    else:
        import numpy as np
        if isinstance(x, np.integer):
            f = Fraction(int(x))
        else:
            f = Fraction(float(x))
    return str(f.numerator) if f.denominator == 1 else f"{f.numerator}/{f.denominator}"


def qv(v):
    v = list(v)
    return ",".join(q(x) for x in v) if v else "_"


def qm(m):
    rows = [list(r) for r in m]
    return ";".join(qv(r) for r in rows) if rows else "_"


def pq(s):
    return Fraction(s)


def pv(s):
    return [] if s == "_" else [Fraction(t) for t in s.split(",")]


def pm(s):
    return [] if s == "_" else [pv(r) for r in s.split(";")]


def close(a, b, tol=1e-9):
    """float-vs-exact comparison with relative+absolute tolerance"""
    a = float(a); b = float(b)
    if a != a or b != b:
        return (a != a) and (b != b)
    if a in (float("inf"), float("-inf")) or b in (float("inf"), float("-inf")):
        return a == b
    return abs(a - b) <= tol * (1.0 + max(abs(a), abs(b)))


def vclose(a, b, tol=1e-9):
    a = list(a); b = list(b)
    return len(a) == len(b) and all(close(x, y, tol) for x, y in zip(a, b))


def mclose(a, b, tol=1e-9):
    a = [list(r) for r in a]; b = [list(r) for r in b]
    return len(a) == len(b) and all(vclose(x, y, tol) for x, y in zip(a, b))


# ----------------------------------------------------------------------------- quiet import of cuqi
def import_cuqi():
    """import cuqi from REPO with warnings silenced; returns the module"""
    warnings.filterwarnings("ignore")
    if REPO not in sys.path:
        sys.path.insert(0, REPO)
    os.environ.setdefault(GUARD, "1")
    buf = io.StringIO()
    with contextlib.redirect_stdout(buf), contextlib.redirect_stderr(buf):
        import cuqi
    assert os.path.realpath(cuqi.__file__).startswith(os.path.realpath(REPO)), cuqi.__file__
    return cuqi


@contextlib.contextmanager
def quiet():
    buf = io.StringIO()
    with contextlib.redirect_stdout(buf), contextlib.redirect_stderr(buf), warnings.catch_warnings():
        warnings.simplefilter("ignore")
        yield buf


# ----------------------------------------------------------------------------- Lean side
class LeanSide:
    def __init__(self, pid):
        self.pid = pid
        self.props_file = os.path.join(LEAN, "CuqiVerif", "Props", f"{pid}.lean")
        import glob as _glob
        # additional theorem files of the same property: Props/Cxx_<topic>.lean
        self.props_files = [self.props_file] + sorted(_glob.glob(os.path.join(LEAN, "CuqiVerif", "Props", f"{pid}_*.lean")))
        self.driver_file = os.path.join(LEAN, "Driver", f"{pid}.lean")
        self.report = {}

    def _locked(self, cmd, timeout=3000):
        lock = open(os.path.join(LEAN, ".build.lock"), "w")
        fcntl.flock(lock, fcntl.LOCK_EX)
        try:
            return subprocess.run(cmd, cwd=LEAN, capture_output=True, text=True, timeout=timeout)
        finally:
            fcntl.flock(lock, fcntl.LOCK_UN)
            lock.close()

    def theorems(self):
        """names of the property theorems (the obligations) in Props/Cxx.lean, with line numbers"""
        out = []
        for pf in self.props_files:
            out += self._theorems_of(pf)
        return out

    def _theorems_of(self, pf):
        out = []
        ns = []
        if not os.path.exists(pf):
            return out
        depth = 0   # nesting depth of /- ... -/ block comments (docstrings included): text inside is not code
        for i, line in enumerate(open(pf), 1):
            code = ""
            j = 0
            while j < len(line):
                if line.startswith("/-", j):
                    depth += 1; j += 2
                elif line.startswith("-/", j) and depth > 0:
                    depth -= 1; j += 2
                else:
                    if depth == 0:
                        code += line[j]
                    j += 1
            line = code.split("--", 1)[0] if depth == 0 or code.strip() else code
            m = re.match(r"\s*namespace\s+(\S+)", line)
            if m:
                ns.append(m.group(1)); continue
            m = re.match(r"\s*end\s+(\S+)", line)
            if m and ns and ns[-1] == m.group(1):
                ns.pop(); continue
            m = re.match(r"\s*(?:@\[[^\]]*\]\s*)?(?:private\s+|protected\s+)?theorem\s+(\S+)", line)
            if m:
                out.append((".".join(ns + [m.group(1)]), i, pf))
        return out

    def closure(self):
        """files of this library transitively imported by Props/Cxx.lean (incl. itself)"""
        seen, todo = [], list(self.props_files)
        while todo:
            f = todo.pop()
            if f in seen or not os.path.exists(f):
                continue
            seen.append(f)
            for m in re.findall(r"^import\s+(CuqiVerif\.\S+)", open(f).read(), re.M):
                todo.append(os.path.join(LEAN, *m.split(".")) + ".lean")
        return seen

    def forbidden_scan(self):
        hits = []
        for p in self.closure():
            in_block = False
            for i, line in enumerate(open(p), 1):
                s = line
                # strip block comments (single-level) and line comments
                if in_block:
                    if "-/" in s:
                        s = s.split("-/", 1)[1]; in_block = False
                    else:
                        continue
                while "/-" in s:
                    pre, rest = s.split("/-", 1)
                    if "-/" in rest:
                        s = pre + rest.split("-/", 1)[1]
                    else:
                        s = pre; in_block = True
                s = s.split("--", 1)[0]
                if FORBIDDEN.search(s):
                    hits.append(f"{os.path.relpath(p, LEAN)}:{i}: {line.strip()}")
        return hits

    def regenerate(self):
        """run the AST translator (source -> Generated/*.lean); returns log"""
        tr = os.path.join(VERIF, "harness", "translate", "ast_tables.py")
        if not os.path.exists(tr):
            return "no translator"
        r = subprocess.run([sys.executable, tr, REPO, os.path.join(LEAN, "CuqiVerif", "Generated")],
                           capture_output=True, text=True)
        return (r.stdout + r.stderr).strip()

    def build_and_audit(self):
        """lake build of the property's theorem module, then `#print axioms` on every theorem.
        Returns dict(ok, obligations, discharged, failed:[names], log)."""
        t0 = time.time()
        rep = {"ok": False, "obligations": 0, "discharged": 0, "failed": [], "log": "", "axioms": {}}
        thms = self.theorems()
        rep["obligations"] = len(thms)
        rep["theorems"] = [t[0] for t in thms]
        mod = f"CuqiVerif.Props.{self.pid}"
        mods = ["CuqiVerif.Props." + os.path.basename(f)[:-5] for f in self.props_files]
        # the source-derived tables are regenerated and the theorems over them rebuilt under ONE lock, so that a
        # concurrent run against another source tree (CUQI_REPO) cannot swap the tables between the two steps
        lock = open(os.path.join(LEAN, ".build.lock"), "w")
        fcntl.flock(lock, fcntl.LOCK_EX)
        try:
            rep["translator"] = self.regenerate()
            r = subprocess.run(["lake", "build"] + mods, cwd=LEAN, capture_output=True, text=True, timeout=3000)
        finally:
            fcntl.flock(lock, fcntl.LOCK_UN)
            lock.close()
        rep["build_rc"] = r.returncode
        if r.returncode != 0:
            log = r.stdout + r.stderr
            rep["log"] = log[-6000:]
            # map error lines in the Props file to enclosing theorems; errors elsewhere fail everything
            bad = set()
            elsewhere = False
            for m in re.finditer(r"error: (\S+?\.lean):(\d+):(\d+)", log):
                f, ln = m.group(1), int(m.group(2))
                if any(pf.endswith(f) or f.endswith(os.path.relpath(pf, LEAN)) for pf in self.props_files):
                    enclosing = None
                    for n, l, pf in thms:
                        if l <= ln and (pf.endswith(f) or f.endswith(os.path.relpath(pf, LEAN))):
                            enclosing = n
                    bad.add(enclosing or "<preamble>")
                else:
                    elsewhere = True
                    bad.add(f"<{f}:{ln}>")
            if elsewhere or not bad:
                rep["failed"] = sorted(bad) or ["<build>"]
                rep["discharged"] = 0
            else:
                rep["failed"] = sorted(bad)
                rep["discharged"] = max(0, len(thms) - len(bad))
            rep["wall_s"] = time.time() - t0
            self.report = rep
            return rep
        # audit
        hits = self.forbidden_scan()
        rep["forbidden"] = hits
        audit = os.path.join(LEAN, f".audit_{self.pid}_{os.getpid()}.lean")
        with open(audit, "w") as fh:
            for m_ in mods:
                fh.write(f"import {m_}\n")
            for n, _, _pf in thms:
                fh.write(f"#print axioms {n}\n")
        r = self._locked(["lake", "env", "lean", audit])
        os.remove(audit)
        out = r.stdout + r.stderr
        # parse: "'name' depends on axioms: [a, b]" / "'name' does not depend on any axioms"
        ax = {}
        for m in re.finditer(r"'(\S+?)' depends on axioms: \[([^\]]*)\]", out, re.S):
            ax[m.group(1)] = [a.strip() for a in m.group(2).replace("\n", " ").split(",") if a.strip()]
        for m in re.finditer(r"'(\S+?)' does not depend on any axioms", out):
            ax[m.group(1)] = []
        rep["axioms"] = ax
        failed = []
        for n, _, _pf in thms:
            if n not in ax:
                failed.append(n + " (not found by audit)")
            elif not set(ax[n]) <= ALLOWED_AXIOMS:
                failed.append(n + " (axioms: " + ",".join(ax[n]) + ")")
        if hits:
            failed.append("<forbidden tokens: " + "; ".join(hits[:3]) + ">")
        rep["failed"] = failed
        rep["discharged"] = len(thms) - len([f for f in failed if not f.startswith("<")])
        rep["ok"] = not failed and len(thms) > 0
        rep["log"] = out[-2000:] if failed else ""
        rep["wall_s"] = time.time() - t0
        self.report = rep
        return rep

    def leanchecker(self):
        mods = ["CuqiVerif.Props." + os.path.basename(f)[:-5] for f in self.props_files]
        try:
            r = self._locked(["lake", "env", "leanchecker"] + mods, timeout=1500)
            return {"rc": r.returncode, "tail": (r.stdout + r.stderr)[-400:]}
        except Exception as e:  # noqa
            return {"rc": -1, "tail": repr(e)}

    def drive(self, lines, driver=None):
        """pipe lines to the executable model; returns list of output lines (same length)"""
        if not lines:
            return []
        drv = driver or self.driver_file
        # make sure the model modules imported by the driver are built (only those)
        mods = re.findall(r"^import\s+(CuqiVerif\.\S+)", open(drv).read(), re.M)
        r = self._locked(["lake", "build"] + mods)
        if r.returncode != 0:
            raise RuntimeError("model build failed:\n" + (r.stdout + r.stderr)[-3000:])
        inp = "\n".join(lines) + "\n"
        r = subprocess.run(["lake", "env", "lean", "--run", drv], cwd=LEAN, input=inp,
                           capture_output=True, text=True, timeout=3000)
        out = r.stdout.split("\n")
        if out and out[-1] == "":
            out.pop()
        if r.returncode != 0 or len(out) != len(lines):
            raise RuntimeError(f"driver failed rc={r.returncode} got {len(out)} lines for {len(lines)}:\n"
                               + r.stderr[-3000:] + "\n" + "\n".join(out[-5:]))
        return out


# ----------------------------------------------------------------------------- the check context
class Check:
    def __init__(self, pid, tier, seed):
        self.pid, self.tier, self.seed = pid, tier, seed
        self.t0 = time.time()
        self.rng = random.Random(f"{pid}-{seed}")
        self.lean = LeanSide(pid)
        self.cases = 0
        self.kinds = {}            # case-kind histogram
        self.distinct = set()      # hashes of non-trivial cases
        self.samples = []
        self.disagreements = []    # model vs impl (correspondence)
        self.failures = []         # property oracle failures on the implementation
        self.notes = []
        self.assumptions = []
        self.trusted = []
        self.extra_cov = {}
        self.known = load_known(pid)
        self.scale = 1 if tier == "quick" else int(os.environ.get("VERIF_THOROUGH_SCALE", "10"))

    # -- case accounting
    def case(self, kind, desc, nontrivial=True):
        self.cases += 1
        self.kinds[kind] = self.kinds.get(kind, 0) + 1
        if nontrivial:
            self.distinct.add(hashlib.sha1(json.dumps([kind, desc], sort_keys=True, default=str).encode()).hexdigest())
        if len(self.samples) < 12 and self.kinds[kind] <= 2:
            self.samples.append({"kind": kind, "case": desc})

    def disagree(self, key, desc, model, impl, what=""):
        """correspondence disagreement between model and implementation at a concrete case"""
        self.disagreements.append({"key": key, "case": desc, "model": model, "impl": impl, "what": what})

    def fail(self, key, desc, demanded, got, what=""):
        """the property itself fails on the implementation at a concrete input (oracle verdict)"""
        self.failures.append({"key": key, "case": desc, "demanded": demanded, "got": got, "what": what})

    def note(self, s):
        self.notes.append(s)

    # -- finish
    def finish(self, lean_report):
        pid = self.pid
        os.makedirs(os.path.join(VERIF, "replays"), exist_ok=True)
        os.makedirs(os.path.join(VERIF, "evidence"), exist_ok=True)
        exit_code = 0
        lines = []
        # group oracle failures by key
        open_known = KnownMap([k for k in self.known if k.get("status", "open") == "open"])
        by_key = {}
        for f in self.failures:
            by_key.setdefault(f["key"], []).append(f)
        new_keys = [k for k in by_key if k not in open_known]
        reported_known = {}
        for k in sorted(by_key):
            if k in open_known:
                rec = open_known[k]
                reported_known.setdefault(rec["key"], [rec, 0, []])
                reported_known[rec["key"]][1] += len(by_key[k]); reported_known[rec["key"]][2].append(k)
        for pat, (rec, cnt, ks) in sorted(reported_known.items()):
            lines.append(f"KNOWN-FINDING: property={pid} {pat}: {rec.get('what_fails','')} ({cnt} failing case(s) this run)")
        nviol = 0
        for k in sorted(new_keys):
            f = by_key[k][0]
            path = self._write_replay(k, {"kind": "failing-input", "key": k, "failure": f, "n_cases": len(by_key[k])})
            lines.append(f"VIOLATION property={pid} replay={path}")
            nviol += 1
            exit_code = 1
        # disagreements not explained by an oracle failure with the same key
        dis_keys = {}
        for d in self.disagreements:
            dis_keys.setdefault(d["key"], []).append(d)
        for k in sorted(dis_keys):
            if k in by_key:
                continue  # already reported (as violation or known finding) with a failing input
            if k in open_known:
                lines.append(f"KNOWN-FINDING: property={pid} {k}: {open_known[k].get('what_fails','')} (correspondence; {len(dis_keys[k])} case(s))")
                continue
            d = dis_keys[k][0]
            path = self._write_replay(k, {"kind": "correspondence-broken", "key": k,
                                          "correspondence": f"Driver/{pid}.lean vs implementation", "disagreement": d,
                                          "n_cases": len(dis_keys[k]),
                                          "note": "model and implementation differ here; the property's own oracle found no failing input"})
            lines.append(f"VIOLATION property={pid} replay={path} no-failing-input-found")
            nviol += 1
            exit_code = 1
        # proof side
        if not lean_report.get("ok"):
            if not new_keys:  # no concrete failing input was found by the search
                path = self._write_replay("proof", {"kind": "proof-broken", "theorems_not_checking": lean_report.get("failed"),
                                                    "log_tail": lean_report.get("log", "")[-3000:],
                                                    "translator": lean_report.get("translator")})
                lines.append(f"VIOLATION property={pid} replay={path} no-failing-input-found")
                nviol += 1
            else:
                lines.append(f"note: proof obligations not checking: {lean_report.get('failed')}")
            exit_code = 1
        # listed known findings that did not reproduce (informational)
        for pat in open_known.patterns():
            if not any(open_known.match(k, pat) for k in list(by_key) + list(dis_keys)):
                self.notes.append(f"listed known finding not exercised/reproduced this run: {pat}")
        for l in lines:
            print(l)
        ev = {
            "property_id": pid, "tier": self.tier, "seed": int(self.seed), "level": "proof",
            "coverage": {
                "obligations": int(lean_report.get("obligations", 0)),
                "discharged": int(lean_report.get("discharged", 0)),
                "checker_cmd": f"cd lean && lake build CuqiVerif.Props.{pid} && lake env lean <audit: #print axioms of every theorem>",
                "trusted_base": ["Lean 4.33.0 kernel", "Mathlib v4.33.0", "axioms: " + ", ".join(sorted({a for v in lean_report.get("axioms", {}).values() for a in v}) or ["none"]),
                                 "hand-written model CuqiVerif/Model/" + pid + ".lean tied to /repo by the correspondence check in harness/props/" + pid.lower() + ".py"] + self.trusted,
                "theorems": lean_report.get("theorems", []),
                "evaluations": int(self.cases),
                "distinct_nontrivial": int(len(self.distinct)),
                "rule": "each case is one concrete input/op sequence run on the implementation and on the Lean model's executable definitions; distinct = distinct (kind, case description) hashes; see case_kinds",
                "programs": int(self.cases),
                "disagreements_checked": int(len(self.disagreements)),
                "oracle_failures": int(len(self.failures)),
                "case_kinds": self.kinds,
                "samples": self.samples or [{"note": "no correspondence cases in this run"}],
                "known_findings_reproduced": sorted(k for k in by_key if k in open_known) + sorted(k for k in dis_keys if k in open_known and k not in by_key),
                "proof_failed": lean_report.get("failed", []),
                "lean_wall_s": round(lean_report.get("wall_s", 0.0), 2),
                **self.extra_cov,
            },
            "assumptions": self.assumptions,
            "wall_s": round(time.time() - self.t0, 2),
            "violations": int(nviol),
        }
        if self.notes:
            ev["coverage"]["notes"] = self.notes[:40]
        with open(os.path.join(VERIF, "evidence", f"{pid}.json"), "w") as fh:
            json.dump(ev, fh, indent=1, default=str)
        print(f"[{pid}] tier={self.tier} seed={self.seed} cases={self.cases} distinct={len(self.distinct)} "
              f"obligations={ev['coverage']['obligations']} discharged={ev['coverage']['discharged']} "
              f"disagreements={len(self.disagreements)} oracle_failures={len(self.failures)} violations={nviol} "
              f"wall={ev['wall_s']}s")
        return exit_code

    def _write_replay(self, key, payload):
        safe = re.sub(r"[^A-Za-z0-9_.-]+", "_", key)[:80]
        path = os.path.join("replays", f"{self.pid}-{self.seed}-{safe}.json")
        payload = dict(payload)
        payload.update({"property": self.pid, "seed": self.seed, "tier": self.tier})
        with open(os.path.join(VERIF, path), "w") as fh:
            json.dump(payload, fh, indent=1, default=str)
        return path


class KnownMap:
    """open known findings; a record's key may be an fnmatch pattern over failure keys"""
    def __init__(self, recs):
        self.recs = recs
    @staticmethod
    def match(k, pat):
        import fnmatch
        return k == pat or fnmatch.fnmatchcase(k, pat)
    def __contains__(self, k):
        return any(self.match(k, r["key"]) for r in self.recs)
    def __getitem__(self, k):
        for r in self.recs:
            if self.match(k, r["key"]):
                return r
        raise KeyError(k)
    def patterns(self):
        return [r["key"] for r in self.recs]


def load_known(pid):
    import glob
    out = []
    for p in [os.path.join(VERIF, "KNOWN_FINDINGS.jsonl")] + sorted(glob.glob(os.path.join(VERIF, "known", "*.jsonl"))):
        if not os.path.exists(p):
            continue
        for l in open(p):
            l = l.strip()
            if l and not l.startswith("#"):
                r = json.loads(l)
                if r.get("property") == pid:
                    out.append(r)
    return out
