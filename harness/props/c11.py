"""C11 — conditioning, evaluating and sampling never alter the objects they start from.

Correspondence (dynamic, because aliasing is a property of CPython objects).  A tracing
`__setattr__` / `__new__` is installed on the cuqi base classes (Density, JointDistribution, Model,
Geometry).  Random *programs* (condition / logd / gradient / sample / to_likelihood / model(dist) /
Gibbs re-conditioning streams, on the original objects and on every object derived so far) are run
on real cuqi objects built from the C01 model graphs (plus a Lognormal, a RegularizedGaussian and a
Model) and on the Lean heap model (`Driver/C11.lean`).  Compared after every op:
  * kind of the result and whether it is a fresh object or an existing one,
  * its ordered parameter names and its random-variable name,
  * the classes of the objects allocated by the op, in allocation order,
  * the writes that *escape* the op (receiver existed before the op): non-benign ones must be exactly
    the model's (none); benign ones must be inside the model's benign set.

Oracle (implementation only, after every op, tracing paused): for every original object
  (a) a deep structural snapshot (all attributes, arrays byte-for-byte, closures of callables)
      modulo the benign caches, and
  (b) a behavioural fingerprint (parameter names, name, logd and gradient at probe points, a seeded
      sample)
must be what they were before the program started; every derived object is fingerprinted when it is
returned and again at the end of the program (siblings do not influence one another); a conditioned
copy must report the name of its original.  Sampler scenarios (legacy and experimental samplers on
conditioned copies, Gibbs / HybridGibbs with thousands of re-conditionings) are oracle-only.
"""
import math, random, copy as _copy, functools, types, hashlib
import numpy as np
from harness.core import import_cuqi, quiet
from harness.props import c01

NAME_POOL = c01.NAME_POOL + ["q", "q2", "ln", "rg", "p1", "p2", "p3", "p4", "c1", "c2", "c3", "mp",
                             "s9", "q3", "q4", "gs", "gc", "gn", "gb", "gp", "ym", "xm", "sm"]          # ids of variable names on the model side
ATTR_KEY_BASE = 100                                            # ids of attribute-named conditioning variables
FAMS = ["Gaussian", "Normal", "Laplace", "GMRF", "LMRF", "Gamma", "Lognormal", "RegularizedGaussian"]

# benign caches: python attribute names that may be written on a pre-existing object
BENIGN_ANY = {"_variable_name"}                 # a geometry's label
BENIGN_FILL = {"_mutable_vars", "_coefs", "_coefs_inverse", "_fun_shape"}   # lazily cached once (absent/None -> value); must not change afterwards
                                                # (`_coefs*`: KLExpansion's decay coefficients, a function of num_modes/decay_rate)


# ============================================================================ tracing
class Tracer:
    """logs attribute writes and allocations of instances of the cuqi base classes"""
    def __init__(self, cuqi):
        from cuqi.density import Density
        from cuqi.distribution import JointDistribution
        from cuqi.model import Model
        from cuqi.geometry import Geometry
        self.bases = [Density, JointDistribution, Model, Geometry]
        self.alloc_bases = (Density, JointDistribution, Model)
        self.writes = []      # (obj, attr)
        self.allocs = []      # objects
        self.keep = []        # strong refs (ids stay unique)
        self.on = False
        self.saved = {}

    def install(self):
        tr = self
        for B in self.bases:
            self.saved[B] = (B.__dict__.get("__setattr__"), B.__dict__.get("__new__"))

            def _sa(obj, k, v, tr=tr):
                if tr.on:
                    tr.writes.append((obj, k))
                object.__setattr__(obj, k, v)

            def _new(cls, *a, tr=tr, **kw):
                o = object.__new__(cls)
                if tr.on and isinstance(o, tr.alloc_bases):
                    tr.allocs.append(o)
                    tr.keep.append(o)
                return o
            B.__setattr__ = _sa
            B.__new__ = staticmethod(_new)

    def uninstall(self):
        for B, (sa, nw) in self.saved.items():
            if sa is None:
                del B.__setattr__
            else:
                B.__setattr__ = sa
            if nw is None:
                del B.__new__
            else:
                B.__new__ = nw
        self.saved = {}

    def start(self):
        self.writes, self.allocs, self.on = [], [], True

    def stop(self):
        self.on = False
        return self.writes, self.allocs


def fd_reachable(o, depth=0):
    """is the finite-difference gradient option switched on for `o` or any density it evaluates through?"""
    if depth > 3:
        return False
    try:
        if o.FD_enabled:
            return True
    except Exception:  # noqa
        pass
    for attr in ("distribution", "likelihood", "prior", "_gaussian"):
        sub = getattr(o, attr, None) if attr in getattr(o, "__dict__", {}) else None
        if sub is not None and fd_reachable(sub, depth + 1):
            return True
    for sub in getattr(o, "__dict__", {}).get("_densities", []) or []:
        if fd_reachable(sub, depth + 1):
            return True
    return False


def letter(cuqi, o):
    from cuqi.distribution import JointDistribution, Posterior, Distribution, Lognormal, MultipleLikelihoodPosterior
    from cuqi.implicitprior import RegularizedGaussian
    from cuqi.likelihood import Likelihood
    from cuqi.density import EvaluatedDensity
    from cuqi.model import Model
    from cuqi.geometry import Geometry
    if isinstance(o, MultipleLikelihoodPosterior):
        return "M"
    if isinstance(o, Posterior):
        return "P"
    if isinstance(o, JointDistribution):
        return "J"
    if isinstance(o, Lognormal):
        return "n"
    if isinstance(o, RegularizedGaussian):
        return "r"
    if isinstance(o, Likelihood):
        return "L"
    if isinstance(o, EvaluatedDensity):
        return "E"
    if isinstance(o, Distribution):
        return "d"
    if isinstance(o, Model):
        return "A"
    if isinstance(o, Geometry):
        return "g"
    return "?"


# ============================================================================ structural snapshot
def _is_cuqi_obj(o):
    m = getattr(type(o), "__module__", "") or ""
    return m.startswith("cuqi") and hasattr(o, "__dict__")


def snapshot(root, skip_name_of_inner=False):
    """deep, identity-aware structural description of everything reachable from `root` through
    attributes, containers and closures, modulo the benign caches.  Two snapshots of the same live
    objects are equal iff no non-benign field / array element / closure cell changed."""
    memo = {}
    fill = {}
    alive = []          # temporaries must not be freed during the walk (their ids could be reused)

    def walk(o, depth, inner_gauss=False):
        if o is None or isinstance(o, (bool, int, float, complex, str, bytes)):
            return o if not (isinstance(o, float) and o != o) else "nan"
        if isinstance(o, (np.floating, np.integer, np.bool_)):
            return ("np", repr(o))
        oid = id(o)
        if oid in memo:
            return ("seen", oid)
        memo[oid] = len(memo)
        alive.append(o)
        if depth > 12:
            return ("deep", type(o).__name__)
        if isinstance(o, np.ndarray):
            if o.dtype == object:
                return ("objarr", o.shape, [walk(x, depth + 1) for x in o.ravel().tolist()])
            return ("arr", o.shape, str(o.dtype), hashlib.sha1(np.ascontiguousarray(o).tobytes()).hexdigest())
        if hasattr(o, "tocsr") and hasattr(o, "shape") and hasattr(o, "nnz"):   # scipy sparse
            c = o.tocsr().copy()          # canonical form of the *matrix* (scipy sorts indices in place lazily)
            c.sum_duplicates(); c.sort_indices(); c.eliminate_zeros()
            return ("sparse", o.shape, type(o).__name__, hashlib.sha1(c.indptr.tobytes() + c.indices.tobytes() + c.data.tobytes()).hexdigest())
        if isinstance(o, (list, tuple)):
            return (type(o).__name__, [walk(x, depth + 1) for x in o])
        if isinstance(o, (set, frozenset)):
            return ("set", sorted(repr(walk(x, depth + 1)) for x in o))
        if isinstance(o, dict):
            return ("dict", [(repr(k), walk(v, depth + 1)) for k, v in o.items()])
        if isinstance(o, functools.partial):
            # identity and bound keywords of a partial: a partial shared between an original and a copy and later
            # mutated in place is exactly the aliasing to catch
            return ("partial", oid, walk(o.func, depth + 1), walk(o.args, depth + 1), walk(dict(o.keywords), depth + 1))
        if isinstance(o, types.MethodType):
            return ("method", o.__func__.__qualname__, walk(o.__self__, depth + 1))
        if isinstance(o, types.FunctionType):
            cells = []
            for c in (o.__closure__ or ()):
                try:
                    cells.append(walk(c.cell_contents, depth + 1))
                except ValueError:
                    cells.append("empty-cell")
            return ("func", o.__qualname__, id(o.__code__), cells, walk(o.__defaults__, depth + 1), walk(o.__kwdefaults__, depth + 1))
        if isinstance(o, (types.BuiltinFunctionType, type, types.ModuleType)):
            return ("static", repr(o))
        if isinstance(o, np.random.RandomState):
            return ("rng", "not-followed")
        if hasattr(o, "__dict__"):
            from_cuqi = _is_cuqi_obj(o)
            d = {}
            for k, v in vars(o).items():
                if k in BENIGN_ANY:
                    continue
                if k in BENIGN_FILL:
                    if v is not None:
                        fill[(oid, k)] = walk(v, depth + 1)
                    continue
                if k == "_cov" and "_sqrtprec" in vars(o):
                    # Gaussian.compute_cov() (used by cdf) caches the full covariance in `_cov`: None -> matrix, or a
                    # scalar / vector covariance -> the same covariance as a full matrix.  Compared as a matrix.
                    if v is None:
                        d[k] = "UNSET-LAZY"; continue
                    try:
                        sp = vars(o).get("_sqrtprec")
                        n = sp.shape[0] if hasattr(sp, "shape") and len(getattr(sp, "shape", ())) == 2 else o._geometry.par_dim
                        vv = np.asarray(v.todense() if hasattr(v, "todense") else v, dtype=float)
                        if vv.size == 1:
                            vv = float(vv.ravel()[0]) * np.eye(n)
                        elif vv.ndim == 1:
                            vv = np.diag(vv)
                        d[k] = ("cov-matrix", hashlib.sha1(np.ascontiguousarray(np.asarray(vv)).tobytes()).hexdigest())
                        continue
                    except Exception:  # noqa
                        pass
                if k == "_Gaussian" and type(o).__name__ == "Lognormal":
                    continue                      # shared Gaussian, re-synchronised on every access
                if k == "_name" and inner_gauss:
                    continue                      # pushed from the RegularizedGaussian on every access
                if k == "_geometry" and type(v).__name__.startswith("_DefaultGeometry") and getattr(v, "par_dim", 0) is None:
                    d[k] = "UNSET-LAZY"           # dimension not given: inferred from the mutable variables on first access
                    continue
                d[k] = walk(v, depth + 1, inner_gauss=(k == "_gaussian" and type(o).__name__ in
                                                       ("RegularizedGaussian", "ConstrainedGaussian", "NonnegativeGaussian")))
            return ("obj", type(o).__name__, d) if from_cuqi else ("pyobj", type(o).__name__, d)
        return ("other", type(o).__name__, repr(o)[:80])

    return walk(root, 0), fill


def snap_diff(a, b, path="root", out=None):
    """first few paths where two snapshots differ"""
    out = [] if out is None else out
    if len(out) >= 4:
        return out
    if a == "UNSET-LAZY" and isinstance(b, tuple) and len(b) == 3 and b[0] == "obj" and str(b[1]).startswith("_DefaultGeometry"):
        return out            # lazily inferred default geometry (function of the immutable mutable-variable lengths)
    if a == "UNSET-LAZY" and path.endswith("._cov") and isinstance(b, tuple) and b and b[0] == "cov-matrix":
        return out            # covariance computed on demand from the square-root precision
    if type(a) != type(b):
        out.append(path); return out
    if isinstance(a, tuple) and isinstance(b, tuple) and (len(a) != len(b) or (a and b and a[0] != b[0] and isinstance(a[0], str) and isinstance(b[0], str))):
        out.append(path + ":shape"); return out
    if isinstance(a, tuple) and len(a) == 3 and a and a[0] in ("obj", "pyobj") and isinstance(a[2], dict) and isinstance(b[2], dict):
        if a[1] != b[1]:
            out.append(path + ":class")
        for k in sorted(set(a[2]) | set(b[2])):
            if k not in a[2] or k not in b[2]:
                out.append(f"{path}.{k}(added/removed)")
            else:
                snap_diff(a[2][k], b[2][k], f"{path}.{k}", out)
        return out
    if isinstance(a, (tuple, list)):
        if len(a) != len(b):
            out.append(path + ":len"); return out
        for i, (x, y) in enumerate(zip(a, b)):
            snap_diff(x, y, f"{path}[{i}]", out)
        return out
    if a != b:
        out.append(path)
    return out


def snap_equal(s0, s1):
    """snapshots equal modulo benign caches; fill-once caches may appear but must not change"""
    (a, fa), (b, fb) = s0, s1
    d = snap_diff(a, b)
    for k, v in fa.items():
        if k in fb and fb[k] != v:
            d.append(f"fill-once cache {k[1]} changed")
        if k not in fb:
            d.append(f"fill-once cache {k[1]} removed")
    return d


# ============================================================================ behavioural fingerprint
def _canon(x):
    if isinstance(x, Exception):
        return "exc:" + type(x).__name__
    try:
        a = np.asarray(x, dtype=float).ravel()
        return "val:" + ",".join("nan" if v != v else repr(float(v)) for v in a)
    except Exception:  # noqa
        return "obj:" + type(x).__name__


def _try(f):
    try:
        with quiet():
            return f()
    except Exception as e:  # noqa
        return e


def behaviour(cuqi, o, probes, vals=None, maxprod=0):
    """observable behaviour of `o`: names, logd / gradient at the probe points, a seeded sample.
    `probes` = list of dicts name -> value covering every variable name.  With `vals` (name -> two candidate
    values) and at most `maxprod` remaining parameters, logd is evaluated at *every* completion of the remaining
    parameters (2^k points) instead of the two diagonal probes."""
    from cuqi.model import Model
    out = {}
    L = letter(cuqi, o)
    out["kind"] = L
    if isinstance(o, Model):
        out["args"] = list(o._non_default_args)
        out["fwd"] = [_canon(_try(lambda p=p, key=key: o.forward(np.asarray(p[key], dtype=float))))
                      for p in probes for key in ("__modelinput__", "__modelinputB__") if key in p]
        out["geoms"] = (type(o.domain_geometry).__name__, type(o.range_geometry).__name__)
        return out
    names = _try(lambda: list(o.get_parameter_names()))
    out["names"] = names if not isinstance(names, Exception) else _canon(names)
    if L in ("d", "n", "r", "L", "E"):
        nm = _try(lambda: o.name)
        out["name"] = "exc" if isinstance(nm, Exception) else nm
    if L in ("d", "n", "r", "P", "M"):
        out["dim"] = _canon(_try(lambda: o.dim))
    if L in ("d", "n", "r", "L", "P"):
        out["fd"] = (_canon(_try(lambda: o.FD_enabled)), _canon(_try(lambda: o.FD_epsilon)))
    if L == "L":
        # what a likelihood reports about its forward model (must follow the *current* data distribution)
        m = _try(lambda: o.model)
        g = _try(lambda: o.geometry)
        out["lik"] = ("exc:" + type(m).__name__ if isinstance(m, Exception) else type(m).__name__,
                      "exc" if isinstance(g, Exception) else (type(g).__name__, str(getattr(g, "par_shape", None))),
                      _canon(_try(lambda: o.dim)), _canon(_try(lambda: o.par_shape)), _canon(_try(lambda: o.fun_shape)))
    if L in ("d", "n", "r"):
        # geometry class / shapes (a model application must not re-wire the geometry of its argument)
        g = _try(lambda: o.geometry)
        out["geom"] = "exc" if isinstance(g, Exception) else (type(g).__name__, str(getattr(g, "par_shape", None)), str(getattr(g, "fun_shape", None)))
    if isinstance(names, Exception):
        return out
    ev = []
    if vals is not None and 1 <= len(names) <= maxprod and all(k in vals for k in names):
        import itertools
        probes = [dict(zip(names, [vals[k][i] for k, i in zip(names, combo)])) for combo in itertools.product((0, 1), repeat=len(names))]
    for p in probes:
        kw = {k: p[k] for k in names if k in p}
        if len(kw) != len(names):
            ev.append("unprobed"); continue
        ev.append(_canon(_try(lambda: o.logd(**kw))))
        if L in ("d", "n", "P", "L", "M") and len(names) == 1:
            ev.append(_canon(_try(lambda: o.gradient(**kw) if L == "L" else o.gradient(kw[names[0]]))))
    out["eval"] = ev
    if L in ("d", "n") and len(names) == 1:
        st = np.random.get_state()
        try:
            np.random.seed(1234)
            smp = _try(lambda: o.sample(2))
            out["sample"] = _canon(smp if isinstance(smp, Exception) else np.asarray(smp.samples if hasattr(smp, "samples") else smp))
            out["sample_geom"] = "exc" if isinstance(smp, Exception) else type(getattr(smp, "geometry", None)).__name__
        finally:
            np.random.set_state(st)
    return out


FRESH_MARGIN = {"max_dev_over_tolerance": 0.0, "comparisons": 0}      # the only float tolerance of this check (everything else is exact)


def fresh_compare(o, ref, xs):
    """`o` (a fully conditioned copy) against a freshly constructed distribution with the same parameters: logd, pdf,
    gradient at the candidate points and a seeded sample must agree (1e-9)"""
    def same(a, b):
        if isinstance(a, Exception) or isinstance(b, Exception):
            return isinstance(a, Exception) and isinstance(b, Exception) and type(a) is type(b)
        try:
            a = np.asarray(a.samples if hasattr(a, "samples") else a, dtype=float); b = np.asarray(b.samples if hasattr(b, "samples") else b, dtype=float)
        except Exception:  # noqa
            return True
        if a.shape == b.shape and a.size:
            fin = np.isfinite(a) & np.isfinite(b)
            if fin.any():
                ratio = float(np.max(np.abs(a[fin] - b[fin]) / (1e-11 + 1e-9 * np.abs(b[fin]))))
                FRESH_MARGIN["max_dev_over_tolerance"] = max(FRESH_MARGIN["max_dev_over_tolerance"], ratio)
            FRESH_MARGIN["comparisons"] += 1
        return a.shape == b.shape and bool(np.allclose(a, b, rtol=1e-9, atol=1e-11, equal_nan=True))
    bad = []
    for i, x in enumerate(xs):
        fd = _try(lambda: o.FD_enabled)
        for nm, f in (("logd", lambda d: d.logd(x)), ("pdf", lambda d: d.pdf(x)), ("gradient", lambda d: d.gradient(x))):
            if nm == "gradient" and fd is not False:
                continue          # finite-difference gradients were switched on for this object (a configuration step)
            a, b = _try(lambda: f(o)), _try(lambda: f(ref))
            if not same(a, b):
                bad.append(f"{nm}@{i}: {_canon(a)[:60]} vs fresh {_canon(b)[:60]}")
    st = np.random.get_state()
    try:
        np.random.seed(4321); a = _try(lambda: o.sample(2))
        np.random.seed(4321); b = _try(lambda: ref.sample(2))
    finally:
        np.random.set_state(st)
    if not same(a, b):
        bad.append(f"sample: {_canon(a)[:60]} vs fresh {_canon(b)[:60]}")
    return "ok" if not bad else "; ".join(bad[:3])


# ============================================================================ model graphs -> real objects + model heap
class World:
    """the original objects of one program, their encoding for the Lean heap model, the probes"""
    def __init__(self, cuqi, rng, thorough, dense=False):
        from cuqi.distribution import JointDistribution, Gaussian, Lognormal
        self.recipes = {}    # label -> f(env) -> freshly constructed distribution with the parameters bound in env
        from cuqi.implicitprior import RegularizedGaussian
        from cuqi.model import Model, LinearModel
        self.cuqi = cuqi
        vs, shape = c01.gen_graph(rng, thorough)
        self.vs, self.shape = vs, shape
        with quiet():
            self.ds = [c01.build_density(cuqi, v) for v in vs]
        self.vals = {v.name: v.vals for v in vs}
        objs = []            # (letter, fields dict) in address order
        self.addr = {}       # label -> address
        self.live = {}       # address -> python object (originals)
        fnid = [0]

        def slot_of(sp):
            if not sp.parents:
                return f"n{rng.randint(0, 9)}"
            fnid[0] += 1
            return f"f{fnid[0]}/" + ".".join(str(NAME_POOL.index(p)) for p in sp.parents)

        for v, d in zip(vs, self.ds):
            g = len(objs); objs.append(("g", {}))
            fields = {"fam": f"n{FAMS.index(v.family)}", "name": f"n{NAME_POOL.index(v.name)}", "geom": f"r{g}"}
            present = [a for a in c01.ATTR_ORDER[v.family] if a in v.attrs]
            for i, a in enumerate(present):
                fields[f"s{i}"] = slot_of(v.attrs[a])
            self.addr[v.name] = len(objs); self.live[len(objs)] = d
            objs.append(("d", fields))
        with quiet():
            self.J = JointDistribution(*self.ds)
        self.addr["J"] = len(objs); self.live[len(objs)] = self.J
        objs.append(("J", {"dens": "R" + ".".join(str(self.addr[v.name]) for v in vs)}))

        # ---- extras: Lognormal (possibly conditional on q), RegularizedGaussian (possibly on q2), a Model
        dq = rng.randint(1, 3)
        self.vals["q"] = [np.array([rng.randint(-3, 3) / 2.0 for _ in range(dq)]) for _ in range(2)]
        self.vals["q2"] = [np.array([rng.randint(-3, 3) / 2.0 for _ in range(dq)]) for _ in range(2)]
        self.vals["ln"] = [np.array([rng.choice([0.5, 1.0, 2.0, 3.0]) for _ in range(dq)]) for _ in range(2)]
        self.vals["rg"] = [np.array([rng.randint(0, 4) / 2.0 for _ in range(dq)]) for _ in range(2)]
        variant = rng.choice(["mean", "mean", "cov", "cov", "none"])   # (both callable: cuqi cannot build the inner Gaussian)
        self.ln_cond = variant == "mean"           # mean conditional on q
        self.ln_covcond = variant == "cov"         # cov conditional on s9
        self.vals["s9"] = [np.array([float(x)]) for x in rng.sample([0.5, 1.0, 2.0, 4.0], 2)]
        M1 = c01._imat(rng, dq, dq)
        ln_mean0 = np.array([rng.randint(-2, 2) / 2.0 for _ in range(dq)])
        ln_cov0 = float(rng.choice([0.5, 1.0, 2.0]))
        ln_mean = (lambda q: M1 @ np.asarray(q, dtype=float).reshape(-1)) if self.ln_cond else ln_mean0
        ln_cov = (lambda s9: float(np.asarray(s9).reshape(-1)[0]) * np.eye(dq)) if self.ln_covcond else ln_cov0 * np.eye(dq)
        with quiet():
            self.LN = Lognormal(mean=ln_mean, cov=ln_cov, geometry=dq, name="ln")

        def ln_fresh(env):
            m = M1 @ np.asarray(env["q"], dtype=float).reshape(-1) if self.ln_cond else ln_mean0
            c = (float(np.asarray(env["s9"]).reshape(-1)[0]) if self.ln_covcond else ln_cov0) * np.eye(dq)
            return Lognormal(mean=m, cov=c, geometry=dq)
        self.recipes["ln"] = ln_fresh
        g = len(objs); objs.append(("g", {}))
        c = len(objs); objs.append(("c", {"cmean": "n0", "ccov": "n1"}))
        self.addr["ln"] = len(objs); self.live[len(objs)] = self.LN
        objs.append(("n", {"fam": f"n{FAMS.index('Lognormal')}", "name": f"n{NAME_POOL.index('ln')}", "geom": f"r{g}",
                           "s0": (f"f90/{NAME_POOL.index('q')}" if self.ln_cond else "n4"),
                           "s1": (f"f94/{NAME_POOL.index('s9')}" if self.ln_covcond else "n5"), "cacheG": f"r{c}"}))
        self.rg_cond = rng.random() < 0.5
        M2 = c01._imat(rng, dq, dq)
        with quiet():
            if self.rg_cond:
                self.RG = RegularizedGaussian(mean=lambda q2: M2 @ np.asarray(q2, dtype=float).reshape(-1), cov=1.0,
                                              constraint="nonnegativity", geometry=dq, name="rg")
            else:
                self.RG = RegularizedGaussian(mean=np.zeros(dq), cov=2.0, constraint="nonnegativity", geometry=dq, name="rg")
        g = len(objs); objs.append(("g", {}))
        gi = len(objs); objs.append(("d", {"fam": "n0", "geom": f"r{g}", "s0": (f"f91/{NAME_POOL.index('q2')}" if self.rg_cond else "n0"), "s1": "n2"}))
        self.addr["rg"] = len(objs); self.live[len(objs)] = self.RG
        objs.append(("r", {"fam": f"n{FAMS.index('RegularizedGaussian')}", "name": f"n{NAME_POOL.index('rg')}", "gauss": f"r{gi}"}))
        # a Model whose domain matches the first vector variable of the graph (or the lognormal)
        tgt = rng.choice(vs)
        self.model_target = tgt.name
        mdim = tgt.dim
        M3 = c01._imat(rng, 2, mdim)
        lin = rng.random() < 0.5
        with quiet():
            if lin:
                self.A = LinearModel(M3)
            else:
                self.A = Model(lambda zz_in: M3 @ (np.asarray(zz_in, dtype=float).reshape(-1) ** 2), range_geometry=2, domain_geometry=mdim)
        self.model_probe = [np.array([rng.randint(-2, 2) for _ in range(mdim)], dtype=float) for _ in range(2)]
        self.addr["A"] = len(objs); self.live[len(objs)] = self.A
        objs.append(("A", {"args": "i" + str(len(NAME_POOL) + 5)}))
        # a model whose DOMAIN geometry is an expansion (StepExpansion / KLExpansion), applied to a default-geometry
        # distribution: the model must not re-wire the geometry of its argument
        from cuqi.geometry import StepExpansion, KLExpansion
        tgt2 = rng.choice(vs)
        self.model_targets = {"A": tgt.name, "B": tgt2.name}
        grid = np.linspace(0, 1, 12)
        M5 = c01._imat(rng, 2, 12)
        with quiet():
            dg = StepExpansion(grid, n_steps=tgt2.dim) if rng.random() < 0.6 else KLExpansion(grid, num_modes=tgt2.dim)
            self.B = Model(lambda zz_fun: M5 @ np.asarray(zz_fun, dtype=float).reshape(-1), range_geometry=2, domain_geometry=dg)
        self.addr["B"] = len(objs); self.live[len(objs)] = self.B
        objs.append(("A", {"args": "i" + str(len(NAME_POOL) + 6)}))
        self.modelB_probe = [np.array([rng.randint(-2, 2) for _ in range(tgt2.dim)], dtype=float) for _ in range(2)]
        # ---- a factor whose mean is a callable of 3-4 arguments and whose covariance is a callable of 3 (or a constant),
        #      priors for all of them, and their joint: conditioned step by step, partial upon partial
        from cuqi.distribution import Gamma
        km, dm = rng.choice([3, 4]), rng.randint(1, 3)
        pnames = [f"p{i + 1}" for i in range(km)]
        cov_fn = rng.random() < 0.6
        cnames = ["c1", "c2", "c3"] if cov_fn else []
        M4 = c01._imat(rng, dm, dm)
        for nm in pnames:
            a = np.array([rng.randint(-4, 4) / 2.0 for _ in range(dm)]); b = a + rng.choice([0.5, 1.0, -1.5])
            self.vals[nm] = [a, b]
        for nm in cnames:
            self.vals[nm] = [np.array([float(x)]) for x in rng.sample([0.5, 1.0, 2.0, 4.0], 2)]
        a = np.array([rng.randint(-4, 4) / 2.0 for _ in range(dm)])
        self.vals["mp"] = [a, a + 1.0]

        memo_mean = {} if rng.random() < 0.35 else None     # callable returning the SAME array object for the same arguments

        def mean_fn(*xs):
            xs = [np.asarray(x, dtype=float).reshape(-1) for x in xs]
            key = tuple(x.tobytes() for x in xs)
            if memo_mean is not None and key in memo_mean:
                return memo_mean[key]
            out = xs[0] + xs[1] * xs[2]
            out = out + M4 @ xs[3] if len(xs) > 3 else out
            if memo_mean is not None:
                memo_mean[key] = out
            return out

        def cov_val(*cs):
            cs = [float(np.asarray(c).reshape(-1)[0]) for c in cs]
            return cs[0] * cs[1] + cs[2]
        cconst = float(rng.choice([0.5, 1.0, 2.0]))
        with quiet():
            self.MP = Gaussian(mean=c01._named_lambda(pnames, mean_fn), cov=(c01._named_lambda(cnames, cov_val) if cov_fn else cconst),
                               geometry=dm, name="mp")
            pri = [Gaussian(np.zeros(dm), float(rng.choice([1.0, 2.0, 4.0])), geometry=dm, name=nm) for nm in pnames]
            pri += [Gamma(float(rng.choice([1.0, 2.0, 3.0])), 1.0, geometry=1, name=nm) for nm in cnames]
            self.J2 = JointDistribution(self.MP, *pri)
        g = len(objs); objs.append(("g", {}))
        self.addr["mp"] = len(objs); self.live[len(objs)] = self.MP
        objs.append(("d", {"fam": "n0", "name": f"n{NAME_POOL.index('mp')}", "geom": f"r{g}",
                           "s0": "f92/" + ".".join(str(NAME_POOL.index(x)) for x in pnames),
                           "s1": ("f93/" + ".".join(str(NAME_POOL.index(x)) for x in cnames)) if cov_fn else "n3"}))
        for nm, d in zip(pnames + cnames, pri):
            g = len(objs); objs.append(("g", {}))
            self.addr[nm] = len(objs); self.live[len(objs)] = d
            objs.append(("d", {"fam": f"n{0 if nm[0] == 'p' else FAMS.index('Gamma')}", "name": f"n{NAME_POOL.index(nm)}", "geom": f"r{g}", "s0": "n1", "s1": "n2"}))
        self.addr["J2"] = len(objs); self.live[len(objs)] = self.J2
        objs.append(("J", {"dens": "R" + ".".join(str(self.addr[x]) for x in ["mp"] + pnames + cnames)}))
        self.mp_args = (pnames, cnames)

        def mp_fresh(env):
            m = mean_fn(*[env[x] for x in pnames])
            c = cov_val(*[env[x] for x in cnames]) if cov_fn else cconst
            return Gaussian(mean=m, cov=c, geometry=dm)
        self.recipes["mp"] = mp_fresh
        # ---- dense FULL (non-triangular) matrices in all four forms: conditioned copies share `_sqrtprec` etc. with
        #      their original, so an in-place numpy write during sampling / evaluation shows up in the original
        self.dense = []
        if dense:
            dd = rng.randint(2, 4)
            self.vals["q3"] = [np.array([rng.randint(-3, 3) / 2.0 for _ in range(dd)]) for _ in range(2)]

            def full(n):
                while True:
                    R = c01._imat(rng, n, n) + 3.0 * np.eye(n)
                    if abs(np.linalg.det(R)) > 0.5 and not np.allclose(R, np.tril(R)) and not np.allclose(R, R.T):
                        return R
            Mq = c01._imat(rng, dd, dd)
            specs = [("gs", "sqrtprec", full(dd), True), ("gc", "sqrtcov", full(dd), True), ("gn", "sqrtprec", full(dd), False)]
            if rng.random() < 0.5:
                nb = rng.randint(76, 80)
                self.vals["q4"] = [np.array([float(x)]) for x in rng.sample([-1.0, 0.5, 1.0, 2.0], 2)]
                Bm = np.array([[rng.randint(-2, 2) for _ in range(nb)] for _ in range(nb)], dtype=float)
                spd = Bm @ Bm.T / nb + 2.0 * np.eye(nb)
                specs += [("gb", "cov", spd, "big"), ("gp", "prec", spd.copy(), "big")]
            for lab, form, Mx, cond in specs:
                n = Mx.shape[0]
                a = np.array([rng.randint(-4, 4) / 2.0 for _ in range(n)])
                self.vals[lab] = [a, a + 0.5]
                if cond == "big":
                    mean = lambda q4, n=n: np.ones(n) * float(np.asarray(q4).reshape(-1)[0])
                    par, fid = "q4", 96
                    fresh_mean = lambda env, n=n: np.ones(n) * float(np.asarray(env["q4"]).reshape(-1)[0])
                elif cond:
                    mean = lambda q3, Mq=Mq: Mq @ np.asarray(q3, dtype=float).reshape(-1)
                    par, fid = "q3", 95
                    fresh_mean = lambda env, Mq=Mq: Mq @ np.asarray(env["q3"], dtype=float).reshape(-1)
                else:
                    mean = np.array([rng.randint(-2, 2) / 2.0 for _ in range(n)])
                    par, fid = None, None
                    fresh_mean = lambda env, m=mean: m.copy()
                with quiet():
                    d = Gaussian(mean=mean, **{form: Mx}, geometry=n, name=lab)
                self.recipes[lab] = (lambda env, form=form, Mx=Mx, n=n, fm=fresh_mean: Gaussian(mean=fm(env), **{form: Mx.copy()}, geometry=n))
                g = len(objs); objs.append(("g", {}))
                self.addr[lab] = len(objs); self.live[len(objs)] = d
                objs.append(("d", {"fam": "n0", "name": f"n{NAME_POOL.index(lab)}", "geom": f"r{g}",
                                   "s0": (f"f{fid}/{NAME_POOL.index(par)}" if par else "n1"), "s1": "n2"}))
                self.dense.append(lab)
        # ---- a hierarchical data model y ~ Gaussian(A x, c / s) with a cuqi forward model: its likelihood has TWO parameters
        #      (model input and noise hyper-parameter); conditioning on the model input alone keeps it a Likelihood
        from cuqi.geometry import Continuous1D
        nx, ny = rng.randint(2, 3), 3
        Am = c01._imat(rng, ny, nx)
        lin = rng.random() < 0.6
        cy = float(rng.choice([0.5, 1.0, 2.0]))
        with quiet():
            if lin:
                Amod = LinearModel(c01._named_lambda(["xm"], lambda x: Am @ np.asarray(x, dtype=float).reshape(-1)),
                                   lambda y: Am.T @ np.asarray(y, dtype=float).reshape(-1), range_geometry=ny,
                                   domain_geometry=(Continuous1D(nx) if rng.random() < 0.5 else nx))
            else:
                Amod = Model(c01._named_lambda(["xm"], lambda x: Am @ (np.asarray(x, dtype=float).reshape(-1) ** 2)), range_geometry=ny, domain_geometry=nx)
            self.YM = Gaussian(mean=Amod, cov=lambda sm: cy / float(np.asarray(sm).reshape(-1)[0]), geometry=ny, name="ym")
            xm = Gaussian(np.zeros(nx), 2.0, geometry=Amod.domain_geometry, name="xm")
            sm = Gamma(2.0, 1.0, geometry=(Continuous1D(1) if rng.random() < 0.5 else 1), name="sm")
            self.J3 = JointDistribution(self.YM, xm, sm)
        self.vals["ym"] = [np.array([rng.randint(-4, 4) / 2.0 for _ in range(ny)]) for _ in range(2)]
        self.vals["xm"] = [np.array([rng.randint(-3, 3) / 2.0 for _ in range(nx)]), np.array([rng.randint(-3, 3) / 2.0 + 0.25 for _ in range(nx)])]
        self.vals["sm"] = [np.array([float(v)]) for v in rng.sample([0.5, 1.0, 2.0, 4.0], 2)]
        for lab, d, slots in (("ym", self.YM, {"s0": f"f97/{NAME_POOL.index('xm')}", "s1": f"f98/{NAME_POOL.index('sm')}"}),
                              ("xm", xm, {"s0": "n1", "s1": "n2"}), ("sm", sm, {"s0": "n2", "s1": "n1"})):
            g = len(objs); objs.append(("g", {}))
            self.addr[lab] = len(objs); self.live[len(objs)] = d
            objs.append(("d", {"fam": f"n{FAMS.index('Gamma') if lab == 'sm' else 0}", "name": f"n{NAME_POOL.index(lab)}", "geom": f"r{g}", **slots}))
        self.addr["J3"] = len(objs); self.live[len(objs)] = self.J3
        objs.append(("J", {"dens": "R" + ".".join(str(self.addr[x]) for x in ("ym", "xm", "sm"))}))
        self.recipes["ym"] = lambda env: Gaussian(mean=(Am @ np.asarray(env["xm"], dtype=float).reshape(-1) if lin else Am @ (np.asarray(env["xm"], dtype=float).reshape(-1) ** 2)),
                                                  cov=cy / float(np.asarray(env["sm"]).reshape(-1)[0]), geometry=ny)
        import copy as _cp
        self.pristine = _cp.deepcopy(self.live)      # untouched twins of all originals (same sharing structure)
        # ---- which log-densities are ndarrays (decides what `_constant += …` does): observed on the originals
        probe0 = {nm: vv[0] for nm, vv in self.vals.items()}
        for lab, a in self.addr.items():
            o = self.live[a]
            if objs[a][0] in ("d", "n", "r"):
                names = _try(lambda: list(o.get_parameter_names()))
                if not isinstance(names, Exception) and all(k in probe0 for k in names):
                    v = _try(lambda: o.logd(**{k: probe0[k] for k in names}))
                    if isinstance(v, np.ndarray):
                        objs[a][1]["arrv"] = "n1"
        self.objs = objs
        self.n0 = len(objs)
        self.probes = []
        for k in range(2):
            p = {nm: vv[k] for nm, vv in self.vals.items()}
            p["__modelinput__"] = self.model_probe[k]
            p["__modelinputB__"] = self.modelB_probe[k]
            self.probes.append(p)

    def heap_text(self):
        return ";".join(f"{L}:" + ",".join(f"{k}={v}" for k, v in f.items()) for L, f in self.objs)

    def originals(self):
        return [(lab, self.live[a]) for lab, a in self.addr.items()]

    def desc(self):
        return {"shape": self.shape, "vars": [(v.name, v.family, v.dim, {a: s.parents for a, s in v.attrs.items()}) for v in self.vs],
                "ln_cond": self.ln_cond, "rg_cond": self.rg_cond, "model_target": self.model_target,
                "ln_covcond": self.ln_covcond, "dense": self.dense, "model_targets": self.model_targets,
                "mp": {"mean_args": self.mp_args[0], "cov_args": self.mp_args[1]}}


def name_id(nm):
    if nm in NAME_POOL:
        return NAME_POOL.index(nm)
    return None


# ============================================================================ one program
class Program:
    def __init__(self, cuqi, tracer, rng, thorough, idx, length=None, script=None):
        self.cuqi, self.tr, self.rng, self.idx = cuqi, tracer, rng, idx
        self.w = World(cuqi, rng, thorough, dense=self.dense_world)
        self.label_of = {a: lab for lab, a in self.w.addr.items()}
        self.meta = {}          # op index of a derived object -> (root label, values bound so far)
        self.inplace_events = []
        self.last_ok = {}       # derived object -> last op after which it was found unchanged
        self.fresh_bad = []
        self.length = length if length is not None else rng.randint(6, 40 if thorough else 28)
        self.script = script
        self.pool = []          # (op index, python object) of objects returned by ops
        self.ops_txt = []       # model-side op encodings
        self.impl = []          # impl-side records, aligned with ops
        self.ops_desc = []

    dense_world = False
    behave_every_op = False
    maxprod = 2            # completions: every combination of the two candidate values for <= maxprod remaining parameters
    pool_checks = 3        # derived objects re-checked after every op (None = all)

    def beh(self, o, root=None, env=None):
        out = behaviour(self.cuqi, o, self.w.probes, self.w.vals, self.maxprod)
        # a fully conditioned copy must behave like a freshly constructed distribution with the same parameters
        if root in self.w.recipes and out.get("kind") in ("d", "n") and out.get("names") == [root]:
            ref = _try(lambda: self.w.recipes[root](env or {}))
            if not isinstance(ref, Exception):
                out["fresh"] = fresh_compare(o, ref, self.w.vals[root])
        return out

    def meta_of(self, ref):
        if ref.startswith("@"):
            return self.label_of.get(int(ref[1:])), {}
        return self.meta.get(int(ref[1:]), (None, {}))

    def check_pool(self, k, final=False):
        """siblings / intermediates: derived objects must be what they were when they were returned"""
        if self.sibling_bad is not None or not self.pool:
            return
        items = self.pool if final or self.pool_checks is None or len(self.pool) <= self.pool_checks else \
            random.Random(f"{self.idx}-{k}").sample(self.pool, self.pool_checks)
        for km, o in items:
            if km == k and not final:
                continue
            s1 = snapshot(o)
            d = snap_equal(self.made[km][0], s1)
            b1 = self.beh(o, *self.meta.get(km, (None, None)))
            if d or b1 != self.made[km][1]:
                bd = {kk: (self.made[km][1].get(kk), b1.get(kk)) for kk in b1 if b1.get(kk) != self.made[km][1].get(kk)}
                import re
                if d and all(re.fullmatch(r"root(\..+)?\._constant\[3\]", x) for x in d) and 0 <= k < len(self.ops_desc):
                    # only the BYTES of an ndarray `_constant` changed during a conditioning: candidate for the known
                    # in-place `+=` (confirmed against the model's prediction in judge); re-baseline and go on
                    self.inplace_events.append((k, km, d[:2], bd, self.last_ok.get(km, km)))
                    self.made[km] = (s1, b1)
                    self.last_ok[km] = k
                    continue
                self.sibling_bad = (km, d[:3], bd, k)
                return
            self.last_ok[km] = k

    # -- references
    def targets(self):
        t = [("@%d" % a, o) for a, o in self.w.live.items()]
        t += [("$%d" % k, o) for k, o in self.pool]
        return t

    def kw_for(self, names, which=None):
        kw, txt = {}, []
        for nm in names:
            if nm not in self.w.vals:
                return None, None
            k = self.rng.randint(0, 1) if which is None else which
            kw[nm] = self.w.vals[nm][k]
            txt.append(f"{name_id(nm)}={k + 1}")
        return kw, ("&".join(txt) if txt else ".")

    # -- op choice
    def choose(self):
        cuqi, rng = self.cuqi, self.rng
        from cuqi.model import Model
        ref, o = rng.choice(self.targets()) if rng.random() < 0.5 or not self.pool else rng.choice([("$%d" % k, x) for k, x in self.pool] + self.targets()[:3])
        L = letter(cuqi, o)
        if L == "A":
            nm = self.w.model_targets.get(self.meta_of(ref)[0], self.w.model_target)
            dref = "@%d" % self.w.addr[nm]
            dobj = self.w.live[self.w.addr[nm]]
            if rng.random() < 0.35:
                # the other call forms of `Model.forward`: keyword, positional + keyword, two positional, wrong keyword
                arg = list(o._non_default_args)[0]
                # (the heap encodes the argument of an ORIGINAL model by an opaque id, whatever its Python name is)
                aid = {"A": len(NAME_POOL) + 5, "B": len(NAME_POOL) + 6}.get(self.label_of.get(int(ref[1:])), 9998) if ref.startswith("@") \
                    else (name_id(arg) if name_id(arg) is not None else 9998)
                form = rng.choice(["kw", "kw", "pos+kw", "two", "wrongkw"])
                if form == "kw":
                    return ("applyp", ref, o, {arg: dobj}, f"-:{aid}={dref}", [])
                if form == "pos+kw":
                    return ("applyp", ref, o, {arg: dobj}, f"{dref}:{aid}={dref}", [dobj])
                if form == "two":
                    return ("applyp", ref, o, {}, f"{dref},{dref}:.", [dobj, dobj])
                return ("applyp", ref, o, {"zz_wrong": dobj}, f"-:9999={dref}", [])
            return ("apply", ref, o, dref, dobj)
        if L == "?":
            return None
        names = _try(lambda: list(o.get_parameter_names()))
        if isinstance(names, Exception):
            return None
        if L in ("J", "M"):
            kinds = ["cond"] * 5 + ["logd"] * 3 + ["cond0", "gibbs"]
        elif L == "P":
            kinds = ["logd"] * 4 + ["grad"] * 2 + ["cond0"] * 2
        elif L == "L":
            kinds = ["cond"] * 3 + ["logd"] * 3 + ["grad"] * 3 + ["cond0", "fd"]
        elif L == "E":
            kinds = ["cond0", "logd"]
        else:
            kinds = ["cond"] * 4 + ["logd"] * 3 + ["grad", "grad", "sample", "sample1", "samplerng", "pdf", "tolik", "tolik", "tolik", "cond0",
                     "condbad", "mkjoint", "fd", "fd"]
        kind = rng.choice(kinds)
        if L in ("d", "n", "J") and names and rng.random() < 0.12 and all(n in self.w.vals for n in names):
            # positional form: the first k parameter names in order (for a distribution the last one is the main parameter),
            # sometimes one argument too many, sometimes a keyword for a later / the same variable
            k = rng.randint(1, len(names) + (1 if rng.random() < 0.15 else 0))
            if L in ("d", "n") and k == len(names) and rng.random() < 0.5:
                k = max(1, k - 1)
            codes = [rng.randint(0, 1) for _ in range(k)]
            pos = [self.w.vals[names[min(i, len(names) - 1)]][c] for i, c in enumerate(codes)]
            kw, txt = {}, "."
            r = rng.random()
            if r < 0.25 and k < len(names):
                kw, txt = self.kw_for([names[k]])
            elif r < 0.4:
                kw, txt = self.kw_for([names[rng.randrange(min(k, len(names)))]])        # given both ways: refused
            return ("condp", ref, o, kw, ".".join(str(c + 1) for c in codes) + ":" + txt, pos)
        if kind == "cond":
            if not names:
                kind = "cond0"
            else:
                k = rng.randint(1, len(names))
                sub = rng.sample(names, k)
                if L in ("d", "n", "r") and rng.random() < 0.6 and len(names) > 1:
                    sub = [n for n in sub if n != names[-1]] or [names[0]]     # mostly keep it a distribution
                kw, txt = self.kw_for(sub)
                if kw is None:
                    return None
                return ("cond", ref, o, kw, txt)
        if kind == "cond0":
            return ("cond", ref, o, {}, ".")
        if kind == "condbad":
            return ("cond", ref, o, {c01.UNKNOWN: np.array([1.0])}, f"{len(NAME_POOL) + 9}=1")
        if kind == "logd":
            kw, txt = self.kw_for(names)
            if kw is None:
                return None
            return ("logd", ref, o, kw, txt)
        if kind == "grad":
            kw, txt = self.kw_for(names)
            if kw is None or len(names) != 1:
                return None
            return ("grad", ref, o, kw, txt)
        if kind in ("sample", "sample1", "samplerng"):
            return (kind, ref, o)
        if kind in ("pdf", "cdf"):
            kw, txt = self.kw_for(names)
            if kw is None or len(names) != 1:
                return None
            return (kind, ref, o, kw, txt)
        if kind == "mkjoint":
            return self.mkjoint_for(ref, o)
        if kind == "fd":
            # CONFIGURATION step (not an operation of the property): switch the finite-difference gradient option
            code = rng.choice([1, 1, 2, 3, 0])
            return ("fd", ref, o, code)
        if kind == "tolik":
            nm = _try(lambda: o.name)
            if isinstance(nm, Exception) or nm not in self.w.vals:
                return None
            k = rng.randint(0, 1)
            return ("tolik", ref, o, self.w.vals[nm][k], k + 1)
        if kind == "gibbs":
            if L != "J" or len(names) < 2:
                return None
            return ("gibbs", ref, o, rng.randint(2, 4))
        return None

    def mkjoint_for(self, ref, o, extra=None):
        """JointDistribution(o, priors of everything o depends on, one or two unrelated originals)"""
        w, rng = self.w, self.rng
        names = _try(lambda: list(o.get_parameter_names()))
        own = _try(lambda: o.name)
        if isinstance(names, Exception) or isinstance(own, Exception):
            return None
        members, have, need = [(ref, o)], {own}, [n for n in names if n != own]
        while need:
            nm = need.pop()
            if nm in have:
                continue
            a = w.addr.get(nm)
            if a is None:
                return None
            d = w.live[a]
            members.append(("@%d" % a, d)); have.add(nm)
            need += [x for x in _try(lambda: list(d.get_parameter_names())) if x not in have]
        unrelated = [nm for nm in [v.name for v in w.vs] + w.mp_args[0] + w.mp_args[1]
                     if nm not in have and not isinstance(_try(lambda: w.live[w.addr[nm]].is_cond), Exception) and not w.live[w.addr[nm]].is_cond]
        rng.shuffle(unrelated)
        for nm in (extra if extra is not None else unrelated[:rng.randint(1, 2)]):
            if nm not in have:
                members.append(("@%d" % w.addr[nm], w.live[w.addr[nm]])); have.add(nm)
        return ("mkjoint", ",".join(r for r, _ in members), [x for _, x in members])

    # -- execute one op on the implementation with tracing
    def execute(self, op):
        cuqi, tr = self.cuqi, self.tr
        kind = op[0]
        pre_ids = None
        tr.start()
        try:
            with quiet():
                if kind == "cond":
                    res = op[2](**op[3])
                elif kind in ("condp", "applyp"):
                    res = op[2](*op[5], **op[3])
                elif kind == "logd":
                    res = op[2].logd(**op[3])
                elif kind == "grad":
                    o = op[2]
                    res = o.gradient(**op[3]) if letter(cuqi, o) == "L" else o.gradient(list(op[3].values())[0])
                elif kind == "sample":
                    res = op[2].sample(2)
                elif kind == "sample1":
                    res = op[2].sample(1)
                elif kind == "samplerng":
                    res = op[2].sample(3, rng=np.random.RandomState(5))
                elif kind == "pdf":
                    res = op[2].pdf(list(op[3].values())[0])
                elif kind == "cdf":
                    res = op[2].cdf(list(op[3].values())[0])
                elif kind == "mkjoint":
                    from cuqi.distribution import JointDistribution
                    res = JointDistribution(*op[2])
                elif kind == "fd":
                    res = op[2].disable_FD() if op[3] == 0 else (op[2].enable_FD() if op[3] == 3 else op[2].enable_FD({1: 1e-3, 2: 1e-6}[op[3]]))
                elif kind == "tolik":
                    res = op[2].to_likelihood(op[3])
                elif kind == "apply":
                    res = op[2](op[4])
                elif kind == "gibbs":
                    res = self.gibbs_stream(op[2], op[3])
                else:
                    raise RuntimeError(kind)
        except Exception as e:  # noqa
            res = e
        writes, allocs = tr.stop()
        return res, writes, allocs

    def gibbs_stream(self, J, sweeps):
        """the conditioning stream of Gibbs.step / HybridGibbs._set_target on the real joint"""
        t = J()
        pars = list(t.get_parameter_names())
        n = 0
        for k in range(sweeps):
            for p in pars:
                others = {q: self.w.vals[q][(k + len(q)) % 2] for q in pars if q != p}
                t(**others)
                n += 1
        return ("gibbs", pars, n)

    def record(self, op, res, writes, allocs, fresh_before):
        cuqi = self.cuqi
        kind = op[0]
        alloc_ids = {id(o) for o in allocs}
        al = "".join(letter(cuqi, o) for o in allocs)
        esc_nb, esc_b = [], []
        for (o, k) in writes:
            # receivers allocated during this op, or not reachable from any original / derived object before the
            # op (geometries and helpers created inside the op), are fresh
            if id(o) in alloc_ids or id(o) not in fresh_before:
                continue
            cls = letter(cuqi, o)
            item = f"{cls}.{k}"
            if k in BENIGN_ANY or k in BENIGN_FILL or (cls == "d" and k == "_cov"):
                esc_b.append(item)
            elif cls == "d" and k in ("_mean", "mean", "_cov", "cov", "_prec", "_sqrtprec", "_logdet", "_rank") and id(o) in self.cache_ids:
                esc_b.append("c." + k)            # the shared Gaussian of a Lognormal (re-synchronised)
            elif cls == "d" and k == "_name" and id(o) in self.inner_ids:
                esc_b.append("inner._name")       # the Gaussian inside a RegularizedGaussian
            else:
                esc_nb.append(item)
        rec = {"alloc": al, "esc": sorted(set(esc_nb)), "benign": sorted(set(esc_b))}
        if kind == "grad":
            rec["fd_active"] = fd_reachable(op[2])
        if isinstance(res, Exception):
            rec["kind"] = "e"; rec["exc"] = type(res).__name__ + ": " + str(res)[:100]
        elif kind == "gibbs":
            rec["kind"] = "G"; rec["names"] = [name_id(n) for n in res[1]]; rec["n"] = res[2]
        elif kind in ("logd",):
            rec["kind"] = "v"
        elif kind == "fd":
            rec["kind"] = "cfg"
        elif kind in ("grad", "sample", "sample1", "samplerng", "pdf", "cdf"):
            rec["kind"] = "u"
        else:
            L = letter(cuqi, res)
            rec["kind"] = L + ("+" if id(res) in alloc_ids else "=")
            nm = _try(lambda: list(res._non_default_args) if L == "A" else list(res.get_parameter_names()))
            rec["names"] = [name_id(n) if name_id(n) is not None else str(n) for n in nm] if not isinstance(nm, Exception) else "exc"
            if L in ("d", "n", "r", "L", "E"):
                n = _try(lambda: res.name)
                rec["name"] = name_id(n) if not isinstance(n, Exception) else "exc"
            else:
                rec["name"] = None
        return rec

    def refresh_known(self):
        """ids of every object reachable from the originals and the pool (receivers that 'existed before')"""
        seen = set()
        cache, inner = set(), set()

        def walk(o, depth=0):
            if id(o) in seen or depth > 8:
                return
            if isinstance(o, (list, tuple)):
                seen.add(id(o))
                for x in o:
                    walk(x, depth + 1)
                return
            if isinstance(o, dict):
                seen.add(id(o))
                for x in o.values():
                    walk(x, depth + 1)
                return
            if not _is_cuqi_obj(o):
                return
            seen.add(id(o))
            for k, v in vars(o).items():
                if k == "_Gaussian" and type(o).__name__ == "Lognormal":
                    cache.add(id(v))
                if k == "_gaussian":
                    inner.add(id(v))
                walk(v, depth + 1)
        for _, o in self.w.originals():
            walk(o)
        for _, o in self.pool:
            walk(o)
        self.known_ids, self.cache_ids, self.inner_ids = seen, cache, inner
        return seen

    # -- run
    def run(self, check_every_op=True):
        cuqi, w = self.cuqi, self.w
        origs = w.originals()
        self.snap0 = {lab: snapshot(o) for lab, o in origs}
        self.beh0 = {lab: self.beh(o) for lab, o in origs}
        self.sibling_bad = None
        self.made = {}          # op index -> (snapshot, behaviour) when returned
        self.first_bad = None   # (op index, label, what, detail)
        self.name_bad = []
        self.made0 = {}         # behaviour when returned (never re-baselined)
        self.values = {}        # op index -> canonical value returned by an evaluation
        self.retained = []      # (op index, returned array object, bytes hash when returned)   [G8]
        self.retained_bad = None
        self.caller_bad = None  # caller-owned argument arrays must never be modified                [G2]
        def _h(a):
            a = np.asarray(a.samples if hasattr(a, "samples") else a)
            return hashlib.sha1(np.ascontiguousarray(a).tobytes()).hexdigest() + str(a.shape)
        caller0 = {nm: [_h(v) for v in vv] for nm, vv in w.vals.items()}
        steps = self.script if self.script is not None else range(self.length)
        for step in steps:
            op = self.choose() if self.script is None else step(self)
            if op is None:
                continue
            k = len(self.ops_txt)
            fresh_before = self.refresh_known()
            res, writes, allocs = self.execute(op)
            rec = self.record(op, res, writes, allocs, fresh_before)
            self.impl.append(rec)
            kind = op[0]
            if kind == "cond":
                self.ops_txt.append(f"c:{op[1]}:{op[4]}")
            elif kind == "condp":
                self.ops_txt.append(f"p:{op[1]}:{op[4]}")
            elif kind == "applyp":
                self.ops_txt.append(f"q:{op[1]}:{op[4]}")
            elif kind == "logd":
                self.ops_txt.append(f"l:{op[1]}:{op[4]}")
            elif kind == "grad":
                self.ops_txt.append(f"g:{op[1]}")
            elif kind in ("sample", "sample1", "samplerng"):
                self.ops_txt.append(f"s:{op[1]}")
            elif kind in ("pdf", "cdf"):
                self.ops_txt.append(f"g:{op[1]}")
            elif kind == "mkjoint":
                self.ops_txt.append(f"j:{op[1]}")
            elif kind == "fd":
                self.ops_txt.append(f"F:{op[1]}:{op[3]}")
            elif kind == "tolik":
                self.ops_txt.append(f"t:{op[1]}:{op[4]}")
            elif kind == "apply":
                self.ops_txt.append(f"a:{op[1]}:{op[3]}")
            elif kind == "gibbs":
                self.ops_txt.append(f"G:{op[1]}:{op[3]}")
            self.ops_desc.append({"op": kind, "on": op[1], "args": self.ops_txt[-1], "impl": rec["kind"],
                                  "kw": (op[4] if kind in ("grad", "pdf", "cdf") else None)})
            if kind == "fd":
                # configuration step: by design it changes the option of its receiver (a likelihood writes through to its
                # distribution); everything is re-baselined, the following operations must preserve the new state
                self.snap0 = {lab: snapshot(o) for lab, o in origs}
                self.beh0 = {lab: self.beh(o) for lab, o in origs}
                for km, o in self.pool:
                    self.made[km] = (snapshot(o), self.beh(o, *self.meta.get(km, (None, None))))
                continue
            if kind in ("logd", "grad", "pdf"):      # (cdf: scipy's multivariate normal cdf is a randomised integration)
                self.values[k] = _canon(res)
            if not isinstance(res, Exception) and (isinstance(res, np.ndarray) or hasattr(res, "samples")) and kind != "gibbs":
                self.retained.append((k, res, _h(res)))
            if self.caller_bad is None:
                now = {nm: [_h(v) for v in vv] for nm, vv in w.vals.items()}
                if now != caller0:
                    self.caller_bad = (k, [nm for nm in now if now[nm] != caller0[nm]])
                    caller0 = now
            # copy keeps name (oracle): the result of conditioning a named density carries the same name
            if kind in ("cond", "condp", "tolik") and not isinstance(res, Exception) and letter(cuqi, res) in ("d", "n", "r", "L", "E") \
                    and letter(cuqi, op[2]) in ("d", "n", "r", "L", "E"):
                n0, n1 = _try(lambda: op[2].name), _try(lambda: res.name)
                if isinstance(n1, Exception) or n0 != n1:
                    self.name_bad.append((k, repr(n0), repr(n1)))
            if not isinstance(res, Exception) and kind in ("cond", "condp", "tolik", "apply", "applyp", "mkjoint") and letter(cuqi, res) != "?":
                if not any(res is x for _, x in self.pool) and not any(res is x for x in w.live.values()):
                    self.pool.append((k, res))
                    if kind == "cond":
                        root, env0 = self.meta_of(op[1])
                        self.meta[k] = (root, {**env0, **op[3]})
                    elif kind in ("apply", "applyp"):
                        self.meta[k] = (self.meta_of(op[1])[0], {})
                    self.made[k] = (snapshot(res), self.beh(res, *self.meta.get(k, (None, None))))
                    self.made0[k] = self.made[k][1]
                    if self.made[k][1].get("fresh", "ok") != "ok":
                        self.fresh_bad.append((k, self.meta[k][0], self.made[k][1]["fresh"]))
            if check_every_op and self.first_bad is None:
                # structure of every original after every op; the (costlier) behavioural fingerprint after every op of a
                # stepwise program, else after every third op, after any op with an escaping write, and at the end
                self.check_originals(k, behave=(self.behave_every_op or kind in ("apply", "applyp", "condp") or k % 3 == 2 or bool(rec["esc"] or rec["benign"])))
            if check_every_op:
                self.check_pool(k)
        if self.first_bad is None:
            self.check_originals(len(self.ops_txt) - 1, full=True)
        # siblings: every derived object is what it was when it was returned
        self.check_pool(len(self.ops_txt) - 1, final=True)
        # retained outputs: every array a call returned is still what it was (no internal buffer handed out twice)
        for k, r, h in self.retained:
            if _h(r) != h:
                self.retained_bad = (k,)
                break
        # history independence: an object / value obtained after intervening operations equals the one obtained by the
        # operations it depends on alone, executed on untouched twins of the originals (no fingerprinting in between)
        self.history_bad = None
        if self.script is None and self.history_checks:
            cand = [k for k in list(self.made) + list(self.values) if len(self.deps(k)) < k + 1]
            random.Random(f"h{self.idx}").shuffle(cand)
            for k in cand[:self.history_checks]:
                bad = self.history_check(k)
                if bad:
                    self.history_bad = bad
                    break
        return self

    history_checks = 2

    def deps(self, k):
        """ops the result of op k depends on: the ops its receivers were returned by, and every configuration step
        applied before k to an original or to one of those objects"""
        acc = set()

        def go(j):
            if j in acc:
                return
            acc.add(j)
            for field in self.ops_txt[j].split(":")[1:3]:
                for r in field.split(","):
                    if r.startswith("$") and r[1:].isdigit():
                        go(int(r[1:]))
        go(k)
        changed = True
        while changed:
            changed = False
            for j in range(k):
                if j not in acc and self.ops_txt[j].startswith("F:"):
                    go(j); changed = True        # every configuration step before k (a likelihood writes through to its distribution)
        return sorted(acc)

    def history_check(self, k):
        import copy as _cp
        q = object.__new__(type(self))
        q.__dict__.update({"cuqi": self.cuqi, "tr": self.tr, "rng": random.Random(0), "idx": self.idx, "pool": [], "ops_txt": [], "meta": {},
                           "label_of": self.label_of})
        q.w = _cp.copy(self.w)
        q.w.live = _cp.deepcopy(self.w.pristine)
        remap, res = {}, None
        sub = self.deps(k)
        for j in sub:
            op = op_from_text(q, self.ops_txt[j], remap, j, self.ops_desc[j]["op"], self.ops_desc[j].get("kw"))
            if op is None:
                return None
            res, _, _ = q.execute(op)
            q.ops_txt.append(self.ops_txt[j])
            if not isinstance(res, Exception) and op[0] in ("cond", "tolik", "apply", "mkjoint"):
                q.pool.append((len(q.ops_txt) - 1, res))
        if k in self.values:
            a, b = self.values[k], _canon(res)
            return None if a == b else (k, sub, {"value": (a, b)})
        if isinstance(res, Exception):
            return (k, sub, {"result": ("object", "exc:" + type(res).__name__)})
        b = self.beh(res, *self.meta.get(k, (None, None)))
        a = self.made0[k]
        diff = {kk: (a.get(kk), b.get(kk)) for kk in set(a) | set(b) if a.get(kk) != b.get(kk)}
        return (k, sub, diff) if diff else None

    def check_originals(self, k, full=False, behave=True):
        light = set(self.w.mp_args[0] + self.w.mp_args[1]) if (not full and not self.behave_every_op) else ()
        for lab, o in self.w.originals():
            if lab in light:
                continue          # the plain priors of the multi-argument factor: re-checked at the end of the program
            d = snap_equal(self.snap0[lab], snapshot(o))
            b = self.beh(o) if (full or behave or d) else self.beh0[lab]
            if d or b != self.beh0[lab]:
                self.first_bad = (k, lab, d[:3], {kk: (self.beh0[lab].get(kk), b.get(kk)) for kk in b if b.get(kk) != self.beh0[lab].get(kk)})
                return

    def line(self):
        return "prog " + self.w.heap_text() + " " + ";".join(self.ops_txt)


class StepwiseProgram(Program):
    """callables with 3-4 arguments conditioned ONE variable at a time, in random orders, on the factor `mp`, on a
    likelihood made from it and on the joint `J2`; siblings are created from the same intermediate object with
    different values; logd / gradient / sample are interleaved on intermediates and siblings.  Every derived object
    is re-checked after every op, with logd at every completion of up to 4 remaining parameters."""
    maxprod = 4
    pool_checks = None
    behave_every_op = True

    def __init__(self, cuqi, tracer, rng, thorough, idx, length=None, script=None):
        super().__init__(cuqi, tracer, rng, thorough, idx, length=length, script=script)
        if length is None:
            self.length = rng.randint(9, 15)
        # the multi-argument callable factor, or the hierarchical data model with a forward model
        self.focus = ("mp", "J2") if rng.random() < 0.5 else ("ym", "J3")

    history_checks = 5

    def originals_subset(self):
        return ["mp", "J2"] + self.w.mp_args[0] + self.w.mp_args[1]

    def choose(self):
        cuqi, rng, w = self.cuqi, self.rng, self.w
        focus = self.focus
        roots = [("@%d" % w.addr[focus[0]], w.live[w.addr[focus[0]]])] * 2 + [("@%d" % w.addr[focus[1]], w.live[w.addr[focus[1]]])]
        derived = [("$%d" % k, o) for k, o in self.pool]
        if sum(letter(cuqi, o) == "L" for _, o in derived) < 2 and rng.random() < 0.2:
            k = rng.randint(0, 1)
            return ("tolik", roots[0][0], roots[0][1], w.vals[focus[0]][k], k + 1)
        if rng.random() < 0.06:
            r0, o0 = rng.choice(derived + roots[:1])
            if letter(cuqi, o0) in ("d", "L"):
                return ("fd", r0, o0, rng.choice([1, 2, 3, 0]))
        ref, o = rng.choice(derived * 2 + roots) if derived else rng.choice(roots)
        L = letter(cuqi, o)
        names = _try(lambda: list(o.get_parameter_names()))
        if isinstance(names, Exception) or L in ("?", "A"):
            return None
        r = rng.random()
        if r < 0.62 and names and L != "P":
            cand = names[:-1] if (L == "d" and len(names) > 1 and rng.random() < 0.85) else names
            nm = rng.choice(cand)
            kw, txt = self.kw_for([nm])
            return ("cond", ref, o, kw, txt) if kw is not None else None
        if r < 0.86:
            kw, txt = self.kw_for(names)
            return ("logd", ref, o, kw, txt) if kw is not None else None
        if r < 0.94:
            kw, txt = self.kw_for(names)
            return ("grad", ref, o, kw, txt) if kw is not None and len(names) == 1 else None
        return ("sample", ref, o) if L == "d" else None


class RejoinProgram(Program):
    """a density obtained by reducing a joint is put into a NEW joint (with the priors it needs and unrelated
    originals) which is conditioned again, several times with different values: `_add_constants_to_density` then acts
    on a copy of a density that already carries constants"""
    pool_checks = None
    behave_every_op = True

    def __init__(self, cuqi, tracer, rng, thorough, idx, length=None, script=None):
        super().__init__(cuqi, tracer, rng, thorough, idx, length=length, script=script)
        if length is None:
            self.length = rng.randint(7, 11)
        self.stage = 0

    def choose(self):
        cuqi, rng, w = self.cuqi, self.rng, self.w
        self.stage += 1
        if self.stage == 1:
            # reduce one of the joints to a single density: fix everything but one variable
            lab = rng.choice(["J", "J2"])
            J = w.live[w.addr[lab]]
            names = list(J.get_parameter_names())
            keep = rng.choice(names)
            kw, txt = self.kw_for([n for n in names if n != keep])
            return ("cond", "@%d" % w.addr[lab], J, kw, txt)
        reduced = [(k, o) for k, o in self.pool if letter(cuqi, o) in ("d", "n")]
        joints = [(k, o) for k, o in self.pool if letter(cuqi, o) == "J" and self.ops_desc[k]["op"] == "mkjoint"]
        if self.stage == 2 or (not joints and reduced):
            if not reduced:
                return None
            k, o = reduced[0]
            self.extra = None
            return self.mkjoint_for("$%d" % k, o)
        if joints and rng.random() < 0.65:
            k, Jn = rng.choice(joints)
            names = list(Jn.get_parameter_names())
            own = _try(lambda: reduced[0][1].name)
            others = [n for n in names if n != own]
            if not others:
                return None
            sub = others if rng.random() < 0.5 else rng.sample(others, rng.randint(1, len(others)))
            kw, txt = self.kw_for(sub)
            return ("cond", "$%d" % k, Jn, kw, txt) if kw is not None else None
        cands = [(k, o) for k, o in self.pool if letter(cuqi, o) in ("d", "n", "P")]
        if not cands:
            return None
        k, o = rng.choice(cands)
        names = _try(lambda: list(o.get_parameter_names()))
        if isinstance(names, Exception):
            return None
        kw, txt = self.kw_for(names)
        return ("logd", "$%d" % k, o, kw, txt) if kw is not None else None


class DenseProgram(Program):
    """Gaussians given by dense FULL square-root precision / square-root covariance (small) and full covariance /
    precision of dimension 76-80: condition, then sample (N = 1, N > 1, with rng), logd, gradient, pdf, cdf on the
    copies and the originals; the bytes of every array reachable from every original and every derived object are
    compared after every op"""
    dense_world = True
    pool_checks = None
    behave_every_op = True

    def __init__(self, cuqi, tracer, rng, thorough, idx, length=None, script=None):
        super().__init__(cuqi, tracer, rng, thorough, idx, length=length, script=script)
        if length is None:
            self.length = rng.randint(10, 16)

    def choose(self):
        cuqi, rng, w = self.cuqi, self.rng, self.w
        roots = [("@%d" % w.addr[lab], w.live[w.addr[lab]]) for lab in w.dense]
        derived = [("$%d" % k, o) for k, o in self.pool]
        ref, o = rng.choice(derived * 2 + roots) if derived else rng.choice(roots)
        names = _try(lambda: list(o.get_parameter_names()))
        if isinstance(names, Exception) or letter(cuqi, o) not in ("d",):
            return None
        if len(names) > 1:
            if rng.random() < 0.8:
                kw, txt = self.kw_for(names[:-1])
                return ("cond", ref, o, kw, txt)
            kw, txt = self.kw_for(names)
            return ("logd", ref, o, kw, txt)
        big = _try(lambda: o.dim) not in (1, 2, 3, 4)
        kind = rng.choice(["sample", "sample1", "samplerng", "sample", "sample1", "logd", "grad", "pdf"] + ([] if big else ["cdf"]))
        if kind.startswith("sample"):
            return (kind, ref, o)
        kw, txt = self.kw_for(names)
        return (kind, ref, o, kw, txt)


class InterleaveProgram(Program):
    """two or three LIVE siblings of a distribution that owns an internal helper object (Lognormal's shared Gaussian,
    RegularizedGaussian's inner Gaussian) or shares arrays with its original, evaluated in interleaved order
    a, b, a, b, … (logd, pdf, gradient, sample); every result is compared with a freshly constructed distribution"""
    dense_world = True
    pool_checks = None
    behave_every_op = True

    def __init__(self, cuqi, tracer, rng, thorough, idx, length=None, script=None):
        super().__init__(cuqi, tracer, rng, thorough, idx, length=length, script=script)
        if length is None:
            self.length = rng.randint(9, 14)
        self.stage = 0
        cands = [lab for lab in ["ln", "rg", "mp"] + [x for x in self.w.dense if x in ("gs", "gc")]
                 if len(self.w.live[self.w.addr[lab]].get_parameter_names()) > 1]
        self.root = rng.choice(cands) if cands else "ln"
        self.nsib = rng.choice([2, 2, 3])

    def choose(self):
        cuqi, rng, w = self.cuqi, self.rng, self.w
        self.stage += 1
        root = w.live[w.addr[self.root]]
        names = list(root.get_parameter_names())
        if self.stage <= self.nsib and len(names) > 1:
            # sibling number `stage`: all conditioning variables fixed, values differ between siblings
            which = [0, 1, None][self.stage - 1]
            kw, txt = self.kw_for(names[:-1], which=which)
            return ("cond", "@%d" % w.addr[self.root], root, kw, txt)
        sibs = [(k, o) for k, o in self.pool if letter(cuqi, o) in ("d", "n", "r")]
        if not sibs:
            return None
        k, o = sibs[(self.stage) % len(sibs)]          # round robin: a, b, (c,) a, b, …
        onames = _try(lambda: list(o.get_parameter_names()))
        if isinstance(onames, Exception) or len(onames) != 1:
            return None
        kind = rng.choice(["logd", "logd", "pdf", "grad", "sample", "sample1"])
        if kind.startswith("sample"):
            return (kind, "$%d" % k, o)
        kw, txt = self.kw_for(onames)
        return (kind, "$%d" % k, o, kw, txt)


class ReduceProgram(Program):
    """structured generator for the rarely hit branches: a joint conditioned on everything but ONE variable (Posterior when it
    has one child, MultipleLikelihoodPosterior when it has several, re-conditioned distribution when it has none), on
    everything but two (joint returned), on everything (only evaluated densities left); then logd / gradient / empty call
    (`Posterior()`, `MultipleLikelihoodPosterior()`) on the reduced objects, interleaved with conditioning / to_likelihood /
    logd / sample on the Lognormal and the RegularizedGaussian and on their copies"""
    pool_checks = None
    behave_every_op = True

    def __init__(self, cuqi, tracer, rng, thorough, idx, length=None, script=None):
        super().__init__(cuqi, tracer, rng, thorough, idx, length=length, script=script)
        if length is None:
            self.length = rng.randint(9, 13)
        self.stage = 0

    def choose(self):
        cuqi, rng, w = self.cuqi, self.rng, self.w
        self.stage += 1
        if self.stage <= 3:
            lab = rng.choice(["J", "J", "J", "J3", "J2"])
            J = w.live[w.addr[lab]]
            names = list(J.get_parameter_names())
            nchild = {n: 0 for n in names}
            if lab == "J":
                for v in w.vs:
                    for sp in v.attrs.values():
                        for par in sp.parents:
                            if par in nchild:
                                nchild[par] += 1
            mode = rng.choice(["one", "one", "one", "one", "two", "all"])
            if mode == "one":
                multi = [n for n in names if nchild[n] >= 2]
                keep = [rng.choice(multi)] if (multi and rng.random() < 0.7) else [rng.choice(names)]
            elif mode == "two" and len(names) >= 2:
                keep = rng.sample(names, 2)
            else:
                keep = []
            kw, txt = self.kw_for([n for n in names if n not in keep])
            return ("cond", "@%d" % w.addr[lab], J, kw, txt) if kw is not None else None
        if self.stage % 2 == 0:
            cands = [(k, o) for k, o in self.pool if letter(cuqi, o) in ("P", "M", "d", "J", "L")]
            if not cands:
                return None
            k, o = rng.choice(cands)
            L = letter(cuqi, o)
            names = _try(lambda: list(o.get_parameter_names()))
            if isinstance(names, Exception):
                return None
            kind = rng.choice(["logd", "logd", "grad", "cond0", "cond0"] if L in ("P", "M") else ["logd", "cond0", "cond"])
            if kind == "cond0":
                return ("cond", "$%d" % k, o, {}, ".")
            if kind == "cond" and names:
                kw, txt = self.kw_for(rng.sample(names, 1))
                return ("cond", "$%d" % k, o, kw, txt) if kw is not None else None
            kw, txt = self.kw_for(names)
            if kw is None or (kind == "grad" and len(names) != 1):
                return None
            return (kind, "$%d" % k, o, kw, txt)
        # Lognormal / RegularizedGaussian and their copies
        roots = [("@%d" % w.addr[lab], w.live[w.addr[lab]]) for lab in ("ln", "rg")]
        derived = [("$%d" % k, o) for k, o in self.pool if letter(cuqi, o) in ("n", "r")]
        ref, o = rng.choice(roots + derived * 2)
        names = _try(lambda: list(o.get_parameter_names()))
        if isinstance(names, Exception):
            return None
        kind = rng.choice(["cond", "cond", "cond0", "cond0", "tolik", "logd", "sample" if letter(cuqi, o) == "n" else "logd"])
        if kind == "cond" and len(names) > 1:
            kw, txt = self.kw_for(names[:-1])
            return ("cond", ref, o, kw, txt) if kw is not None else None
        if kind in ("cond", "cond0"):
            return ("cond", ref, o, {}, ".")
        if kind == "tolik":
            nm = _try(lambda: o.name)
            if isinstance(nm, Exception) or nm not in w.vals:
                return None
            k = rng.randint(0, 1)
            return ("tolik", ref, o, w.vals[nm][k], k + 1)
        if kind == "sample":
            return ("sample", ref, o) if len(names) == 1 else None
        kw, txt = self.kw_for(names)
        return ("logd", ref, o, kw, txt) if kw is not None else None


PROGRAM_CLASSES = {0: Program, 1: StepwiseProgram, 2: RejoinProgram, 3: DenseProgram, 4: InterleaveProgram, 5: ReduceProgram}
CLASS_NAMES = {Program: None, StepwiseProgram: "stepwise", RejoinProgram: "rejoin", DenseProgram: "dense", InterleaveProgram: "interleave", ReduceProgram: "reduce"}


# ============================================================================ shrinking (failing-input search)
def op_from_text(p, txt, remap, old_index, kind=None, kwtxt=None):
    """rebuild an op of a recorded program on a fresh world (same seed => same objects)"""
    f = txt.split(":")
    def resolve(r):
        if r[0] == "@":
            return r, p.w.live.get(int(r[1:]))
        j = remap.get(int(r[1:]))
        for k, o in p.pool:
            if k == j:
                return "$%d" % j, o
        return None, None
    def kwargs(t):
        if t == ".":
            return {}, "."
        kw = {}
        for item in t.split("&"):
            i, k = item.split("=")
            i, k = int(i), int(k)
            if i < len(NAME_POOL):
                kw[NAME_POOL[i]] = p.w.vals[NAME_POOL[i]][k - 1]
            else:
                kw[c01.UNKNOWN] = np.array([1.0])
        return kw, t
    if f[0] == "j":
        members = [resolve(r) for r in f[1].split(",")]
        remap[old_index] = len(p.ops_txt)
        if any(o is None for _, o in members):
            return None
        return ("mkjoint", ",".join(r for r, _ in members), [o for _, o in members])
    ref, o = resolve(f[1])
    remap[old_index] = len(p.ops_txt)
    if o is None:
        return None
    if f[0] == "c":
        kw, t = kwargs(f[2]); return ("cond", ref, o, kw, t)
    if f[0] == "l":
        kw, t = kwargs(f[2]); return ("logd", ref, o, kw, t)
    if f[0] == "g":
        names = _try(lambda: list(o.get_parameter_names()))
        if kwtxt is not None:
            kw, t = kwargs(kwtxt)
        else:
            kw, t = p.kw_for(names, which=0) if not isinstance(names, Exception) else (None, None)
        return (kind if kind in ("pdf", "cdf") else "grad", ref, o, kw, t) if kw else None
    if f[0] == "s":
        return (kind if kind in ("sample1", "samplerng") else "sample", ref, o)
    if f[0] == "t":
        nm = _try(lambda: o.name)
        return ("tolik", ref, o, p.w.vals[nm][int(f[2]) - 1], int(f[2])) if nm in p.w.vals else None
    if f[0] == "a":
        dref, dobj = resolve(f[2]); return ("apply", ref, o, dref, dobj) if dobj is not None else None
    if f[0] == "G":
        return ("gibbs", ref, o, int(f[2]))
    if f[0] == "F":
        return ("fd", ref, o, int(f[2]))
    return None


def shrink(ctx, p, k, thorough, also=()):
    """smallest sub-program still altering an original / a sibling: the op and the ops its receiver (and the altered
    object) were derived by; else the prefix"""
    def deps(j, acc):
        acc.add(j)
        for field in p.ops_txt[j].split(":")[1:3]:
            for r in field.split(","):
                if r.startswith("$") and r[1:].isdigit():
                    deps(int(r[1:]), acc)
        return acc
    first = set(p.deps(k)) if hasattr(p, "deps") else deps(k, set())
    for j in also:
        first |= set(p.deps(j)) if hasattr(p, "deps") else deps(j, set())
    for subset in (sorted(first), list(range(k + 1))):
        remap = {}
        rng = random.Random(f"C11-{ctx.seed}-{p.idx}")
        try:
            q = type(p)(p.cuqi, p.tr, rng, thorough, p.idx,
                        script=[(lambda prog, j=j: op_from_text(prog, p.ops_txt[j], remap, j, p.ops_desc[j]["op"], p.ops_desc[j].get("kw"))) for j in subset])
            q.run()
        except Exception:  # noqa
            p.tr.stop()
            continue
        if q.first_bad is not None or q.sibling_bad is not None or q.fresh_bad:
            return {"ops": [p.ops_txt[j] for j in subset], "reproduced": True, "n_ops": len(subset)}
    return {"ops": p.ops_txt[:k + 1], "reproduced": False, "n_ops": k + 1}


# ============================================================================ comparison with the model
def parse_model(out):
    body, sib = out.rsplit("|", 1)
    recs = []
    for t in body.split(";"):
        if t in ("skip", "cfg"):
            recs.append({"kind": t}); continue
        f = t.split(":")
        if f[0] == "G":
            recs.append({"kind": "G", "names": [] if f[1] == "-" else [int(x) for x in f[1].split(".")], "n": int(f[2]),
                         "esc": [] if f[4] == "-" else f[4].split(","), "fp": f[5]})
            continue
        recs.append({"kind": f[0], "names": None if f[0][0] in "evu" else ([] if f[1] == "-" else [int(x) for x in f[1].split(".")]),
                     "name": None if f[2] in ("", "-") else int(f[2]), "alloc": f[3], "esc": [] if f[4] == "-" else f[4].split(","), "fp": f[5]})
    return recs, sib


def compare(m, i, opkind):
    """model record vs implementation record -> list of differences"""
    diffs = []
    if m["kind"] == "cfg" or i["kind"] == "cfg":
        return [] if (m["kind"] == i["kind"] or i["kind"] == "e") else ["configuration step misaligned"]
    if m["kind"] == "skip":
        return ["model could not resolve the receiver (an earlier op differs)"]
    if m["kind"] == "G" or i["kind"] == "G":
        if m["kind"] != i["kind"]:
            return [f"kind {m['kind']} vs {i['kind']}"]
        if m["names"] != i["names"]:
            diffs.append(f"gibbs parameter names {m['names']} vs {i['names']}")
        if m["n"] != i["n"]:
            diffs.append(f"number of re-conditionings {m['n']} vs {i['n']}")
        mesc = [e for e in m["esc"] if not e.endswith("_constant[...]")]     # in-place ndarray writes: judged by the oracle
        if mesc != i["esc"]:
            diffs.append(f"escaping writes {mesc} vs {i['esc']}")
        return diffs
    m = dict(m)
    if "alloc" in m:
        m["alloc"] = m["alloc"].replace("a", "")          # numpy array objects are not traced on the implementation side
    if "esc" in m:
        m["esc"] = [e for e in m["esc"] if not e.endswith("_constant[...]")]   # in-place ndarray writes: judged by the oracle
    if opkind in ("grad", "sample", "sample1", "samplerng", "pdf", "cdf"):
        # only allocation / write behaviour is compared (families refuse gradients / sampling for their own reasons);
        # with the finite-difference option switched on (a configuration step) a gradient is dim+1 evaluations of logd,
        # each allocating what a `logd` op allocates: not expanded in the model, allocations not compared then
        if i["kind"] != "e" and not i.get("fd_active") and m["alloc"] != i["alloc"]:
            diffs.append(f"allocations {m['alloc']} vs {i['alloc']}")
        if sorted(m["esc"]) != [] or i["esc"] != []:
            if [e.split(".", 1)[1] for e in m["esc"]] != [e.split(".", 1)[1] for e in i["esc"]]:
                diffs.append(f"escaping writes {m['esc']} vs {i['esc']}")
        return diffs
    if (m["kind"] == "e") != (i["kind"] == "e"):
        return [f"refusal differs: model {m['kind']} vs impl {i['kind']} {i.get('exc', '')}"]
    if m["kind"] == "e":
        return diffs
    if m["kind"] != i["kind"]:
        diffs.append(f"result kind {m['kind']} vs {i['kind']}")
    if m["alloc"] != i["alloc"]:
        diffs.append(f"allocations {m['alloc']} vs {i['alloc']}")
    if m["kind"][0] not in "vu":
        if m["names"] != i.get("names"):
            diffs.append(f"parameter names {m['names']} vs {i.get('names')}")
        if m["name"] != i.get("name"):
            diffs.append(f"name {m['name']} vs {i.get('name')}")
    if [e.split(".", 1)[1] for e in m["esc"]] != [e.split(".", 1)[1] for e in i["esc"]]:
        diffs.append(f"escaping non-benign writes {m['esc']} vs {i['esc']}")
    return diffs


MODEL_BENIGN = {"g._variable_name", "d._mutable_vars", "n._mutable_vars", "r._mutable_vars", "P._mutable_vars", "M._mutable_vars",
                "c._mean", "c.mean", "c._cov", "c.cov", "c._prec", "c._sqrtprec", "c._logdet", "c._rank", "inner._name",
                "d._cov",                   # Gaussian.compute_cov() cache (content compared as a matrix by the snapshot)
                "g._coefs", "g._coefs_inverse", "g._fun_shape"}


def run_programs(ctx, cuqi, tracer, n, thorough, n_step=0, n_rejoin=0, n_dense=0, n_inter=0, n_reduce=0):
    progs = []
    idxs = list(range(n)) + [100000 + i for i in range(n_step)] + [200000 + i for i in range(n_rejoin)] \
        + [300000 + i for i in range(n_dense)] + [400000 + i for i in range(n_inter)] + [500000 + i for i in range(n_reduce)]
    for idx in idxs:
        rng = random.Random(f"C11-{ctx.seed}-{idx}")
        try:
            p = PROGRAM_CLASSES[idx // 100000](cuqi, tracer, rng, thorough, idx)
        except Exception as e:  # noqa  (world construction refused: not a case)
            ctx.note(f"program {idx} could not be built: {type(e).__name__}: {str(e)[:80]}")
            continue
        try:
            p.run()
        except Exception as e:  # noqa  the harness itself tripped over an object in an unexpected state
            import traceback
            tracer.stop()
            k = len(p.ops_txt) - 1
            desc = {"program": p.idx, "graph": p.w.desc(), "ops": p.ops_desc}
            key = f"crash:{p.ops_desc[k]['op'] if k >= 0 else 'setup'}"
            ctx.case("program-crashed", {"program": p.idx, "seed": ctx.seed})
            ctx.disagree(key, desc, "program runs", f"{type(e).__name__}: {str(e)[:200]}", traceback.format_exc()[-600:])
            ctx.fail(key, desc, "every object stays usable after the ops", f"{type(e).__name__}: {str(e)[:200]}",
                     "inspecting the objects after the last op raised: an object was left in a state its own accessors reject")
            continue
        if p.ops_txt:
            progs.append(p)
    outs = ctx.lean.drive([p.line() for p in progs])
    hist, rhist, phist = {}, {}, {}
    for p, out in zip(progs, outs):
        desc = {"program": p.idx, "graph": p.w.desc(), "ops": p.ops_desc}
        ctx.case("program:" + (CLASS_NAMES[type(p)] or p.w.shape),
                 {"program": p.idx, "seed": ctx.seed, "graph": p.w.desc(), "n_ops": len(p.ops_txt)})
        for r in p.impl:
            hist[r["kind"][0]] = hist.get(r["kind"][0], 0) + 1
            if isinstance(p, ReduceProgram):
                rhist[r["kind"][0]] = rhist.get(r["kind"][0], 0) + 1
        for dsc, r in zip(p.ops_desc, p.impl):
            if dsc["op"] in ("condp", "applyp"):
                kk = dsc["op"] + ":" + r["kind"][0]
                phist[kk] = phist.get(kk, 0) + 1
        judge(ctx, p, out, desc)
    ctx.extra_cov["op_result_kinds"] = hist
    ctx.extra_cov["fresh_compare_margin"] = dict(FRESH_MARGIN, tolerance="rtol 1e-9 + atol 1e-11")
    ctx.extra_cov["reduce_program_result_kinds"] = rhist
    ctx.extra_cov["positional_ops_result_kinds"] = phist
    return progs


def judge(ctx, p, out, desc):
    """correspondence diff + oracle verdicts of one executed program"""
    key_prefix = "program"
    if out == "bad-op":
        ctx.disagree("driver:bad-op", desc, "bad-op", "ok", "driver could not parse the program"); return
    recs, sib = parse_model(out)
    first = None
    for k, (m, i) in enumerate(zip(recs, p.impl)):
        opk = p.ops_desc[k]["op"]
        d = compare(m, i, opk)
        extra = [b for b in i["benign"] if b not in MODEL_BENIGN]
        if extra:
            d.append(f"benign-classified writes outside the model's benign set: {extra}")
        if m.get("fp", "1").strip("1") != "":
            d.append("model fingerprint of the originals changed (contradicts sequence_frame)")
        if d and first is None:
            first = (k, opk, d, m, i)
    if sib != "1":
        first = first or (len(recs) - 1, "end", ["model sibling fingerprint changed"], {}, {})
    okey = None
    # ---- oracle verdicts (implementation only)
    if p.first_bad is not None:
        k, lab, sd, bd = p.first_bad
        opk = p.ops_desc[k]["op"] if 0 <= k < len(p.ops_desc) else "?"
        recv = p.ops_desc[k]["on"] if 0 <= k < len(p.ops_desc) else "?"
        okey = f"alter:{opk}:{orig_kind(p, lab)}"
        if okey not in ctx.c11_shrunk and 0 <= k < len(p.ops_txt):
            ctx.c11_shrunk[okey] = shrink(ctx, p, k, ctx.tier == "thorough")
        ctx.fail(okey, {**desc, "shrunk": ctx.c11_shrunk.get(okey), "first_op_altering": k, "op": p.ops_desc[k] if 0 <= k < len(p.ops_desc) else None, "original": lab},
                 "original unchanged (structure modulo benign caches, logd/gradient/sample/names)",
                 {"structure": sd, "behaviour": bd}, f"op #{k} ({opk} on {recv}) altered the original object '{lab}'")
    if p.sibling_bad is not None:
        k, sd, bd, kalt = p.sibling_bad
        aop = p.ops_desc[kalt]["op"] if 0 <= kalt < len(p.ops_desc) else "?"
        okey2 = f"sibling:{aop}:{p.impl[k]['kind'][0] if k < len(p.impl) else '?'}"
        if okey2 not in ctx.c11_shrunk and 0 <= kalt < len(p.ops_txt):
            ctx.c11_shrunk[okey2] = shrink(ctx, p, kalt, ctx.tier == "thorough", also=(k,))
        ctx.fail(okey2, {**desc, "shrunk": ctx.c11_shrunk.get(okey2), "derived_by_op": k, "altered_by_op": kalt,
                         "altering_op": p.ops_desc[kalt] if 0 <= kalt < len(p.ops_desc) else None},
                 "derived object unchanged by later ops on other objects (structure incl. partial keywords, conditioning variables, logd at every completion)",
                 {"structure": sd, "behaviour": bd},
                 f"the object returned by op #{k} was altered by op #{kalt} ({aop}) on another object (sibling / intermediate aliasing)")
        okey = okey or okey2
    confirmed = []
    for (k, km, sd, bd, last) in p.inplace_events:
        # (random programs re-check a sample of the derived objects per op: the write happened after the last clean check)
        predicted = any(any(e.endswith("_constant[...]") for e in recs[j].get("esc", [])) for j in range(last + 1, min(k, len(recs) - 1) + 1))
        if predicted:
            confirmed.append((k, km))
            kk = "alter-constant:ndarray-inplace:" + p.ops_desc[k]["op"]
            ctx.disagree(kk, {**desc, "op_index": k}, "model (faithful): `ndarray += x` writes into the array shared with the density the copy was made from",
                         {"structure": sd}, "in-place `_constant +=` on an ndarray constant")
        else:
            kk = f"sibling:{p.ops_desc[k]['op']}:constant-array"
            if kk not in ctx.c11_shrunk:
                ctx.c11_shrunk[kk] = shrink(ctx, p, k, ctx.tier == "thorough", also=(km,))
        ctx.fail(kk, {**desc, "shrunk": ctx.c11_shrunk.get(kk), "derived_by_op": km, "altered_by_op": k, "altering_op": p.ops_desc[k]},
                 "the `_constant` of a density is not changed by conditioning another object",
                 {"structure": sd, "behaviour": bd},
                 f"the ndarray `_constant` of the density returned by op #{km} was modified in place by op #{k}")
        okey = okey or kk
    for (k, root, detail) in p.fresh_bad[:1]:
        kk = f"fresh:{root}:{p.ops_desc[k]['op']}"
        if kk not in ctx.c11_shrunk:
            ctx.c11_shrunk[kk] = shrink(ctx, p, k, ctx.tier == "thorough")
        ctx.fail(kk, {**desc, "shrunk": ctx.c11_shrunk.get(kk), "op": p.ops_desc[k]}, "conditioned copy == freshly constructed distribution with the same parameters",
                 detail, f"the copy of '{root}' returned by op #{k} does not behave like a fresh distribution (stale shared helper / array)")
        okey = okey or kk
    if getattr(p, "history_bad", None):
        k, sub, diff = p.history_bad
        kk = f"history:{p.ops_desc[k]['op']}:{p.impl[k]['kind'][0]}"
        if any(km in sub for (ke, km) in confirmed):
            kk = "alter-constant:ndarray-inplace:history"      # consequence of the known in-place `+=` on an object op k depends on
        ctx.fail(kk, {**desc, "op_index": k, "op": p.ops_desc[k], "ops_it_depends_on": [p.ops_txt[j] for j in sub],
                      "full_history": p.ops_txt[:k + 1]},
                 "result of the op after the full history == result of the ops it depends on alone on untouched twins of the originals",
                 diff, f"the result of op #{k} depends on intervening operations / evaluations of the objects it was derived from")
        okey = okey or kk
    if getattr(p, "retained_bad", None):
        k = p.retained_bad[0]
        kk = f"retained:{p.ops_desc[k]['op']}"
        ctx.fail(kk, {**desc, "op_index": k, "op": p.ops_desc[k]}, "an array returned by an op is not modified by later ops", "bytes changed",
                 "an output handed to the caller was overwritten by a later operation (internal buffer / view of a cache)")
        okey = okey or kk
    if getattr(p, "caller_bad", None):
        k, names = p.caller_bad
        kk = f"caller-array:{p.ops_desc[k]['op']}"
        ctx.fail(kk, {**desc, "op_index": k, "op": p.ops_desc[k], "arrays": names}, "argument arrays owned by the caller are not modified", names,
                 "an operation wrote into an array passed as argument")
        okey = okey or kk
    for (k, n0, n1) in p.name_bad[:1]:
        okey3 = f"name:{p.ops_desc[k]['op']}"
        ctx.fail(okey3, {**desc, "op": p.ops_desc[k]}, f"name {n0}", n1, "a conditioned copy does not keep the random-variable name of its original")
        okey = okey or okey3
    if first is not None:
        k, opk, d, m, i = first
        key = okey or f"tie:{opk}:{d[0].split(' ')[0]}"
        ctx.disagree(key, {**desc, "op_index": k, "op": p.ops_desc[k] if k < len(p.ops_desc) else None}, m, i, "; ".join(d))
        if okey is None:
            # failing-input search near the disagreement: replay the program on a fresh world with the oracle after
            # every op and with probes at both candidate values (already done during the run) -> nothing found
            pass


def orig_kind(p, lab):
    if lab in ("J", "A", "ln", "rg"):
        return {"J": "joint", "A": "model", "ln": "lognormal", "rg": "regularized"}[lab]
    return "distribution"


# ============================================================================ scenarios with real samplers (oracle only)
def sampler_scenarios(ctx, cuqi, tracer, thorough):
    import cuqi.sampler as LS
    import cuqi.experimental.mcmc as XS
    from cuqi.distribution import Gaussian, Gamma, GMRF, JointDistribution, LMRF
    from cuqi.model import LinearModel
    rs = np.random.RandomState(ctx.seed + 11)
    n, m = 6, 8
    Amat = rs.randint(-2, 3, size=(m, n)).astype(float)
    yobs = rs.randint(-3, 4, size=m).astype(float)
    probes_x = [rs.randint(-2, 3, size=n).astype(float) for _ in range(2)]

    def build():
        A = LinearModel(Amat)
        d = Gamma(1, 1e-2, name="d")
        l = Gamma(1, 1e-2, name="l")
        x = GMRF(np.zeros(n), lambda d: d, name="x")
        y = Gaussian(A, lambda l: 1 / l, name="y")
        return A, d, l, x, y

    def probes():
        return [{"d": np.array([1.0 + k]), "l": np.array([2.0 - k]), "x": probes_x[k], "y": yobs + k, "__modelinput__": probes_x[k]} for k in range(2)]

    def guarded(label, key, originals, action, desc, pr=None):
        """run `action` with tracing; originals must be unaltered; escaping writes on originals must be benign"""
        pr = pr or probes()
        s0 = {lab: snapshot(o) for lab, o in originals}
        b0 = {lab: behaviour(cuqi, o, pr) for lab, o in originals}
        known = set()
        for _, o in originals:
            collect_ids(o, known)
        st = np.random.get_state()
        np.random.seed(ctx.seed + 5)
        tracer.start()
        try:
            with quiet():
                info = action()
            err = None
        except Exception as e:  # noqa
            err, info = e, None
        writes, allocs = tracer.stop()
        np.random.set_state(st)
        alloc_ids = {id(o) for o in allocs}
        esc = sorted({f"{letter(cuqi, o)}.{k}" for (o, k) in writes if id(o) in known and id(o) not in alloc_ids
                      and k not in BENIGN_ANY and k not in BENIGN_FILL})
        ctx.case("sampler:" + label, {**desc, "error": (type(err).__name__ if err else None), "allocs": len(allocs), "info": info})
        bad = None
        for lab, o in originals:
            d = snap_equal(s0[lab], snapshot(o))
            b = behaviour(cuqi, o, pr)
            if d or b != b0[lab]:
                bad = (lab, d[:3], {kk: (b0[lab].get(kk), b.get(kk)) for kk in b if b.get(kk) != b0[lab].get(kk)})
                break
        if esc:
            ctx.disagree(key, desc, "no non-benign write to an object that existed before", esc, "sampler wrote to a pre-existing object")
        if bad:
            ctx.fail(key, {**desc, "original": bad[0]}, "original unchanged", {"structure": bad[1], "behaviour": bad[2]},
                     f"running {label} altered the original object '{bad[0]}'")
        elif esc:
            # the write exists but neither structure nor behaviour changed: a write of an identical value; not a violation
            ctx.disagreements.pop()
            ctx.note(f"{label}: idempotent write(s) to pre-existing objects {esc} (value unchanged)")
        return err

    Ns = 700 if not thorough else 2000
    # ---- legacy Gibbs and HybridGibbs: thousands of re-conditionings of one joint
    with quiet():
        A, d, l, x, y = build()
        joint = JointDistribution(d, l, x, y)
        post = joint(y=yobs)
    origs = [("joint", joint), ("posterior", post), ("d", d), ("l", l), ("x", x), ("y", y), ("A", A)]

    def legacy_gibbs():
        s = LS.Gibbs(post, {"x": LS.LinearRTO, ("d", "l"): LS.Conjugate})
        s.sample(Ns, 10)
        return {"reconditionings": 3 * (Ns + 10)}
    guarded("legacy-Gibbs", "sampler:legacy-Gibbs", origs, legacy_gibbs, {"sampler": "cuqi.sampler.Gibbs", "Ns": Ns, "blocks": 3})

    def hybrid_gibbs():
        s = XS.HybridGibbs(post, {"x": XS.LinearRTO(maxit=10), "d": XS.Conjugate(), "l": XS.Conjugate()})
        s.warmup(10); s.sample(Ns)
        return {"reconditionings": 3 * (Ns + 10)}
    guarded("HybridGibbs", "sampler:HybridGibbs", origs, hybrid_gibbs, {"sampler": "cuqi.experimental.mcmc.HybridGibbs", "Ns": Ns, "blocks": 3})

    def hybrid_gibbs_mh():
        s = XS.HybridGibbs(post, {"x": XS.MALA(scale=0.01), "d": XS.MH(scale=0.1, initial_point=np.array([1.0])), "l": XS.CWMH(scale=0.1, initial_point=np.array([1.0]))},
                           num_sampling_steps={"x": 2})
        s.warmup(20); s.sample(60)
        return {"reconditionings": 3 * 80}
    guarded("HybridGibbs-MH", "sampler:HybridGibbs-MH", origs, hybrid_gibbs_mh, {"sampler": "HybridGibbs with MALA/MH/CWMH", "Ns": 80})

    # ---- single-target samplers on a conditioned copy
    with quiet():
        A, d, l, x, y = build()
        joint = JointDistribution(d, l, x, y)
        px = joint(y=yobs, d=np.array([2.0]), l=np.array([4.0]))          # Posterior over x
    origs = [("joint", joint), ("posterior_x", px), ("d", d), ("l", l), ("x", x), ("y", y), ("A", A)]
    legacy = [("MH", lambda: LS.MH(px, scale=0.1).sample_adapt(30, 5)), ("CWMH", lambda: LS.CWMH(px, scale=0.1).sample_adapt(20, 5)),
              ("pCN", lambda: LS.pCN(px, scale=0.1).sample_adapt(30, 5)), ("ULA", lambda: LS.ULA(px, scale=0.001).sample(30)),
              ("MALA", lambda: LS.MALA(px, scale=0.001).sample(30)), ("NUTS", lambda: LS.NUTS(px, max_depth=4).sample(12, 4)),
              ("LinearRTO", lambda: LS.LinearRTO(px).sample(20)), ("UGLA", lambda: LS.UGLA(px).sample(10))]
    for nm, act in legacy:
        guarded("legacy-" + nm, "sampler:legacy-" + nm, origs, act, {"sampler": "cuqi.sampler." + nm, "target": "Posterior from joint(y,d,l)"})
    xs = [("MH", lambda: XS.MH(px, scale=0.1).warmup(10).sample(30)), ("CWMH", lambda: XS.CWMH(px, scale=0.1).warmup(5).sample(15)),
          ("PCN", lambda: XS.PCN(px, scale=0.1).warmup(5).sample(30)), ("ULA", lambda: XS.ULA(px, scale=0.001).sample(30)),
          ("MALA", lambda: XS.MALA(px, scale=0.001).sample(30)), ("NUTS", lambda: XS.NUTS(px, max_depth=4).warmup(4).sample(10)),
          ("LinearRTO", lambda: XS.LinearRTO(px).sample(20)), ("UGLA", lambda: XS.UGLA(px).sample(10))]
    for nm, act in xs:
        guarded("experimental-" + nm, "sampler:experimental-" + nm, origs, act, {"sampler": "cuqi.experimental.mcmc." + nm, "target": "Posterior from joint(y,d,l)"})

    # ---- hyper-parameter conditional (Conjugate on a conditioned copy), regularised RTO
    with quiet():
        A, d, l, x, y = build()
        joint = JointDistribution(d, l, x, y)
        pd = joint(y=yobs, x=probes_x[0], l=np.array([3.0]))             # Posterior over d
    origs = [("joint", joint), ("posterior_d", pd), ("d", d), ("l", l), ("x", x), ("y", y)]
    guarded("legacy-Conjugate", "sampler:legacy-Conjugate", origs, lambda: [LS.Conjugate(pd).step() for _ in range(20)],
            {"sampler": "cuqi.sampler.Conjugate", "target": "Posterior over d"})

    def xconj():
        s = XS.Conjugate(pd)
        s.sample(20)
    guarded("experimental-Conjugate", "sampler:experimental-Conjugate", origs, xconj, {"sampler": "cuqi.experimental.mcmc.Conjugate", "target": "Posterior over d"})
    from cuqi.implicitprior import RegularizedGaussian
    with quiet():
        A = LinearModel(Amat)
        xr = RegularizedGaussian(np.zeros(n), 1.0, constraint="nonnegativity", name="x")
        yr = Gaussian(A, 0.5, name="y")
        jr = JointDistribution(xr, yr)
        pr_ = jr(y=yobs)
    origs = [("joint", jr), ("posterior", pr_), ("x", xr), ("y", yr)]
    guarded("legacy-RegularizedLinearRTO", "sampler:legacy-RegularizedLinearRTO", origs, lambda: LS.RegularizedLinearRTO(pr_, maxit=5).sample(8),
            {"sampler": "cuqi.sampler.RegularizedLinearRTO"})
    guarded("experimental-RegularizedLinearRTO", "sampler:experimental-RegularizedLinearRTO", origs,
            lambda: XS.RegularizedLinearRTO(pr_, maxit=5).sample(8), {"sampler": "cuqi.experimental.mcmc.RegularizedLinearRTO"})
    conjugate_pairs(ctx, cuqi, tracer, lambda pr: (lambda *a: guarded(*a, pr=pr)))


def conjugate_pairs(ctx, cuqi, tracer, guarded_factory):
    """every conjugate pair of the conjugate samplers (plain / regularised Gaussian and GMRF, parameterised by precision
    or covariance; LMRF for the approximate sampler), run directly on the hyper-parameter conditional and inside
    HybridGibbs: the ORIGINAL hyper-prior (its shape / rate arrays are shared with every conditioned copy) and every
    other original must be unaltered"""
    import cuqi.sampler as LS
    import cuqi.experimental.mcmc as XS
    from cuqi.distribution import Gaussian, Gamma, GMRF, LMRF, JointDistribution
    from cuqi.implicitprior import RegularizedGaussian, RegularizedGMRF
    rs = np.random.RandomState(ctx.seed + 23)
    n = 6
    xcur = np.abs(rs.randint(-2, 4, size=n)).astype(float)
    xcur[0] = 0.0

    def worlds():
        yield "Gaussian-prec", lambda: Gaussian(np.zeros(n), prec=lambda d: d, name="x"), XS.Conjugate, LS.Conjugate
        yield "Gaussian-cov", lambda: Gaussian(np.zeros(n), cov=lambda d: 1.0 / d, name="x"), XS.Conjugate, LS.Conjugate
        yield "GMRF", lambda: GMRF(np.zeros(n), lambda d: d, name="x"), XS.Conjugate, LS.Conjugate
        yield "RegularizedGaussian-prec", lambda: RegularizedGaussian(np.zeros(n), prec=lambda d: d, constraint="nonnegativity", name="x"), XS.Conjugate, None
        yield "RegularizedGaussian-cov", lambda: RegularizedGaussian(np.zeros(n), cov=lambda d: 1.0 / d, constraint="nonnegativity", name="x"), XS.Conjugate, None
        yield "RegularizedGMRF", lambda: RegularizedGMRF(np.zeros(n), prec=lambda d: d, constraint="nonnegativity", name="x"), XS.Conjugate, None
        yield "LMRF", lambda: LMRF(0, lambda d: 1.0 / d, geometry=n, name="x"), XS.ConjugateApprox, LS.ConjugateApprox
    for lab, mk, XC, LC in worlds():
        for rate in (1e-4, 0.5):
            try:
                with quiet():
                    d = Gamma(1.0, rate, name="d")
                    x = mk()
                    joint = JointDistribution(d, x)
                    pd = joint(x=xcur)
            except Exception as e:  # noqa
                ctx.note(f"conjugate pair {lab}: world refused: {type(e).__name__}: {str(e)[:80]}")
                continue
            origs = [("joint", joint), ("conditional_d", pd), ("d", d), ("x", x)]
            desc = {"pair": lab, "rate": rate, "target": "joint(d, x)(x=x_current)"}
            pr = [{"d": np.array([1.0 + k]), "x": xcur + k} for k in range(2)]

            def direct():
                smp = XC(pd)
                smp.warmup(2); smp.sample(6)
            guarded_factory(pr)(f"experimental-{XC.__name__}:{lab}", f"sampler:experimental-{XC.__name__}:{lab}", origs, direct,
                                {**desc, "sampler": "cuqi.experimental.mcmc." + XC.__name__})
            if LC is not None:
                guarded_factory(pr)(f"legacy-{LC.__name__}:{lab}", f"sampler:legacy-{LC.__name__}:{lab}", origs,
                                    lambda: [LC(pd).step() for _ in range(6)], {**desc, "sampler": "cuqi.sampler." + LC.__name__})
        # the same pair inside HybridGibbs with a data model on top
        try:
            with quiet():
                from cuqi.model import LinearModel
                Amat = rs.randint(-2, 3, size=(n + 1, n)).astype(float)
                d = Gamma(1.0, 1e-2, name="d")
                x = mk()
                y = Gaussian(LinearModel(Amat), 0.5, name="y")
                joint = JointDistribution(d, x, y)
                post = joint(y=Amat @ np.abs(xcur) + 0.1)
        except Exception as e:  # noqa
            ctx.note(f"conjugate pair {lab} (Gibbs): world refused: {type(e).__name__}: {str(e)[:80]}")
            continue
        origs = [("joint", joint), ("posterior", post), ("d", d), ("x", x), ("y", y)]
        pr = [{"d": np.array([1.0 + k]), "x": xcur + k, "y": Amat @ xcur + k} for k in range(2)]
        xs = XS.RegularizedLinearRTO(maxit=4) if lab.startswith("Regularized") else (XS.LinearRTO(maxit=4) if lab != "LMRF" else XS.UGLA())

        def gibbs():
            g = XS.HybridGibbs(post, {"x": xs, "d": XC()})
            g.warmup(3); g.sample(8); g.warmup(2); g.sample(1)          # repeated phases, a phase of length exactly 1
        guarded_factory(pr)(f"HybridGibbs:{lab}", f"sampler:HybridGibbs:{lab}", origs, gibbs, {"pair": lab, "sampler": "HybridGibbs(" + XC.__name__ + ")"})


def scope_scenarios(ctx, cuqi):
    """objects going out of scope: the usual helper pattern `def make(...): y = Gaussian(A, 0.1); return y(y=data)`.
    Everything derived from an original must behave the same whether or not the caller still holds the original —
    with explicit names and with names inferred from the Python variable (looked up before or only after the copy)."""
    import gc
    from cuqi.distribution import Gaussian, Gamma, JointDistribution, Lognormal
    from cuqi.implicitprior import RegularizedGaussian
    from cuqi.model import LinearModel
    Amat = np.array([[1.0, 2.0, 0.5], [0.0, 1.0, 3.0], [2.0, 0.0, 1.0]])
    data = np.array([0.1, 0.2, -0.4])
    x0 = np.array([0.5, -1.0, 2.0])

    def facts(o):
        out = {"type": type(o).__name__, "name": _canon_name(_try(lambda: o.name)),
               "params": _canon_name(_try(lambda: list(o.get_parameter_names())))}
        dist = getattr(o, "distribution", None)
        if dist is not None:
            out["distribution.name"] = _canon_name(_try(lambda: dist.name))
        if hasattr(o, "_get_fixed_variables"):
            out["fixed"] = _canon_name(_try(lambda: sorted(map(str, o._get_fixed_variables()))))
        names = _try(lambda: list(o.get_parameter_names()))
        if not isinstance(names, Exception) and names and all(isinstance(k, str) for k in names):
            vals = {"x": x0, "y": data, "s": np.array([2.0]), "z": np.array([1.0, 1.0, 1.0])}
            if all(k in vals for k in names):
                out["logd"] = _canon(_try(lambda: o.logd(**{k: vals[k] for k in names})))
        return out

    def b_cond_data(named, lookup_first):
        A = LinearModel(Amat)
        y = Gaussian(A, 0.1, name="y") if named else Gaussian(A, 0.1)
        if lookup_first:
            y.name
        L = y(y=data)
        return {"y": y}, {"L": L, "copy_of_copy": L.distribution(x=x0), "E": L.distribution(x=x0, y=data), "L_cond": L(x=x0)}

    def b_cond_hyper(named, lookup_first):
        y = Gaussian(np.zeros(3), lambda s: s, name="y") if named else Gaussian(np.zeros(3), lambda s: s)
        if lookup_first:
            y.name
        ys = y(s=2.0)
        return {"y": y}, {"ys": ys, "ys_copy": ys(), "E": ys(y=data), "L": y.to_likelihood(data), "Ls": y.to_likelihood(data)(s=2.0)}

    def b_joint(named, lookup_first):
        A = LinearModel(Amat)
        x = Gaussian(np.zeros(3), 1.0, name="x") if named else Gaussian(np.zeros(3), 1.0)
        y = Gaussian(A, 0.1, name="y") if named else Gaussian(A, 0.1)
        if lookup_first:
            x.name, y.name
        J = JointDistribution(x, y)
        return {"x": x, "y": y, "J": J}, {"posterior": J(y=data), "lik": J(x=x0), "again": J()(y=data)}

    def b_helper_objects(named, lookup_first):
        y = Lognormal(lambda z: z, 1.0 * np.eye(3), name="y") if named else Lognormal(lambda z: z, 1.0 * np.eye(3))
        x = RegularizedGaussian(np.zeros(3), lambda s: s, constraint="nonnegativity", name="x") if named else \
            RegularizedGaussian(np.zeros(3), lambda s: s, constraint="nonnegativity")
        if lookup_first:
            x.name, y.name
        return {"x": x, "y": y}, {"yz": y(z=np.ones(3)), "Ly": y(y=np.abs(data) + 1), "xs": x(s=2.0), "Lx": x(x=np.abs(data))}

    for bname, builder in (("cond-data", b_cond_data), ("cond-hyper", b_cond_hyper), ("joint", b_joint), ("helpers", b_helper_objects)):
        for named in (True, False):
            for lookup_first in (False, True):
                desc = {"builder": bname, "explicit_names": named, "name_looked_up_before_copy": lookup_first}
                ctx.case("scope:" + bname, desc)
                res = {}
                for keep in (True, False):
                    try:
                        with quiet():
                            origs, derived = builder(named, lookup_first)
                    except Exception as e:  # noqa
                        res[keep] = {"<builder>": "exc:" + type(e).__name__ + ":" + str(e)[:60]}
                        continue
                    if not keep:
                        origs = None
                        del origs
                        gc.collect()
                    with quiet():
                        res[keep] = {k: facts(o) for k, o in derived.items()}
                    derived = None
                    gc.collect()
                if res[True] != res[False]:
                    diff = {k: (res[True].get(k), res[False].get(k)) for k in set(res[True]) | set(res[False]) if res[True].get(k) != res[False].get(k)}
                    key = f"scope:{bname}:{'named' if named else 'inferred-name'}"
                    ctx.disagree(key, desc, "model: names are read through `_original_density` (copy_keeps_name), independent of who else references the original",
                                 diff, "derived objects behave differently once the caller drops the original")
                    ctx.fail(key, desc, "derived objects report the same names / parameter names / logd whether or not the caller still holds the original",
                             diff, "a conditioned copy / likelihood / evaluated density depends on the caller keeping its original alive")


def fd_option_scenarios(ctx, cuqi):
    """directed: an option set on an original BEFORE use (`enable_FD(eps)`) must survive every operation that builds something
    from the original (to_likelihood, conditioning on the own name / on a parameter, joint conditioning, model application)"""
    from cuqi.distribution import Gaussian, Gamma, JointDistribution
    from cuqi.model import LinearModel
    data = np.array([0.1, 0.2, -0.4]); x0 = np.array([0.5, -1.0, 2.0])
    for eps in (1e-3, 1e-6):
        for opname in ("to_likelihood", "cond-own-name", "cond-parameter", "joint-cond", "likelihood-cond", "logd", "gradient"):
            with quiet():
                A = LinearModel(np.array([[1.0, 2.0, 0.5], [0.0, 1.0, 3.0], [2.0, 0.0, 1.0]]))
                y = Gaussian(A, lambda s: 1.0 / s, name="y")
                x = Gaussian(np.zeros(3), 1.0, name="x"); s_ = Gamma(1.0, 1.0, name="s")
                y.enable_FD(eps); x.enable_FD(eps)
            origs = [("y", y), ("x", x), ("s", s_)]
            s0 = {lab: snapshot(o) for lab, o in origs}
            f0 = {lab: (o.FD_enabled, o.FD_epsilon) for lab, o in origs}
            desc = {"scenario": "option set before use", "epsilon": eps, "op": opname,
                    "setup": "y = Gaussian(A, lambda s: 1/s); x = Gaussian(0, 1); y.enable_FD(eps); x.enable_FD(eps)"}
            ctx.case("fd-option:" + opname, desc)
            try:
                with quiet():
                    if opname == "to_likelihood":
                        y.to_likelihood(data)
                    elif opname == "cond-own-name":
                        y(y=data)
                    elif opname == "cond-parameter":
                        y(s=2.0)
                    elif opname == "joint-cond":
                        JointDistribution(x, y, s_)(y=data)
                    elif opname == "likelihood-cond":
                        y.to_likelihood(data)(s=2.0)
                    elif opname == "logd":
                        y.logd(x=x0, s=2.0, y=data)
                    else:
                        x.gradient(x0)
            except Exception as e:  # noqa
                ctx.note(f"fd-option scenario {opname}: {type(e).__name__}: {str(e)[:60]}")
            for lab, o in origs:
                d = snap_equal(s0[lab], snapshot(o))
                f1 = (o.FD_enabled, o.FD_epsilon)
                if d or f1 != f0[lab]:
                    key = f"alter:{opname}:fd-option"
                    ctx.fail(key, {**desc, "original": lab}, {"FD_enabled, FD_epsilon": f0[lab]}, {"FD_enabled, FD_epsilon": f1, "structure": d[:3]},
                             f"`{opname}` changed the finite-difference option set on the original '{lab}'")
                    break


def _canon_name(x):
    return "exc:" + type(x).__name__ if isinstance(x, Exception) else x


def deep_chains(ctx, cuqi):
    """copies of copies of copies …: the name (and the parameter names, and the value) of a conditioned copy must be
    those of its original at every nesting depth (model: `copy_keeps_name` by well-founded recursion, no depth limit)"""
    from cuqi.distribution import Gaussian
    lines, metas = [], []
    for depth in (30, 300, 900, 1200, 2500):
        with quiet():
            x = Gaussian(np.zeros(2), lambda s: s, name="x")
            d = x
            for _ in range(depth):
                d = d()
        nm = _try(lambda: d.name)
        pn = _try(lambda: list(d.get_parameter_names()))
        lv = _try(lambda: float(d.logd(s=np.array([2.0]), x=np.array([1.0, -1.0]))))
        ref = _try(lambda: float(x.logd(s=np.array([2.0]), x=np.array([1.0, -1.0]))))
        metas.append((depth, nm, pn, lv, ref))
        # the executable model is run to depth <= 250 (its field maps are closures: cost grows cubically); beyond that its
        # answer is the same by theorem (copy_keeps_name / name_preserved hold at every depth)
        md = min(depth, 250)
        lines.append("prog g:;d:fam=n0,name=n0,geom=r0,s0=n0,s1=f1/5 " + ";".join(["c:@1:."] + [f"c:${k}:." for k in range(md - 1)]))
    outs = ctx.lean.drive(lines)
    for (depth, nm, pn, lv, ref), out in zip(metas, outs):
        recs, sib = parse_model(out)
        m = recs[-1]
        desc = {"chain": "d = d() repeated", "depth": depth, "original": "Gaussian(zeros(2), lambda s: s, name='x')"}
        ctx.case("deep-chain", desc)
        key = "name:deep-chain:" + ("depth>=1000" if depth >= 1000 else "depth<1000")
        impl = {"name": "exc:" + type(nm).__name__ if isinstance(nm, Exception) else nm,
                "parameter_names": "exc:" + type(pn).__name__ if isinstance(pn, Exception) else pn,
                "logd": "exc:" + type(lv).__name__ if isinstance(lv, Exception) else lv}
        model = {"name": NAME_POOL[m["name"]] if m.get("name") is not None else None,
                 "parameter_names": [NAME_POOL[i] for i in (m.get("names") or [])]}
        if impl["name"] != model["name"] or impl["parameter_names"] != model["parameter_names"]:
            ctx.disagree(key, desc, model, impl, "name / parameter names of a deeply nested conditioned copy")
        if impl["name"] != "x" or impl["parameter_names"] != ["s", "x"] or isinstance(lv, Exception) or lv != ref:
            ctx.fail(key, desc, {"name": "x", "parameter_names": ["s", "x"], "logd": ref}, impl,
                     "a conditioned copy (of a copy of a copy …) does not report the name / behaviour of its original")


def collect_ids(o, seen, depth=0):
    if id(o) in seen or depth > 8:
        return
    if isinstance(o, (list, tuple)):
        seen.add(id(o))
        for x in o:
            collect_ids(x, seen, depth + 1)
        return
    if isinstance(o, dict):
        seen.add(id(o))
        for x in o.values():
            collect_ids(x, seen, depth + 1)
        return
    if not _is_cuqi_obj(o):
        return
    seen.add(id(o))
    for v in vars(o).values():
        collect_ids(v, seen, depth + 1)


# ============================================================================ entry
def run(ctx):
    cuqi = import_cuqi()
    thorough = ctx.tier == "thorough"
    ctx.trusted += ["CPython object semantics (the heap model's write sets are validated against the running code, not derived)",
                    "the tracing __setattr__/__new__ installed on Density, JointDistribution, Model, Geometry and the structural snapshot (harness)",
                    "harness/translate/c11_tables.py (AST -> Generated/C11WriteSets.lean)"]
    ctx.assumptions += ["explicit distribution names (no stack-based name inference)",
                        "user callables do not mutate their arguments or captured arrays (in-place numpy mutation inside user callables is out of scope)",
                        "behavioural fingerprints are compared exactly (same code path, same inputs, single thread)"]
    ctx.c11_shrunk = {}
    import time as _time
    phases = {}

    def timed(label, f, *a, **k):
        t0 = _time.process_time()
        try:
            return f(*a, **k)
        finally:
            phases[label] = round(phases.get(label, 0.0) + _time.process_time() - t0, 2)
            ctx.extra_cov["phase_cpu_seconds"] = phases
    q = not thorough
    # generated user programs on originals whose name is inferred from the Python variable (first look-up at different times)
    from harness.props import c11_names
    timed("inferred_names", c11_names.inferred_name_programs, ctx, cuqi, 60 if q else 600)
    # lazily inferred default geometry (Model/C11_geom.lean, `geo` protocol): tie + history-independence oracle
    from harness.props import c11_geom
    timed("lazy_geometry", c11_geom.geometry_programs, ctx, cuqi, 24 if q else 600, thorough)
    # RegularizedGaussian-family originals whose conditioning variable is given directly as None
    from harness.props import c11_reg
    timed("regularized_none", c11_reg.regularized_none_programs, ctx, cuqi, 30 if q else 360)
    # the conditioning call stream of the real Gibbs samplers vs the model's `streamOps` (Model/C11_gibbs.lean)
    from harness.props import c11_gibbs
    timed("gibbs_streams", c11_gibbs.gibbs_streams, ctx, cuqi, thorough)
    tracer = Tracer(cuqi)
    tracer.install()
    try:
        n = 36 if q else 40 * ctx.scale
        sc = 1 if q else ctx.scale
        timed("programs", run_programs, ctx, cuqi, tracer, n, thorough, n_step=(11 if q else 13 * sc), n_rejoin=(9 if q else 9 * sc),
              n_dense=(9 if q else 9 * sc), n_inter=(9 if q else 9 * sc), n_reduce=(10 if q else 9 * sc))
        timed("sampler_scenarios", sampler_scenarios, ctx, cuqi, tracer, thorough)
        timed("deep_chains", deep_chains, ctx, cuqi)
        timed("scope_scenarios", scope_scenarios, ctx, cuqi)
        timed("fd_option_scenarios", fd_option_scenarios, ctx, cuqi)
    finally:
        tracer.uninstall()
