"""C15, session-3 extension: the Gaussian specification layer (Model/C15_gauss.lean) tied to the real
`cuqi.distribution.Gaussian`: constructor / setter validation, what `sqrtprec.T @ sqrtprec` is afterwards, `compute_cov()`,
the `_cov` attribute over histories (exceptions swallowed by the caller), then the chain spec -> compute_cov -> MAP.

Driver op: `ghist <param> <dim> <MAX_DIM_INV> <arr> [set:<arr> | cc]...`
Keys:  gauss:<param>:<class of the last assigned value>:<what>      MAP:gauss-chain:<param>:<class>
"""
import numpy as np
from fractions import Fraction
from harness.core import quiet, q, qv, qm, pv, pm

PARAMS = ["cov", "prec", "sqrtcov", "sqrtprec"]
# value classes; the second field says whether the class is valid input (a proper Gaussian results) for a given param
CLASSES = ["pyfloat", "list1", "arr1", "1x1", "row", "vector", "diagm", "full", "full-nonsym", "indef", "singular",
           "nonsquare", "0-d", "wrongsize", "neg-scalar", "zero-scalar", "vec-zero", "vec-neg"]
WEIGHTS = [3, 1, 2, 1, 1, 4, 3, 6, 2, 2, 2, 2, 1, 1, 1, 1, 1, 1]


def gen_value(rs, param, d, cls):
    """a python value of the class (exactly representable small dyadics)"""
    pos = [0.25, 0.5, 1.0, 2.0, 4.0]
    if cls == "pyfloat":
        return float(rs.choice(pos))
    if cls == "list1":
        return [float(rs.choice(pos))]
    if cls == "arr1":
        return np.array([float(rs.choice(pos))])
    if cls == "1x1":
        return np.array([[float(rs.choice(pos))]])
    if cls == "row":
        return np.array([[float(x) for x in rs.choice(pos, size=d)]])
    if cls == "vector":
        return np.array([float(x) for x in rs.choice(pos, size=max(d, 2) if d > 1 else 2)])[: max(d, 2)] if d > 1 else np.array([float(rs.choice(pos))])
    if cls == "diagm":
        v = np.array([float(x) for x in rs.choice(pos, size=d)])
        return np.diag(v) * (1.0 if param in ("cov", "prec") else float(rs.choice([1.0, -1.0])))
    if cls == "full":
        if d < 2:
            return np.array([[float(rs.choice(pos))]])
        if param in ("cov", "prec"):
            B = rs.randint(-1, 2, size=(d, d)).astype(float)
            M = B @ B.T + float(rs.choice([1.0, 2.0])) * np.eye(d)
            if np.count_nonzero(M - np.diag(np.diag(M))) == 0:
                M[0, 1] = M[1, 0] = 0.5
            return M / float(rs.choice([1.0, 2.0, 4.0]))
        M = np.triu(rs.randint(-2, 3, size=(d, d)).astype(float), 1) / 2.0 + np.diag(rs.choice([0.5, 1.0, 2.0], size=d))
        if rs.rand() < 0.5:
            M = M + np.tril(rs.randint(-1, 2, size=(d, d)).astype(float), -1) / 4.0      # general, non-triangular
            if abs(np.linalg.det(M)) < 0.2:
                M = M + 2.0 * np.eye(d)
        if np.count_nonzero(M - np.diag(np.diag(M))) == 0:
            M[0, 1] = 0.5
        return M
    if cls == "full-nonsym":
        if d < 2:
            return np.array([[float(rs.choice(pos))]])
        M = 2.0 * np.eye(d); M[0, 1] = float(rs.choice([1.0, 0.5, -1.0]))
        return M
    if cls in ("indef", "singular"):
        if d < 2:
            return np.array([[float(rs.choice(pos))]])
        blk = np.array([[1.0, 2.0], [2.0, 1.0]]) if cls == "indef" else [np.array([[1.0, 1.0], [1.0, 1.0]]), np.array([[4.0, 2.0], [2.0, 1.0]])][rs.randint(0, 2)]
        M = np.diag(rs.choice([1.0, 2.0], size=d).astype(float)); M[:2, :2] = blk
        return M
    if cls == "nonsquare":
        r = d if d > 1 else 2
        c = r + 1 if rs.rand() < 0.5 else max(2, r - 1)
        if c == r:
            c = r + 1
        M = np.zeros((r, c)); M[:min(r, c), :min(r, c)] = np.eye(min(r, c))
        M[0, c - 1] = 0.5
        return M
    if cls == "0-d":
        return np.array(float(rs.choice(pos)))
    if cls == "wrongsize":
        k = d + 1 if d < 3 or rs.rand() < 0.5 else d - 1
        if k < 2:
            k = 2 if d != 2 else 3
        M = 2.0 * np.eye(k); M[0, 1] = M[1, 0] = 0.5
        return M
    if cls == "neg-scalar":
        return -float(rs.choice(pos))
    if cls == "zero-scalar":
        return 0.0
    if cls in ("vec-zero", "vec-neg"):
        n = max(d, 2)
        v = np.array([float(x) for x in rs.choice(pos, size=n)])
        v[rs.randint(0, n)] = 0.0 if cls == "vec-zero" else -1.0
        return v
    raise ValueError(cls)


def tok(v):
    """driver token of force_ndarray(value)"""
    if not isinstance(v, np.ndarray):
        if hasattr(v, "__len__") and len(v) > 1:
            v = np.array(v, dtype=float)
        else:
            v = np.array(v, dtype=float).reshape((1, 1))
    if v.ndim == 0:
        return "s:" + q(float(v))
    if v.ndim == 1:
        return "v:" + qv(v)
    return "m:" + qm(v)


def arr_matches(token, real, tol=1e-9):
    """model array token vs a real ndarray: same rank, shape, values (relative to the array's scale)"""
    if real is None:
        return token == "none"
    if token == "none":
        return False
    if hasattr(real, "todense"):
        real = np.asarray(real.todense())
    a = np.asarray(real, dtype=float)
    kind = token[0]
    if kind == "s":
        b = np.array(float(Fraction(token[2:])))
    elif kind == "v":
        b = np.array([float(x) for x in pv(token[2:])])
    elif kind == "m":
        b = np.array([[float(x) for x in r] for r in pm(token[2:])])
    else:
        return False
    if a.shape != b.shape:
        return False
    sc = float(np.abs(b).max(initial=0.0))
    ok = bool(np.all(np.isfinite(a))) and float(np.abs(a - b).max(initial=0.0)) <= tol * sc + 1e-300
    if ok and sc > 0:
        from harness.props.c15 import margin
        margin(f"tie:gauss-layer-array:rel={tol:g}", float(np.abs(a - b).max(initial=0.0)) / (tol * sc))
    return ok


def nonfinite(a):
    try:
        if hasattr(a, "todense"):
            a = a.todense()
        return not bool(np.all(np.isfinite(np.asarray(a, dtype=float))))
    except Exception:
        return False


def real_history(cuqi, param, d, v0, ops, maxdim, geom=None):
    """the same history on the real Gaussian; returns the log in the driver's format (as a list of comparable items)"""
    from cuqi.distribution import Gaussian
    log = []
    saved = cuqi.config.MAX_DIM_INV
    try:
        cuqi.config.MAX_DIM_INV = maxdim
        try:
            with quiet():
                g = Gaussian(np.zeros(d), **{param: v0}) if geom is None else Gaussian(np.zeros(d), geometry=geom, **{param: v0})
        except Exception as e:
            return [("new", "err", type(e).__name__)], None
        log.append(("new", "ok", None))
        for op in ops:
            if op[0] == "set":
                try:
                    with quiet():
                        setattr(g, param, op[1])
                    log.append(("set", "ok", None))
                except Exception as e:
                    log.append(("set", "err", type(e).__name__))
            else:
                try:
                    with quiet():
                        c = g.compute_cov()
                    log.append(("cc", "ok", np.asarray(c)))
                except Exception as e:
                    log.append(("cc", "err", type(e).__name__))
        try:
            with quiet():
                S = g.sqrtprec
                S = np.asarray(S.todense()) if hasattr(S, "todense") else np.asarray(S)
                G = S.T @ S
            log.append(("gram", "ok", np.asarray(G)))
        except Exception as e:
            log.append(("gram", "err", type(e).__name__))
        log.append(("cov", "ok", getattr(g, "_cov", None)))
        log.append(("dim", "ok", getattr(g._geometry, "par_dim", None)))
        return log, g
    finally:
        cuqi.config.MAX_DIM_INV = saved


def compare_log(model_out, log):
    """returns None or (what, model item, implementation item)"""
    items = model_out.split(" ")
    if len(items) != len(log):
        return ("number of operations", model_out[:200], str([(a, b) for a, b, _ in log]))
    for it, (name, st, val) in zip(items, log):
        k, _, mv = it.partition("=")
        if k != name:
            return ("operation order", it[:100], name)
        if name in ("new", "set"):
            want = "ok" if st == "ok" else "err:" + val
            if mv != want:
                return (f"{name}: exception class / success", it[:100], want)
        elif name == "cc":
            if mv == "err:nan":          # the code computes with NaN/inf (e.g. 1/0 = inf, inv([[inf]]) = [[0.]]): nothing is demanded
                continue
            elif mv.startswith("err:"):
                if st != "err" or val != mv[4:]:
                    return ("compute_cov: exception class", it[:100], f"{st}:{val if st == 'err' else np.asarray(val).tolist()}")
            else:
                if st != "ok" or not arr_matches(mv, val):
                    return ("compute_cov: returned covariance", it[:300], f"{st}:{val if st == 'err' else np.asarray(val).tolist()}")
        elif name == "gram":
            if mv == "err:nan":
                if not (st == "ok" and nonfinite(val)):
                    return ("sqrtprec.T@sqrtprec in the NaN domain", it[:100], f"{st}:{val if st == 'err' else np.asarray(val).tolist()}")
            elif mv == "err:LinAlgError":    # 1-D raw factor left behind by a raising sqrtprec setter: the Gram "matrix" is a 0-d number
                if not (st == "ok" and np.ndim(val) == 0):
                    return ("sqrtprec.T@sqrtprec of a 1-D raw factor", it[:100], f"{st}:{val if st == 'err' else np.asarray(val).tolist()}")
            elif mv.startswith("err:"):
                if st != "err" or val != mv[4:]:
                    return ("sqrtprec.T@sqrtprec: exception class", it[:100], f"{st}:{val if st == 'err' else np.asarray(val).tolist()}")
            else:
                if st != "ok" or not arr_matches(mv, val):
                    return ("sqrtprec.T@sqrtprec (Gram matrix of the stored factor)", it[:300], f"{st}:{val if st == 'err' else np.asarray(val).tolist()}")
        elif name == "dim":
            if val is None or int(mv) != int(val):
                return ("dimension of the geometry", it, val)
        elif name == "cov":
            if any(x.startswith("cc=err:nan") for x in items):
                continue      # NaN domain: the code stores a non-finite array, the model stops describing `_cov`
            if not arr_matches(mv, val):
                return ("_cov attribute after the history", it[:300], "None" if val is None else np.asarray(val).tolist())
    return None


def run_gauss(ctx, cuqi, rs, thorough, oracle_point):
    from cuqi.distribution import Gaussian
    from cuqi.model import LinearModel
    from cuqi.problem import BayesianProblem
    nprob = 2400 if thorough else 220
    p_w = np.array(WEIGHTS, dtype=float) / sum(WEIGHTS)
    probs, lines = [], []
    for k in range(nprob):
        param = PARAMS[k % 4]
        d = int(rs.randint(1, 6))
        cls0 = CLASSES[(k // 4) % len(CLASSES)] if k < 4 * len(CLASSES) else CLASSES[rs.choice(len(CLASSES), p=p_w)]
        v0 = gen_value(rs, param, d, cls0)
        nops = int(rs.choice([0, 1, 1, 2, 3, 4]))
        ops, classes = [], [cls0]
        for _ in range(nops):
            if rs.rand() < 0.5:
                ops.append(("cc",))
            else:
                c = CLASSES[rs.choice(len(CLASSES), p=p_w)]
                ops.append(("set", gen_value(rs, param, d, c))); classes.append(c)
        if nops == 0 or rs.rand() < 0.3:
            ops.append(("cc",))
        maxdim = 2000 if rs.rand() < 0.85 else int(rs.randint(max(1, d - 1), d + 1))
        geom = d if rs.rand() < 0.3 else None          # explicit geometry=d (as the problems of the other streams) or inferred
        probs.append((param, d, v0, ops, maxdim, classes, geom))
        lines.append(f"ghist {param} {d} {'-' if geom is None else geom} {maxdim} {tok(v0)} " + " ".join("cc" if o[0] == "cc" else "set:" + tok(o[1]) for o in ops))
    outs = ctx.lean.drive(lines)
    hist = {"construct": {}, "set": {}, "cc": {}, "final_gram": {}, "class": {}}
    chain, lines2 = [], []
    for (param, d, v0, ops, maxdim, classes, geom), out, line in zip(probs, outs, lines):
        desc = {"param": param, "mean_len": d, "geometry": geom, "MAX_DIM_INV": maxdim, "value": np.asarray(v0).tolist(),
                "ops": [(o[0], None if o[0] == "cc" else np.asarray(o[1]).tolist()) for o in ops], "classes": classes, "driver_line": line[:400]}
        key = f"gauss:{param}:{classes[-1]}"
        ctx.case("gauss-" + param, desc)
        for c in classes:
            hist["class"][param + ":" + c] = hist["class"].get(param + ":" + c, 0) + 1
        for it in out.split(" "):
            k_, _, v_ = it.partition("=")
            bucket = {"new": "construct", "set": "set", "cc": "cc", "gram": "final_gram"}.get(k_)
            if bucket:
                lab = v_ if v_.startswith("err:") or v_ == "ok" else "value"
                hist[bucket][lab] = hist[bucket].get(lab, 0) + 1
        if "unmodelled" in out or out == "bad-op":
            ctx.note(f"gauss: outside the modelled domain ({out[:40]}) at {key}")
            continue
        log, g = real_history(cuqi, param, d, v0, ops, maxdim, geom)
        bad = compare_log(out, log)
        if bad:
            ctx.disagree(key + ":" + bad[0].split(":")[0].replace(" ", "-")[:30], desc, bad[1], bad[2], "Gaussian specification layer: " + bad[0])
            # failing-input search (implementation only): whatever compute_cov() returned must be the inverse of the Gram
            # matrix of the factor the density uses, i.e. the closed form and logd must speak about the same Gaussian
            gauss_oracle(ctx, key + ":" + bad[0].split(":")[0].replace(" ", "-")[:30], desc, g)
            continue
        gauss_oracle(ctx, key, desc, g)
        # ---- chain: this Gaussian as the prior of a small linear-Gaussian problem; MAP from the model's own `_cov`
        items = dict(it.partition("=")[::2] for it in out.split(" "))
        clean = items.get("new") == "ok" and all(not it.startswith("set=err") for it in out.split(" ")) and items.get("gram", "").startswith("m:") \
            and len(pm(items["gram"][2:])) == d == int(items["dim"])
        if clean and len(chain) < (600 if thorough else 70):
            G = pm(items["gram"][2:])
            n = len(G)
            m = n + int(rs.randint(0, 3))
            A = rs.randint(-3, 4, size=(m, n)).astype(float)
            mean = rs.randint(-2, 3, size=n).astype(float); b = rs.randint(-4, 5, size=m).astype(float)
            ce = float(rs.choice([0.5, 1.0, 2.0]))
            dimf = int(items["dim"])
            chain.append((param, d, v0, ops, maxdim, classes, A, mean, b, ce, items, desc, geom))
            lines2.append(f"map m:{qm(A)} {m} {dimf} m:{q(ce)} {items['cov']} v:{qv(mean)} v:{qv(b)}")
            We = ";".join(",".join(q(1.0 / ce) if i == j else "0" for j in range(m)) for i in range(m))
            lines2.append(f"ref {qm(A)} {We} {items['gram'][2:]} {qv(mean)} {qv(b)}")
    outs2 = ctx.lean.drive(lines2) if lines2 else []
    for i, (param, d, v0, ops, maxdim, classes, A, mean, b, ce, items, desc0, geom) in enumerate(chain):
        mmod, ref = outs2[2 * i], outs2[2 * i + 1]
        key = f"MAP:gauss-chain:{param}:{classes[-1]}"
        desc = {**desc0, "A": A.tolist(), "prior_mean": mean.tolist(), "b": b.tolist(), "noise_cov": ce}
        ctx.case("gauss-chain-" + param, desc)
        saved = cuqi.config.MAX_DIM_INV
        try:
            # dim of the prior is d (from the mean); a wrong-size main matrix makes the problem inconsistent -> refusals
            with quiet():
                x = Gaussian(mean, **{param: v0}) if geom is None else Gaussian(mean, geometry=geom, **{param: v0})
                M = LinearModel(A)
            with quiet():
                y = Gaussian(M(x), cov=ce)
                BP = BayesianProblem(y, x).set_data(y=b)
                cuqi.config.MAX_DIM_INV = maxdim
                for op in ops:
                    try:
                        if op[0] == "set":
                            setattr(BP.prior, param, op[1])
                        else:
                            BP.prior.compute_cov()
                    except Exception:
                        pass
                cuqi.config.MAX_DIM_INV = saved
            try:
                with quiet():
                    xm = BP.MAP(disp=False)
                impl = ("ok", np.asarray(xm, dtype=float).ravel())
            except Exception as e:
                impl = ("err", type(e).__name__)
        except Exception as e:
            ctx.note(f"gauss-chain construction raises {type(e).__name__} at {key}")
            continue
        finally:
            cuqi.config.MAX_DIM_INV = saved
        if mmod.startswith("err:"):
            want = mmod[4:].replace("LinAlgError:singular", "LinAlgError")
            if impl[0] != "err" or impl[1] != want:
                ctx.disagree(key, desc, mmod, str(impl[1] if impl[0] == "err" else impl[1].tolist()), "MAP after the Gaussian's history: model exception vs implementation")
                if impl[0] == "ok" and ref.startswith("mean="):
                    oracle_point(ctx, key, desc, BP.posterior, impl[1], np.array([float(v) for v in pv(ref.split(" ")[0][5:])]), rs, what="MAP (gauss chain)")
            continue
        mv = np.array([float(v) for v in pv(mmod[2:])]) if mmod.startswith("v:") else None
        if impl[0] == "ok" and mv is not None and mv.shape == impl[1].shape:
            from harness.props.c15 import margin
            margin("tie:gauss-chain-MAP:tol=1e-08", float(np.abs(mv - impl[1]).max(initial=0.0)) / (1e-8 * (1 + float(np.abs(mv).max(initial=0.0)))))
        if impl[0] == "err" or mv is None or mv.shape != impl[1].shape or float(np.abs(mv - impl[1]).max(initial=0.0)) > 1e-8 * (1 + float(np.abs(mv).max(initial=0.0))):
            ctx.disagree(key, desc, mmod[:200], str(impl[1] if impl[0] == "err" else impl[1].tolist()), "MAP after the Gaussian's history: model (own compute_cov) vs implementation")
        if impl[0] == "ok" and ref.startswith("mean="):
            # oracle: exact posterior mean for the documented precision (= the Gram matrix, theorem gram_documented)
            oracle_point(ctx, key, desc, BP.posterior, impl[1], np.array([float(v) for v in pv(ref.split(" ")[0][5:])]), rs, what="MAP (gauss chain)")
    ctx.extra_cov["gauss_layer_histogram"] = hist
    ctx.extra_cov["gauss_chain_cases"] = len(chain)


def gauss_oracle(ctx, key, desc, g):
    """implementation only: the covariance the closed form would read (`_cov`, for non-cov parameterisations) is the inverse
    of the precision the density evaluates (sqrtprec.T@sqrtprec) -- MAP's formula and logd speak about the same Gaussian.
    (Holds in every history, also after swallowed setter exceptions: `_cov` is reset before validation.)"""
    if g is None:
        return
    try:
        C = getattr(g, "_cov", None)
        if "cov" in g.get_mutable_variables() or C is None:
            return
        S = g.sqrtprec
        S = np.asarray(S.todense()) if hasattr(S, "todense") else np.asarray(S, dtype=float)
        G = S.T @ S
        C = np.asarray(C, dtype=float)
        if not (np.all(np.isfinite(G)) and np.all(np.isfinite(C))) or C.ndim != 2 or C.shape != G.shape:
            return
        dev = float(np.abs(G @ C - np.eye(len(G))).max())
    except Exception:
        return
    if dev <= 1e-8 * max(1.0, float(np.linalg.cond(G))):
        from harness.props.c15 import margin
        margin("oracle:compute_cov-inverse-of-factor-precision:tol=1e-8*cond", dev / (1e-8 * max(1.0, float(np.linalg.cond(G)))))
    if dev > 1e-8 * max(1.0, float(np.linalg.cond(G))):
        ctx.fail(key, desc, "compute_cov() is the inverse of sqrtprec.T@sqrtprec (the precision logd uses)", {"G@C - I": dev, "C": C.tolist()},
                 "the covariance the direct routes read is not the inverse of the precision the density uses")


# ----------------------------------------------------------------------------------------------- the sampling loop (Model/C15_loop.lean)
def run_loop(ctx, cuqi, rs, thorough):
    """sample_posterior(Ns[, Nb][, callback]) on the direct route with a scripted standard-normal STREAM (one flat sequence of
    dyadic numbers, randn(n) reads the next n): every column, the stream position, the callback log vs `sampleDirectLoop`;
    Ns = 0; Nb ignored.  The factor L is leaf data read off a separate run with unit vectors."""
    from cuqi.distribution import Gaussian
    from cuqi.model import LinearModel
    from cuqi.problem import BayesianProblem
    nprob = 300 if thorough else 40
    jobs, lines = [], []
    orig = np.random.randn
    hist = {"Ns": {}, "callback": 0, "Nb_given": 0, "Ns0": 0}
    try:
        for k in range(nprob):
            n = int(rs.randint(1, 5)); m = n + int(rs.randint(0, 3))
            A = rs.randint(-2, 3, size=(m, n)).astype(float) + 2.0 * np.eye(m, n)
            mean = rs.randint(-2, 3, size=n).astype(float); b = rs.randint(-4, 5, size=m).astype(float)
            # (a 1-D covariance VECTOR is refused by the direct sampler -- theorem sampleCentre_refuses_vectors -- hence a matrix)
            pc = [float(rs.choice([0.5, 1.0, 2.0])), np.diag([float(x) for x in rs.choice([0.5, 1.0, 2.0], size=n)]) + 0.25 * (np.eye(n, k=1) + np.eye(n, k=-1))][k % 2] if n > 1 else 2.0
            with quiet():
                x = Gaussian(mean, cov=pc); y = Gaussian(LinearModel(A)(x), cov=float(rs.choice([0.25, 1.0])))
                BP = BayesianProblem(y, x).set_data(y=b)
            # leaf: centre and factor from unit vectors
            script = [np.zeros(n)] + [np.eye(n)[:, j].copy() for j in range(n)]
            cnt = [0]

            def unit(*a):
                cnt[0] += 1
                return script[cnt[0] - 1].copy()
            np.random.randn = unit
            try:
                with quiet():
                    X0 = np.asarray(BP.sample_posterior(n + 1).samples, dtype=float)
            except Exception as e:
                ctx.note(f"loop: leaf run raises {type(e).__name__}")
                continue
            finally:
                np.random.randn = orig
            centre = X0[:, 0].copy(); L = X0[:, 1:] - centre[:, None]
            Ns = 0 if k % 10 == 9 else int(rs.randint(1, 7))
            use_cb = bool(k % 3 != 0)
            Nb = None if k % 2 == 0 else int(rs.randint(0, 9))
            stream = rs.randint(-4, 5, size=Ns * n + 3) / 2.0
            pos = [0]; shapes = []

            def flat(*a):
                shapes.append(a)
                nn = int(np.prod(a)) if a else 1
                out = stream[pos[0]: pos[0] + nn].copy()
                pos[0] += nn
                return out.reshape(a) if a else float(out[0])
            cblog = []

            def cb(sample, idx):
                cblog.append((int(idx), np.array(sample, dtype=float).copy()))
            np.random.randn = flat
            try:
                try:
                    with quiet():
                        args = (Ns,) if Nb is None else (Ns, Nb)
                        S = BP.sample_posterior(*args, callback=cb) if use_cb else BP.sample_posterior(*args)
                    impl = ("ok", np.asarray(S.samples, dtype=float).copy())
                except Exception as e:
                    impl = ("err", type(e).__name__)
            finally:
                np.random.randn = orig
            jobs.append((n, m, A, mean, b, pc, centre, L, Ns, use_cb, Nb, stream, impl, pos[0], list(shapes), cblog))
            lines.append(f"loop {qv(centre)} {qm(L)} {Ns} {int(use_cb)} {'-' if Nb is None else Nb} {qv(stream)}")
            hist["Ns"][str(Ns)] = hist["Ns"].get(str(Ns), 0) + 1; hist["callback"] += int(use_cb); hist["Nb_given"] += int(Nb is not None); hist["Ns0"] += int(Ns == 0)
    finally:
        np.random.randn = orig
    outs = ctx.lean.drive(lines) if lines else []
    for (n, m, A, mean, b, pc, centre, L, Ns, use_cb, Nb, stream, impl, used, shapes, cblog), out in zip(jobs, outs):
        desc = {"A": A.tolist(), "prior_mean": mean.tolist(), "prior_cov": np.asarray(pc).tolist(), "b": b.tolist(), "Ns": Ns, "Nb": Nb,
                "callback": use_cb, "stream": stream.tolist()}
        key = f"sample:direct-loop:{'Ns0' if Ns == 0 else 'Ns'}:{'cb' if use_cb else 'nocb'}:{'Nb' if Nb is not None else 'noNb'}"
        ctx.case("sample-loop", desc)
        if out.startswith("err:"):
            if impl[0] != "err" or impl[1] != out[4:]:
                ctx.disagree(key, desc, out, str(impl[1] if impl[0] == "err" else impl[1].tolist())[:200], "sampling loop: model exception vs implementation")
                if impl[0] == "ok" and impl[1].shape[1] != Ns:
                    ctx.fail(key, desc, f"{Ns} draws or a failing call", impl[1].shape, "direct sampler returns a wrong number of draws")
            continue
        f = dict(t.split("=", 1) for t in out.split(" "))
        cols = np.array([[float(v) for v in r] for r in pm(f["cols"])])          # row s = draw s
        bad = None
        if impl[0] == "err":
            bad = ("a sample array", "raises " + impl[1], "the direct sampler raises")
        else:
            X = impl[1]
            if X.shape != (n, Ns):
                bad = (f"samples of shape ({n},{Ns})", X.shape, "number / shape of the draws")
            elif float(np.abs(X.T - cols).max(initial=0.0)) > 1e-9 * (1 + float(np.abs(cols).max(initial=0.0))):
                s_bad = int(np.argmax(np.abs(X.T - cols).max(axis=1)))
                bad = (f"draw {s_bad} = centre + L xi_{s_bad} = {cols[s_bad].tolist()} (xi_s = stream[{s_bad}*n:{s_bad + 1}*n])", X[:, s_bad].tolist(),
                       "a draw is not centre + L*(its own block of the standard-normal stream)")
            elif used != int(f["pos"]) or any(a != (n,) for a in shapes):
                bad = (f"{f['pos']} numbers of the stream consumed by calls randn({n})", f"{used} consumed, calls {shapes[:8]}", "consumption of the standard-normal stream")
            else:
                want_idx = [] if f["calls"] == "_" else [int(v) for v in f["calls"].split(",")]
                if [i for i, _ in cblog] != want_idx:
                    bad = (f"callback indices {want_idx}", [i for i, _ in cblog], "callback protocol")
                elif any(float(np.abs(a - X[:, i]).max(initial=0.0)) > 0 for i, a in cblog):
                    bad = ("callback receives the sample just drawn", "another array", "callback protocol")
        if bad:
            ctx.disagree(key, desc, bad[0], str(bad[1])[:300], "sampling loop: " + bad[2])
            # the property itself, on the implementation (a raising call is allowed): every returned draw is centre + L xi for
            # a block of n consecutive stream numbers of its own, blocks of different draws disjoint and in order (fresh,
            # independent normals) -- whichever blocks those are (a law-preserving change of the consumption is not a failure)
            if impl[0] == "ok":
                msg = loop_oracle(impl[1], centre, L, stream, used, n)
                if msg:
                    ctx.fail(key, desc, "every draw = x_map + L xi_s with xi_s a fresh block of the standard-normal stream", msg,
                             "direct Gaussian sampling: draws are not x_map + L xi with fresh independent standard normals")
    ctx.extra_cov["sample_loop_histogram"] = hist


def loop_oracle(X, centre, L, stream, used, n):
    """None if every column of X is centre + L*block for disjoint, ordered blocks of `stream[:used]`; else a description"""
    try:
        Xi = np.linalg.solve(L, X - centre[:, None])
    except np.linalg.LinAlgError:
        return "factor is singular"
    o = 0
    for s_ in range(X.shape[1]):
        found = None
        for t in range(o, used - n + 1):
            if float(np.abs(stream[t:t + n] - Xi[:, s_]).max(initial=0.0)) <= 1e-7 * (1 + float(np.abs(Xi[:, s_]).max(initial=0.0))):
                found = t
                break
        if found is None:
            return f"draw {s_}: L^-1 (x - x_map) = {Xi[:, s_].tolist()} is not a fresh block of the consumed stream {stream[:used].tolist()} (after position {o})"
        o = found + n
    return None


# ----------------------------------------------------------------------------------------------- MAP / ML decision table (Model/C15_route.lean)
def _probe(fn):
    try:
        with quiet():
            fn()
        return "ok"
    except NotImplementedError:
        return "notimpl"
    except AttributeError:
        return "attr"
    except Exception:
        return "other"


def run_calls(ctx, cuqi, rs, thorough):
    """MAP/ML(disp, x0) on generated problem classes with recording solver classes: route, solver class, gradfunc or None,
    start point, printed lines, info label, geometry of the result, propagation of probe exceptions vs `estimateCall`.
    The two gradient probes (at the start point, at zeros) are measured on the implementation (leaf inputs)."""
    import io, contextlib
    import harness.props.c15 as base
    import cuqi.solver as solver_mod
    nprob = 160 if thorough else 24
    saved_solvers = (solver_mod.minimize, solver_mod.L_BFGS_B)
    saved_max = cuqi.config.MAX_DIM_INV
    jobs, lines = [], []
    hist = {}
    try:
        for k in range(nprob):
            pk = base.PRIORS[k % len(base.PRIORS)]
            mk = "linear" if (k // len(base.PRIORS)) % 3 != 2 else "nonlinear"
            n = int(rs.randint(2, 5)); m = int(rs.randint(2, 6))
            maxdim = [2000, 2000, 3, 2][rs.randint(0, 4)]
            try:
                with quiet():
                    BP, pkind, A, sig2, b = base.make_problem(cuqi, pk, mk, m, n, rs, noise=("scalar" if k % 2 else "full"))
            except Exception as e:
                ctx.note(f"call problem not constructible {pk}/{mk}: {type(e).__name__}")
                continue
            mm = BP.model.range_dim
            for which in ("MAP", "ML"):
                for disp in (False, True):
                    for userx0 in (False, True):
                        if pk in ("lognormal", "beta"):
                            ux = rs.uniform(0.2, 0.8, size=n)
                        else:
                            ux = rs.randint(-2, 3, size=n) / 2.0
                        start = ux if userx0 else np.ones(n)
                        dens = BP.posterior if which == "MAP" else BP.likelihood
                        p_start = _probe(lambda: dens.gradient(start.copy()))
                        p_zero = _probe(lambda: BP.posterior.gradient(np.zeros(BP.posterior.dim)))
                        base._Recorder.log = []
                        solver_mod.minimize = base._Recorder("minimize"); solver_mod.L_BFGS_B = base._Recorder("lbfgsb")
                        cuqi.config.MAX_DIM_INV = maxdim
                        buf = io.StringIO()
                        try:
                            with contextlib.redirect_stdout(buf):
                                import warnings
                                with warnings.catch_warnings():
                                    warnings.simplefilter("ignore")
                                    out = getattr(BP, which)(disp=disp, x0=(ux.copy() if userx0 else None)) if userx0 or disp is False else getattr(BP, which)(disp)
                            impl = ("ok", out)
                        except Exception as e:
                            impl = ("err", type(e).__name__)
                        finally:
                            solver_mod.minimize, solver_mod.L_BFGS_B = saved_solvers
                            cuqi.config.MAX_DIM_INV = saved_max
                        rec = base._Recorder.log[0] if base._Recorder.log else None
                        printed = [ln.strip() for ln in buf.getvalue().splitlines() if ln.strip()]
                        jobs.append((pk, mk, m, n, maxdim, which, disp, userx0, ux, p_start, p_zero, impl, rec, printed, BP, A, sig2, b))
                        lines.append(f"call {which} {int(disp)} {int(userx0)} {p_start} {p_zero} {pkind} gaussian {mk} {n} {mm} {maxdim}")
    finally:
        solver_mod.minimize, solver_mod.L_BFGS_B = saved_solvers
        cuqi.config.MAX_DIM_INV = saved_max
    outs = ctx.lean.drive(lines) if lines else []
    for (pk, mk, m, n, maxdim, which, disp, userx0, ux, p_start, p_zero, impl, rec, printed, BP, A, sig2, b), out, line in zip(jobs, outs, lines):
        desc = {"prior": pk, "model": mk, "m": m, "n": n, "MAX_DIM_INV": maxdim, "which": which, "disp": disp, "x0_arg": ux.tolist() if userx0 else None,
                "probe_at_start": p_start, "probe_at_zeros": p_zero, "driver_line": line}
        key = f"call:{which}:{pk}:{mk}:{'small' if maxdim < 10 else 'default'}-maxdim:{'x0' if userx0 else 'nox0'}:{'disp' if disp else 'quiet'}"
        ctx.case("call-" + which, desc)
        lab = out.split(" ")[0]
        hist[f"{lab}|start:{p_start}|zeros:{p_zero}"] = hist.get(f"{lab}|start:{p_start}|zeros:{p_zero}", 0) + 1
        bad = None
        if out == "raise":
            if impl[0] != "err":
                bad = ("an exception of a gradient probe propagates", "returns", "probe exception swallowed")
        elif out == "bad-op":
            bad = ("driver accepts the line", out, "driver")
        else:
            f = dict(t.split("=", 1) for t in out.split(" lines=")[0].split(" "))
            mlines = [x.strip() for x in out.split(" lines=", 1)[1].split("|") if x.strip()] if " lines=" in out else []
            got_route = "direct" if rec is None else rec["solver"]
            if impl[0] == "err":
                if f["route"] != "direct" or rec is not None:
                    bad = (out[:120], "raises " + impl[1], "MAP/ML raises where the decision table returns")
                # closed form raising (e.g. a Gaussian without stored covariance) is part 1's subject
            elif got_route != f["route"]:
                bad = ("route " + f["route"], got_route, "route / solver class")
            else:
                o = impl[1]
                if rec is not None:
                    if (rec["gradfunc"] is not None) != (f["grad"] == "1"):
                        bad = ("gradfunc given: " + f["grad"], rec["gradfunc"] is not None, "gradient function handed to the solver")
                    elif not np.array_equal(rec["x0"], ux if f["start"] == "user" else np.ones(n)):
                        bad = ("start = " + f["start"], rec["x0"].tolist(), "start point handed to the solver")
                if bad is None and getattr(o, "info", {}).get("solver") != f["label"]:
                    bad = ("info['solver'] = " + f["label"], getattr(o, "info", {}).get("solver"), "info label")
                if bad is None:
                    want_g = BP.posterior.geometry if f["geom"] == "posterior" else BP.likelihood.geometry
                    if not (getattr(o, "geometry", None) == want_g):
                        bad = ("geometry of the " + f["geom"], repr(getattr(o, "geometry", None))[:80], "geometry of the returned array")
                if bad is None and printed != mlines:
                    bad = (mlines, printed, "printed lines (disp)")
        if bad:
            ctx.disagree(key, desc, str(bad[0])[:300], str(bad[1])[:300], "MAP/ML decision table: " + bad[2])
            # failing-input search: the real call (real solvers) on this very problem, judged by the maximiser oracle
            cuqi.config.MAX_DIM_INV = maxdim
            try:
                with quiet():
                    xr = getattr(BP, which)(disp=False, x0=(ux.copy() if userx0 else None))
                xr = np.asarray(xr, dtype=float).ravel()
                dens = BP.posterior if which == "MAP" else BP.likelihood
                base.oracle_point(ctx, key, {**desc, "returned": xr.tolist()}, dens, xr, base.float_ref(BP, which, A, sig2, b, pk), rs,
                                  tol_point=2e-3, tol_logd=1e-7, grad_tol=1e-5, what=which)
            except Exception as e:
                ctx.note(f"{which} raises {type(e).__name__} on the disagreeing call problem")
            finally:
                cuqi.config.MAX_DIM_INV = saved_max
    ctx.extra_cov["call_table_histogram"] = hist


# ----------------------------------------------------------------------------------------------- huge objectives on the optimisation route
def run_opt_huge(ctx, cuqi, rs, thorough):
    """optimisation route with a HUGE objective at the start point (|logd(x0)| ~ 1e8 .. 1e12: noise std 1e-4 / 1e-5, O(1) data
    misfit) and directions of very different sensitivity (one column of A scaled by 1e-2 / 1e-3, well-conditioned otherwise,
    full column rank): ML (default start, zeros start) and `_solve_max_point(posterior)` with a weak Gaussian prior vs the
    exact rational (generalised) least-squares / posterior-mean reference -- the point itself, relative to |x|."""
    import harness.props.c15 as base
    from cuqi.distribution import Gaussian
    from cuqi.model import LinearModel
    from cuqi.problem import BayesianProblem
    nprob = 60 if thorough else 12
    probs, lines = [], []
    for k in range(nprob):
        n = int(rs.randint(2, 4)); m = n + int(rs.randint(0, 3))
        for _ in range(50):
            B = rs.randint(-2, 3, size=(m, n)).astype(float)
            for i in range(n):
                B[i, i] += 3.0
            if np.linalg.cond(B) < 20:
                break
        else:
            continue
        ratio = [1e-3, 1e-2, 2.0 ** -9][k % 3]
        colsc = np.ones(n); colsc[rs.randint(0, n)] = ratio
        A = B * colsc[None, :]
        s = [1e-4, 1e-5, 2.0 ** -13][k % 3]
        xt = rs.randint(-4, 6, size=n).astype(float)
        b = A @ xt + (0.0 if k % 2 else 1.0) * s * rs.randint(-2, 3, size=m)
        w = base.F(1.0) / (base.F(s) * base.F(s))
        We = [[w if i == j else Fraction(0) for j in range(m)] for i in range(m)]
        Wx0 = [[Fraction(0)] * n for _ in range(n)]
        Wx1 = [[Fraction(1, 10 ** 6) if i == j else Fraction(0) for j in range(n)] for i in range(n)]
        probs.append((A, s, b, n, m, ratio))
        lines.append(f"ref {qm(A)} {base.sm(We)} {base.sm(Wx0)} {qv(np.zeros(n))} {qv(b)}")
        lines.append(f"ref {qm(A)} {base.sm(We)} {base.sm(Wx1)} {qv(np.zeros(n))} {qv(b)}")
    outs = ctx.lean.drive(lines) if lines else []
    hist = {"f0_log10": {}, "ok": 0}
    for i, (A, s, b, n, m, ratio) in enumerate(probs):
        o_ml, o_map = outs[2 * i], outs[2 * i + 1]
        if not (o_ml.startswith("mean=") and o_map.startswith("mean=")):
            ctx.note("opt-huge: no exact reference"); continue
        ref_ml = np.array([float(v) for v in pv(o_ml.split(" ")[0][5:])])
        ref_map = np.array([float(v) for v in pv(o_map.split(" ")[0][5:])])
        with quiet():
            x = Gaussian(np.zeros(n), 1e6); y = Gaussian(LinearModel(A)(x), s ** 2)
            BP = BayesianProblem(y, x).set_data(y=b)
            f0 = abs(float(np.asarray(BP.likelihood.logd(np.ones(n))).ravel()[0]))
        hb = str(int(np.floor(np.log10(max(f0, 1.0)))))
        hist["f0_log10"][hb] = hist["f0_log10"].get(hb, 0) + 1
        desc = {"A": A.tolist(), "noise_std": s, "b": b.tolist(), "prior_cov": 1e6, "column_scale": ratio, "abs_logd_at_ones": f0}
        jobs = [("ML", "ML:opt-huge:ones", lambda: BP.ML(disp=False), BP.likelihood, ref_ml),
                ("ML-x0", "ML:opt-huge:zeros", lambda: BP.ML(disp=False, x0=np.zeros(n)), BP.likelihood, ref_ml),
                ("MAP-forced", "MAP:opt-huge:solve_max_point", lambda: cuqi.array.CUQIarray(BP._solve_max_point(BP.posterior, disp=False)[0], geometry=BP.posterior.geometry), BP.posterior, ref_map)]
        for nm, key, call, dens, ref in jobs:
            ctx.case("opt-huge-" + nm, {**desc, "call": nm})
            try:
                with quiet():
                    xv = np.asarray(call(), dtype=float).ravel()
            except Exception as e:
                ctx.note(f"{key} raises {type(e).__name__}"); continue
            hist["ok"] += 1
            base.oracle_point(ctx, key, {**desc, "returned": xv.tolist()}, dens, xv, ref, rs, tol_point=2e-3, tol_logd=1e-7, grad_tol=1e-5, what=nm)
    ctx.extra_cov["opt_huge_histogram"] = hist
