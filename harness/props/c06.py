"""C06 — linear RTO draws are exact Gaussian posterior draws; UGLA's local draw (correspondence + oracle).

For every generated configuration the normal draw of one sampler step is replaced by 0, e_1, …, e_N
(one step each, each from a fresh random current state, inner solver run to convergence), which
reads off the affine map  e ↦ m_impl + B_impl e  the implementation realises.  The Lean model
(Driver/C06.lean) is given the same inputs (the implementation's square-root precisions as leaf
data) and returns its exact offset m, linear part B, (MᵀM)⁻¹, and the posterior moments computed
from the precisions (as the code takes the parameters, and as documented).

  correspondence : (m_impl, B_impl) vs (m, B) of the model; refusals; adjoint flag
  leaf certificate: model moments from the leaf factors vs from the code's precisions
  oracle         : m_impl = documented posterior mean,  B_impl B_implᵀ = documented posterior covariance,
                   independence of the current state
"""
import math
import numpy as np
from fractions import Fraction
from harness.core import import_cuqi, quiet, q, qv, qm, pv, pm

TOL = 2e-8       # implementation (float CGLS, tol 1e-13) vs exact model value
TOL_LEAF = 1e-9  # exact model from float leaf factors vs exact model from precisions
TOL_IMPROPER = 1e-6  # periodic/neumann GMRF priors: the code adds sqrt(eps)·I before factorising


# ----------------------------------------------------------------------------- helpers
def maxit_for(n):
    """'inner solver run to convergence': in exact arithmetic CGLS terminates within n passes; in floats up to about twice as
    many are needed for condition numbers up to 1e5 (n+3 passes left errors of 1e-6 at n = 8 in the thorough tier).  The code's CGLS must NOT be iterated far beyond that: when the relative tolerance cannot be met (start close to
    the solution) the over-iterated recurrence occasionally blows up (measured: 5 % of near starts with maxit = 8n+40, none of
    the far starts) — outside the property, which is conditional on convergence.  Large dimensions: the tolerance is met from
    the far starts used here, which ends the loop."""
    return 2 * n + 6 if n <= 20 else 8 * n + 40


def dense(M):
    return np.asarray(M.todense()) if hasattr(M, "todense") else np.asarray(M)


def fl(rows):
    return np.array([[float(v) for v in r] for r in rows], dtype=float)


RATIOS = {}       # named comparison -> largest (deviation / tolerance) among passing comparisons (evidence: worst_ratio_to_tolerance)


def ratio(name, val, tol):
    if val <= tol:
        RATIOS[name] = max(RATIOS.get(name, 0.0), float(val) / tol)
    return val


DEV = {}          # call site -> [largest deviation below 1e-4 (a passing comparison), number of deviations >= 1e-4]


def _rec(val):
    """margin book-keeping: every float comparison's deviation is recorded per call site (evidence: deviation_max_by_site)"""
    import sys
    f = sys._getframe(2)
    while f is not None and f.f_code.co_name in ("relerr", "_relerr", "<lambda>", "colrel", "rel"):
        f = f.f_back
    site = f"{f.f_code.co_filename.rsplit('/', 1)[-1]}:{f.f_code.co_name}:{f.f_lineno}" if f is not None else "?"
    ent = DEV.setdefault(site, [0.0, 0])
    if val < 1e-4:
        ent[0] = max(ent[0], float(val))
    else:
        ent[1] += 1
    return val


def relerr(a, b, rel=False):
    return _relerr(a, b, rel)


def _relerr(a, b, rel=False):
    return _rec(_relerr0(a, b, rel))


def _relerr0(a, b, rel=False):
    """rel=False: max|a-b| / (1 + max(|a|,|b|))  (O(1)-scaled problems);
       rel=True : purely relative, max|a-b| / max(|a|,|b|) in the max norm; for matrices whose columns have very
                  different magnitudes use colrel"""
    a = np.asarray(a, dtype=float); b = np.asarray(b, dtype=float)
    if a.shape != b.shape:
        return float("inf")
    if not (np.all(np.isfinite(a)) and np.all(np.isfinite(b))):
        return float("inf")
    if not a.size:
        return 0.0
    top = max(np.max(np.abs(a)), np.max(np.abs(b)))
    if rel:
        return float(np.max(np.abs(a - b)) / top) if top > 0 else 0.0
    return float(np.max(np.abs(a - b)) / (1.0 + top))


def colrel(A_, B_):
    """largest column-wise relative error"""
    A_ = np.asarray(A_, dtype=float); B_ = np.asarray(B_, dtype=float)
    if A_.shape != B_.shape:
        return float("inf")
    if not (np.all(np.isfinite(A_)) and np.all(np.isfinite(B_))):
        return float("inf")
    top = max(np.max(np.abs(A_)), np.max(np.abs(B_))) if A_.size else 0.0
    worst = 0.0
    for j in range(A_.shape[1]):
        den = max(np.max(np.abs(A_[:, j])), np.max(np.abs(B_[:, j])), 1e-9 * top)   # (exactly zero columns: zero rows of a factor)
        if den > 0:
            worst = max(worst, float(np.max(np.abs(A_[:, j] - B_[:, j])) / den))
    return _rec(worst)


class ScriptedRandn:
    """replaces numpy.random.randn: one scripted draw per call (a single vector or a sequence of vectors)"""
    def __init__(self, e):
        self.seq = [np.asarray(v, dtype=float) for v in e] if isinstance(e, list) else [np.asarray(e, dtype=float)]
        self.calls = 0
    def __call__(self, *shape):
        if self.calls >= len(self.seq):
            raise AssertionError("more normal draws taken than scripted")
        e = self.seq[self.calls]
        self.calls += 1
        if tuple(shape) != (len(e),):
            raise AssertionError(f"unexpected randn shape {shape}")
        return e.copy()


class ScriptedRng:
    """rng object handed to legacy UGLA (Normal.sample(rng=…) calls rng.normal(mean, std, (N, dim)))"""
    def __init__(self, e):
        self.seq = [np.asarray(v, dtype=float) for v in e] if isinstance(e, list) else [np.asarray(e, dtype=float)]
        self.calls = 0
    def normal(self, mean, std, size):
        if self.calls >= len(self.seq):
            raise AssertionError("more normal draws taken than scripted")
        e = self.seq[self.calls]
        self.calls += 1
        return (np.asarray(mean) + np.asarray(std) * e).reshape(size)


class patched_randn:
    def __init__(self, e):
        self.s = ScriptedRandn(e)
    def __enter__(self):
        self.old = np.random.randn
        np.random.randn = self.s
        return self.s
    def __exit__(self, *a):
        np.random.randn = self.old


# ----------------------------------------------------------------------------- Gaussian specifications
SQ = [0.25, 1.0, 4.0, 0.0625, 2.25, 16.0]      # squares of dyadics: exact roots
GEN = [0.5, 2.0, 3.0, 0.75, 1.5, 5.0]          # generic positive values


def rand_tri(r, dim):
    R = np.triu(r.randint(-2, 3, size=(dim, dim))).astype(float)
    for i in range(dim):
        R[i, i] = float(r.choice([0.5, 1.0, 2.0, 1.5]))
    return R


def rand_nonsing(r, dim):
    for _ in range(50):
        S = r.randint(-2, 3, size=(dim, dim)).astype(float) + np.diag(r.choice([2.0, 3.0, -3.0], size=dim))
        if abs(np.linalg.det(S)) > 0.5 and np.linalg.cond(S) < 200:
            return S
    return np.eye(dim) * 2.0


def gen_spec(r, dim, allow_nonsym_sqrtcov=False, force=None):
    """returns dict(kind, shape, value (numpy/float), tag, doc_prec (float matrix))"""
    kind = force[0] if force else ["cov", "prec", "sqrtcov", "sqrtprec"][r.randint(4)]
    shape = force[1] if force else ["scalar", "vector", "diag", "full"][r.randint(4)]
    pool = SQ if r.rand() < 0.6 else GEN
    tag = f"{kind}-{shape}"
    if shape == "scalar":
        val = float(r.choice(pool))
        D = np.eye(dim) * (val if kind in ("cov", "prec") else val * val)
    elif shape in ("vector", "diag"):
        v = r.choice(pool, size=dim).astype(float)
        val = v if shape == "vector" else np.diag(v)
        D = np.diag(v if kind in ("cov", "prec") else v * v)
    else:
        if kind in ("cov", "prec"):
            R = rand_tri(r, dim)
            val = R.T @ R
            D = val
        elif kind == "sqrtprec":
            sub = r.randint(3)
            val = rand_tri(r, dim) if sub == 0 else (rand_tri(r, dim).T if sub == 1 else rand_nonsing(r, dim))
            if np.count_nonzero(val - np.diag(np.diag(val))) == 0:
                val[0, dim - 1] = 1.0
            tag += ["-upper", "-lower", "-general"][sub]
            D = val.T @ val
        else:  # sqrtcov full
            if allow_nonsym_sqrtcov:
                val = rand_tri(r, dim)
                if np.count_nonzero(val - np.diag(np.diag(val))) == 0:
                    val[0, dim - 1] = 1.0
                tag += "-nonsym"
            else:
                S = rand_tri(r, dim)
                val = S + S.T + np.eye(dim) * 6.0      # symmetric: S Sᵀ = Sᵀ S
                tag += "-sym"
            D = val.T @ val                             # documented: Rᵀ R = cov
    if dim == 1 and shape in ("diag", "full"):
        # a 1x1 matrix is read as a scalar by the setters
        pass
    doc_prec = np.linalg.inv(D) if kind in ("cov", "sqrtcov") else D
    return {"kind": kind, "shape": shape, "value": val, "tag": tag, "doc_prec": doc_prec}


def spec_token(sp):
    v = sp["value"]
    if sp["shape"] == "scalar":
        return f"{sp['kind']} s:{q(v)}"
    if sp["shape"] == "vector":
        return f"{sp['kind']} v:{qv(v)}"
    return f"{sp['kind']} m:{qm(v)}"


def spec_kwargs(sp):
    return {sp["kind"]: obj_value(sp)}


# ----------------------------------------------------------------------------- configurations
def gen_config(r, thorough, special=None):
    n = int(r.randint(2, 7 if not thorough else 9))
    k = int(r.choice([1, 1, 2, 3]))
    iface = ["exp", "legacy"][r.randint(2)]
    backing = "matrix" if r.rand() < 0.7 else "function"
    cfg = {"n": n, "iface": iface, "backing": backing, "liks": [], "special": special}
    nonsym_at = None
    if special == "sqrtcov-nonsym":
        nonsym_at = "lik" if r.rand() < 0.5 else "prior"
        k = 1
    for i in range(k):
        m = int(r.randint(1, 7 if not thorough else 9))
        A = r.randint(-2, 3, size=(m, n)).astype(float)
        if not A.any():
            A[0, 0] = 1.0
        d = (r.randint(-6, 7, size=m) / 2.0).astype(float)
        if nonsym_at == "lik" and m >= 2:
            sp = gen_spec(r, m, allow_nonsym_sqrtcov=True, force=("sqrtcov", "full"))
        elif special == "sqrtcov-nonsym":
            sp = gen_spec(r, m, force=("cov", "scalar"))
        else:
            sp = gen_spec(r, m)
        cfg["liks"].append({"m": m, "A": A, "d": d, "spec": sp})
    # prior
    pk = r.rand()
    if special == "sqrtcov-nonsym":
        if nonsym_at == "prior" or cfg["liks"][0]["m"] < 2:
            sp = gen_spec(r, n, allow_nonsym_sqrtcov=True, force=("sqrtcov", "full"))
        else:
            sp = gen_spec(r, n, force=("prec", "scalar"))
        mean = r.randint(-3, 4, size=n).astype(float)
        cfg["prior"] = {"type": "gauss", "spec": sp, "mean": mean, "tag": sp["tag"]}
    elif pk < 0.62:
        sp = gen_spec(r, n)
        if r.rand() < 0.25:
            mean = np.array([float(r.randint(-3, 4))])     # scalar mean, broadcast
        else:
            mean = r.randint(-3, 4, size=n).astype(float)
        cfg["prior"] = {"type": "gauss", "spec": sp, "mean": mean, "tag": sp["tag"] + ("-mean1" if len(mean) == 1 else "")}
    elif pk < 0.87:
        order = int(r.choice([1, 2]))
        prec = float(r.choice([0.25, 1.0, 4.0, 0.5, 2.0]))
        mean = r.randint(-3, 4, size=n).astype(float)
        bc = "zero"
        if r.rand() < 0.3 and n >= 3:
            # improper (intrinsic) priors: the code regularises the factor by sqrt(eps) (compared to TOL_IMPROPER);
            # the posterior is proper when the first forward matrix has full column rank
            bc = ["periodic", "neumann"][r.randint(2)]; order = 1
            l0 = cfg["liks"][0]
            if l0["m"] < n:
                l0["m"] = n
                l0["A"] = r.randint(-2, 3, size=(n, n)).astype(float)
                l0["d"] = (r.randint(-6, 7, size=n) / 2.0).astype(float)
                l0["spec"] = gen_spec(r, n)
            l0["A"][:n, :n] += np.eye(n) * 4.0
        cfg["prior"] = {"type": "gmrf", "order": order, "bc": bc, "prec": prec, "mean": mean, "tag": f"gmrf-order{order}-{bc}"}
    else:
        nb = int(r.choice([1, 2, 3]))
        blocks = []
        for _ in range(nb):
            rows = int(r.randint(1, n + 2))
            R = r.randint(-2, 3, size=(rows, n)).astype(float)
            blocks.append((rows, R, r.randint(-3, 4, size=n).astype(float)))
        # make the stacked factor of full column rank
        blocks.append((n, np.eye(n) * float(r.choice([0.5, 1.0, 2.0])), r.randint(-3, 4, size=n).astype(float)))
        cfg["prior"] = {"type": "joint", "blocks": blocks, "tag": f"joint{len(blocks)}"}
    # target form
    if k > 1:
        cfg["target"] = "multiple"
    else:
        cfg["target"] = "posterior"
        sp0 = cfg["liks"][0]["spec"]
        if (iface == "legacy" and cfg["prior"]["type"] == "gauss" and sp0["kind"] == "sqrtprec"
                and cfg["prior"]["spec"]["kind"] == "sqrtprec" and r.rand() < 0.8):
            cfg["target"] = "tuple"
    return cfg


def scale_spec(sp, f):
    """the same specification with all standard deviations multiplied by f"""
    k = sp["kind"]
    g = {"cov": f * f, "prec": 1.0 / (f * f), "sqrtcov": f, "sqrtprec": 1.0 / f}[k]
    out = dict(sp)
    out["value"] = sp["value"] * g
    out["doc_prec"] = sp["doc_prec"] / (f * f)
    return out


def scaled_config(r, thorough):
    """a configuration whose noise / prior standard deviations, forward matrices and data are scaled by powers of ten
    (1e-6 … 1e6, independently: also tiny noise with a huge prior and vice versa)"""
    for _ in range(100):
        cfg = gen_config(r, thorough)
        if not improper(cfg):      # (the sqrt(eps) regularisation of improper GMRF factors is an absolute perturbation)
            break
    pw = lambda lo, hi: 10.0 ** int(r.randint(lo, hi + 1)) * float(r.choice([1.0, 2.0, 5.0]))
    mode = r.randint(4)
    if mode == 0:      # everything huge (whitened operator tiny)
        fn, fp = pw(4, 6), pw(4, 6)
    elif mode == 1:    # everything tiny
        fn, fp = pw(-6, -4), pw(-6, -4)
    else:              # independent, mismatched
        fn, fp = pw(-6, 6), pw(-6, 6)
    fa, fd = pw(-3, 3), pw(-3, 3)
    # a well-determined problem in both regimes: first forward matrix of full column rank
    n = cfg["n"]
    l0 = cfg["liks"][0]
    if l0["m"] < n:
        l0["m"] = n
        l0["A"] = r.randint(-2, 3, size=(n, n)).astype(float)
        l0["d"] = (r.randint(-6, 7, size=n) / 2.0).astype(float)
        l0["spec"] = gen_spec(r, n)
    l0["A"][:n, :n] += np.eye(n) * 4.0
    for l in cfg["liks"]:
        l["A"] = l["A"] * fa
        l["d"] = (l["d"] + 1.0) * fd
        l["spec"] = scale_spec(l["spec"], fn)
    P = cfg["prior"]
    fx = fd / fa
    if P["type"] == "gauss":
        P["spec"] = scale_spec(P["spec"], fp)
        P["mean"] = P["mean"] * fx
    elif P["type"] == "gmrf":
        P["prec"] = P["prec"] / (fp * fp)
        P["mean"] = P["mean"] * fx
    else:
        P["blocks"] = [(rows, R / fp, mu * fx) for rows, R, mu in P["blocks"]]
    cfg["special"] = "scaled"
    cfg["scales"] = {"noise_std": fn, "prior_std": fp, "A": fa, "data": fd}
    if cfg["target"] == "tuple":
        cfg["target"] = "posterior"
    return cfg


def tuple_config(r, thorough):
    """legacy 5-tuple form: (data, model, L_sqrtprec, P_mean, P_sqrtprec)"""
    for _ in range(100):
        cfg = gen_config(r, thorough)
        if len(cfg["liks"]) == 1:
            break
    cfg["iface"] = "legacy"
    lk = cfg["liks"][0]
    lk["spec"] = gen_spec(r, lk["m"], force=("sqrtprec", ["scalar", "vector", "diag", "full"][r.randint(4)]))
    sp = gen_spec(r, cfg["n"], force=("sqrtprec", ["scalar", "vector", "diag", "full"][r.randint(4)]))
    # (a scalar mean together with a scalar sqrtprec does not determine the dimension: not a valid 5-tuple)
    scalar_mean = r.rand() < 0.2 and sp["shape"] != "scalar"
    mean = np.array([float(r.randint(-3, 4))]) if scalar_mean else r.randint(-3, 4, size=cfg["n"]).astype(float)
    cfg["prior"] = {"type": "gauss", "spec": sp, "mean": mean, "tag": sp["tag"] + ("-mean1" if len(mean) == 1 else "")}
    cfg["target"] = "tuple"
    cfg["tuple_model"] = "ndarray" if r.rand() < 0.5 else "LinearModel"
    return cfg


def cfg_key(cfg):
    return (("scaled:" if cfg.get("special") == "scaled" else "sparse:" if cfg.get("special") == "sparse" else "")
            + f"{cfg['iface']}:{cfg['target']}:{cfg['backing']}:lik=" + "+".join(l["spec"]["tag"] for l in cfg["liks"])
            + f":prior={cfg['prior']['tag']}")


def cfg_desc(cfg):
    return {"iface": cfg["iface"], "target": cfg["target"], "backing": cfg["backing"], "n": cfg["n"], "scales": cfg.get("scales"),
            "history": cfg.get("history"),
            "liks": [{"m": l["m"], "A": l["A"].tolist(), "d": l["d"].tolist(), "spec": l["spec"]["tag"],
                      "value": np.asarray(l["spec"]["value"]).tolist()} for l in cfg["liks"]],
            "prior": {kk: (np.asarray(v).tolist() if isinstance(v, np.ndarray) else
                           (v["tag"] + ":" + str(np.asarray(v["value"]).tolist()) if isinstance(v, dict) else
                            ([(b[0], b[1].tolist(), b[2].tolist()) for b in v] if kk == "blocks" else v)))
                      for kk, v in cfg["prior"].items()}}


# ----------------------------------------------------------------------------- building the real objects
def build_target(cuqi, cfg):
    """returns (target, liks (distribution objects), prior object)"""
    from cuqi.distribution import Gaussian, GMRF, JointDistribution, JointGaussianSqrtPrec, Posterior
    from cuqi.model import LinearModel
    n = cfg["n"]
    P = cfg["prior"]
    if P["type"] == "gauss":
        x = Gaussian(mean=P["mean"] if len(P["mean"]) > 1 else float(P["mean"][0]), geometry=n, name="x", **spec_kwargs(P["spec"]))
    elif P["type"] == "gmrf":
        x = GMRF(P["mean"], P["prec"], bc_type=P["bc"], order=P["order"], name="x")
    else:
        x = JointGaussianSqrtPrec([b[2].copy() for b in P["blocks"]], [b[1].copy() for b in P["blocks"]], geometry=n, name="x")
    models, ys = [], []
    for i, l in enumerate(cfg["liks"]):
        A = l["A"]
        if cfg["backing"] == "matrix":
            M = LinearModel(A.copy())
        else:
            M = LinearModel(forward=(lambda A: (lambda x: A @ x))(A), adjoint=(lambda A: (lambda y: A.T @ y))(A),
                            range_geometry=l["m"], domain_geometry=n)
        models.append(M)
    if cfg["target"] == "tuple":
        l = cfg["liks"][0]
        model = l["A"].copy() if cfg.get("tuple_model", "ndarray") == "ndarray" else models[0]
        Lval = obj_value(l["spec"]); Pval = obj_value(P["spec"])
        pmean = P["mean"] if len(P["mean"]) > 1 else float(P["mean"][0])
        return (l["d"].copy(), model, Lval, pmean, Pval), None, None
    for i, l in enumerate(cfg["liks"]):
        ys.append(Gaussian(mean=models[i](x), name=f"y{i}", **spec_kwargs(l["spec"])))
    if cfg["prior"]["type"] == "joint":
        # JointGaussianSqrtPrec has no logpdf: assemble the posterior directly
        lik = ys[0].to_likelihood(cfg["liks"][0]["d"])
        if len(ys) == 1:
            return Posterior(lik, x), ys, x
        from cuqi.distribution import MultipleLikelihoodPosterior
        return MultipleLikelihoodPosterior(*([y.to_likelihood(l["d"]) for y, l in zip(ys, cfg["liks"])] + [x])), ys, x
    joint = JointDistribution(x, *ys)
    post = joint(**{f"y{i}": l["d"] for i, l in enumerate(cfg["liks"])})
    return post, ys, x


class StepRunner:
    """one sampler step with a scripted normal draw from a chosen current state"""
    def __init__(self, cuqi, cfg, target, maxit, tol, sampler=None):
        self.cfg = cfg
        self.iface = cfg["iface"]
        self.maxit, self.tol = maxit, tol
        self.target = target
        if sampler is not None:
            self.s = sampler          # a sampler with its own construction / configuration history
        elif self.iface == "exp":
            import cuqi.experimental.mcmc as em
            self.s = em.LinearRTO(target, initial_point=np.zeros(cfg["n"]), maxit=maxit, tol=tol)
            self.s.initialize()
        else:
            import cuqi.sampler as ls
            self.s = ls.LinearRTO(target, x0=np.zeros(cfg["n"]), maxit=maxit, tol=tol)
        self.N = len(self.s.b_tild)

    def step(self, e, x0):
        with patched_randn(e) as sr:
            if self.iface == "exp":
                self.s.current_point = np.array(x0, dtype=float)
                self.s.step()
                out = np.array(self.s.current_point, dtype=float)
            else:
                self.s.x0 = np.array(x0, dtype=float)
                res = self.s.sample(2)
                out = np.array(res.samples[:, 1], dtype=float)
        if sr.calls != 1:
            raise AssertionError(f"normal draw taken {sr.calls} times in one step")
        return out

    def chain(self, draws, x_init):
        """len(draws) CONSECUTIVE steps of the one sampler object (the state moves); returns the states"""
        with patched_randn(list(draws)) as sr:
            if self.iface == "exp":
                self.s.current_point = np.array(x_init, dtype=float)
                out = []
                for _ in draws:
                    self.s.step()
                    out.append(np.array(self.s.current_point, dtype=float))
            else:
                self.s.x0 = np.array(x_init, dtype=float)
                res = self.s.sample(len(draws) + 1)
                out = [np.array(res.samples[:, t + 1], dtype=float) for t in range(len(draws))]
        if sr.calls != len(draws):
            raise AssertionError(f"normal draw taken {sr.calls} times in {len(draws)} steps")
        return out


def read_affine(runner, r, n, sx=1.0, tvec=None, sbig=None):
    """offset and columns of the affine map e -> step(e), each step from a fresh random state.
    sx: magnitude of the random current states of the read-off; tvec: length of the probe along each unit draw (the map is
    affine, so column j = (step(t_j e_j) - step(0)) / t_j; used for badly scaled problems so that every probe moves the
    point visibly); sbig: magnitude of the states of the state-independence / chain steps (default sx)"""
    N = runner.N
    tvec = np.ones(N) if tvec is None else np.asarray(tvec, dtype=float)
    sbig = sx if sbig is None else sbig
    m0 = runner.step(np.zeros(N), r.randn(n) * 3.0 * sx)
    B = np.zeros((n, N))
    for j in range(N):
        e = np.zeros(N); e[j] = tvec[j]
        B[:, j] = (runner.step(e, r.randn(n) * 3.0 * sx) - m0) / tvec[j]
    # state independence / affinity on a generic draw
    e = r.randint(-2, 3, size=N).astype(float) * tvec
    xa = runner.step(e, r.randn(n) * 5.0 * sbig)
    xb = runner.step(e, np.zeros(n))
    # three consecutive steps of the same object
    runner.chain_draws = [r.randint(-2, 3, size=N).astype(float) * tvec for _ in range(3)]
    runner.chain_states = runner.chain(runner.chain_draws, r.randn(n) * 3.0 * sbig)
    return m0, B, e, xa, xb


def probe_lengths(cfg, runner, gmrfP):
    """state scale and probe lengths for a badly scaled configuration, from the float evaluation of the documented moments
    and the factors the sampler holds"""
    mdoc, Cdoc = doc_moments(cfg, gmrfP)
    L1, L2, _ = leaf_factors(runner)
    Mf = np.vstack([L @ l["A"] for L, l in zip(L1, cfg["liks"])] + [L2])
    Best = Cdoc @ Mf.T
    sm = float(np.max(np.abs(mdoc)))
    sbig = sm + math.sqrt(float(np.max(np.diag(Cdoc))))       # the scale of the posterior
    if sm == 0.0:
        sm = sbig
    col = np.max(np.abs(Best), axis=0)
    tvec = np.where(col > 0, sm / np.where(col > 0, col, 1.0), 1.0)
    return sm, sbig, tvec


def leaf_factors(runner):
    """the square-root precisions the sampler was handed (dense floats)"""
    s = runner.s
    L1 = [dense(l.distribution.sqrtprec) for l in s.likelihoods]
    return L1, dense(s.prior.sqrtprec), np.asarray(s.prior.sqrtprecTimesMean, dtype=float).ravel()


def problem_tokens(cfg, L1, L2, gmrfP=None):
    n = cfg["n"]
    toks = [str(n), str(len(cfg["liks"]))]
    for l, L in zip(cfg["liks"], L1):
        toks += [str(l["m"]), qm(l["A"]), qv(l["d"]), qm(L), spec_token(l["spec"])]
    P = cfg["prior"]
    if P["type"] == "gauss":
        toks += ["gauss", qm(L2), str(len(P["mean"])), qv(P["mean"]), spec_token(P["spec"])]
    elif P["type"] == "gmrf":
        # the model computes prec·DᵀD itself from C20's transcription of the finite-difference operators (no leaf precision)
        toks += ["gmrfop", qm(L2), qv(P["mean"]), str(int(P["order"])), P["bc"], q(float(P["prec"]))]
    else:
        toks += ["joint", str(len(P["blocks"]))]
        for rows, R, mu in P["blocks"]:
            toks += [str(rows), qm(R), qv(mu)]
    return " ".join(toks)


def doc_moments(cfg, gmrfP=None):
    """independent float evaluation of the documented posterior moments (harness-side oracle)"""
    n = cfg["n"]
    H = np.zeros((n, n)); g = np.zeros(n)
    for l in cfg["liks"]:
        Lam = l["spec"]["doc_prec"]
        H += l["A"].T @ Lam @ l["A"]; g += l["A"].T @ Lam @ l["d"]
    P = cfg["prior"]
    if P["type"] == "gauss":
        mu = P["mean"] if len(P["mean"]) > 1 else np.repeat(P["mean"], n)
        H += P["spec"]["doc_prec"]; g += P["spec"]["doc_prec"] @ mu
    elif P["type"] == "gmrf":
        H += gmrfP; g += gmrfP @ P["mean"]
    else:
        for rows, R, mu in P["blocks"]:
            H += R.T @ R; g += R.T @ R @ mu
    C = np.linalg.inv(H)
    return C @ g, C


def gmrf_precision(cuqi, P, n):
    from cuqi.operator import FirstOrderFiniteDifference, SecondOrderFiniteDifference
    with quiet():
        D = dense((FirstOrderFiniteDifference(n, P["bc"]) if P["order"] == 1 else SecondOrderFiniteDifference(n, P["bc"])).get_matrix())
    return P["prec"] * (D.T @ D)


# ----------------------------------------------------------------------------- the run
def run(ctx):
    DEV.clear(); RATIOS.clear()
    cuqi = import_cuqi()
    thorough = ctx.tier == "thorough"
    r = np.random.RandomState(ctx.seed + 606)
    ctx.trusted += ["numpy.linalg.inv (harness-side float evaluation of the documented moments, cross-checked against the model's exact ones)",
                    "monkeypatched numpy.random.randn / scripted rng (the normal draw is an input)"]
    ctx.assumptions += [f"GMRF priors with periodic/neumann boundary (improper; factor regularised by sqrt(eps) in the code) are compared to {TOL_IMPROPER}",
                        f"inner solver run to convergence: maxit = 2n+6 (8n+40 for n > 20), tol = 1e-13; implementation vs exact model compared to {TOL} (relative to 1+max|.|)",
                        "square-root precisions enter the model as leaf data (exact rationals of the implementation's floats); "
                        f"their defining relation is checked through the moments to {TOL_LEAF}"]
    n_rto = 150 if not thorough else 150 * ctx.scale * 2
    n_tuple = 30 if not thorough else 30 * ctx.scale * 2
    n_nonsym = 8 if not thorough else 60
    n_scaled = 40 if not thorough else 40 * ctx.scale * 2
    def well_posed(gen):
        """regenerate until the documented posterior precision is comfortably invertible (the property
        presupposes a proper posterior; float comparisons need a moderate condition number)"""
        for _ in range(200):
            cfg = gen()
            try:
                gP = gmrf_precision(cuqi, cfg["prior"], cfg["n"]) if cfg["prior"]["type"] == "gmrf" else None
                H = np.linalg.inv(doc_moments(cfg, gP)[1])
                if np.all(np.isfinite(H)) and np.linalg.cond(H) < 1e5:
                    return cfg
            except np.linalg.LinAlgError:
                pass
        raise RuntimeError("generator could not produce a well-posed configuration")
    cfgs = [well_posed(lambda: gen_config(r, thorough)) for _ in range(n_rto)] \
        + [well_posed(lambda: tuple_config(r, thorough)) for _ in range(n_tuple)] \
        + [well_posed(lambda: gen_config(r, thorough, special="sqrtcov-nonsym")) for _ in range(n_nonsym)] \
        + [well_posed(lambda: scaled_config(r, thorough)) for _ in range(n_scaled)]
    # first use of Gaussians stored as scipy.sparse matrices (own random stream: the configurations above are unchanged)
    r_sp = np.random.RandomState(ctx.seed + 6062)
    n_sparse = 24 if not thorough else 56 * 4
    cfgs += [well_posed(lambda t=t: sparse_config(r_sp, thorough, t, ctx.seed)) for t in range(n_sparse)]

    records = []
    forms = {}
    for cfg in cfgs:
        key = cfg_key(cfg); desc = cfg_desc(cfg)
        n = cfg["n"]
        gmrfP = gmrf_precision(cuqi, cfg["prior"], n) if cfg["prior"]["type"] == "gmrf" else None
        rec = {"cfg": cfg, "key": key, "desc": desc, "gmrfP": gmrfP}
        try:
            with quiet():
                target, _, _ = build_target(cuqi, cfg)
                runner = StepRunner(cuqi, cfg, target, maxit=maxit_for(n), tol=1e-13)
                if cfg.get("special") == "scaled":
                    rec["rel"] = True
                    sm, sbig, tvec = probe_lengths(cfg, runner, gmrfP)
                    rec["floor"] = sbig
                    rec["probe"] = (sm, tvec)
                    rec["impl"] = read_affine(runner, r, n, sx=sm, tvec=tvec, sbig=sbig)
                else:
                    rec["impl"] = read_affine(runner, r, n)
                rec["leaf"] = leaf_factors(runner)
                rec["chain"] = (runner.chain_draws, runner.chain_states)
                rec["M_callable"] = callable(runner.s.M)
        except Exception as ex:  # refusal or crash of the implementation
            rec["impl_err"] = f"{type(ex).__name__}: {str(ex)[:160]}"
        records.append(rec)
        for l in cfg["liks"]:
            forms["lik:" + l["spec"]["tag"]] = forms.get("lik:" + l["spec"]["tag"], 0) + 1
        forms["prior:" + cfg["prior"]["tag"]] = forms.get("prior:" + cfg["prior"]["tag"], 0) + 1
        forms[f"iface:{cfg['iface']}"] = forms.get(f"iface:{cfg['iface']}", 0) + 1
        forms[f"target:{cfg['target']}"] = forms.get(f"target:{cfg['target']}", 0) + 1
        forms[f"backing:{cfg['backing']}"] = forms.get(f"backing:{cfg['backing']}", 0) + 1
        forms[f"k:{len(cfg['liks'])}"] = forms.get(f"k:{len(cfg['liks'])}", 0) + 1
    ctx.extra_cov["rto_input_forms"] = forms

    records += history_records(ctx, cuqi, r, thorough)
    records += settings_records(ctx, cuqi, r, thorough)

    lines, idx = [], []
    for i, rec in enumerate(records):
        if "impl_err" in rec:
            continue
        L1, L2, _ = rec["leaf"]
        lines.append("rto " + problem_tokens(rec["cfg"], L1, L2, rec["gmrfP"])); idx.append(i)
    outs = ctx.lean.drive(lines)
    for i, o in zip(idx, outs):
        records[i]["model"] = o

    for rec in records:
        cfg, key, desc = rec["cfg"], rec["key"], rec["desc"]
        kind = ("rto-scaled-" if cfg.get("special") == "scaled" else "rto-sparse-" if cfg.get("special") == "sparse" else ("rto-settings-" if "sampler" in cfg["history"] else "rto-history-") if cfg.get("history") else "rto-") + f"{cfg['iface']}-{cfg['target']}"
        ctx.case(kind, desc)
        if "impl_err" in rec:
            # every generated configuration is a valid linear-Gaussian problem: a refusal is reported, not a wrong draw
            ctx.note(f"implementation refused {key}: {rec['impl_err']}")
            ctx.disagree(key + ":refusal", desc, "accepted", rec["impl_err"], "implementation refuses a valid linear-Gaussian target")
            ctx.fail(key + ":refusal", desc, "one exact posterior draw", rec["impl_err"], "sampler cannot be built / stepped on a valid target")
            continue
        check_rto(ctx, rec)

    run_steps(ctx, cuqi, records, r, thorough)
    run_large(ctx, cuqi, r, thorough)
    run_inputs(ctx, cuqi, r, thorough)
    run_ugla_settings(ctx, cuqi, r, thorough)
    run_ugla(ctx, cuqi, r, thorough)
    run_validation(ctx, cuqi, r)
    # session-3 extensions (own random streams, so the cases above are unchanged)
    from harness.props.c06_factor import run_factor
    run_factor(ctx, cuqi, np.random.RandomState(ctx.seed + 6061), thorough)
    from harness.props.c06_loop import run_loop
    run_loop(ctx, cuqi, np.random.RandomState(ctx.seed + 6063), thorough)
    from harness.props.c06_gmrf import run_gmrf
    run_gmrf(ctx, cuqi, np.random.RandomState(ctx.seed + 6065), thorough)
    from harness.props.c06_uglaw import run_uglaw
    run_uglaw(ctx, cuqi, np.random.RandomState(ctx.seed + 6064), thorough)
    ctx.extra_cov["deviation_max_by_site"] = {k: v for k, v in sorted(DEV.items())}
    ctx.extra_cov["worst_ratio_to_tolerance"] = dict(sorted(RATIOS.items()))


def check_rto(ctx, rec):
    cfg, key, desc, o = rec["cfg"], rec["key"], rec["desc"], rec["model"]
    n = cfg["n"]
    m_impl, B_impl, e, xa, xb = rec["impl"]
    toks = o.split(" ")
    if toks[0] != "ok":
        ctx.disagree(key + ":refusal", desc, o[:80], "accepted", "model refuses / finds the stacked operator rank deficient")
        oracle_rto(ctx, rec, key, desc, None)
        return
    adj_ok = toks[1] == "1"
    m = np.array([float(v) for v in pv(toks[2])]); B = fl(pm(toks[3])); C = fl(pm(toks[4]))
    mcode = None if toks[5] == "singular" else np.array([float(v) for v in pv(toks[5])])
    Ccode = None if toks[6] == "singular" else fl(pm(toks[6]))
    mdoc = None if toks[7] == "singular" else np.array([float(v) for v in pv(toks[7])])
    Cdoc = None if toks[8] == "singular" else fl(pm(toks[8]))
    model = {"m": m, "B": B, "C": C, "mcode": mcode, "Ccode": Ccode, "mdoc": mdoc, "Cdoc": Cdoc}
    bad = False
    rel = bool(rec.get("rel"))
    E = lambda a, b: relerr(a, b, rel=rel)
    if rel:
        # error of every column measured on the displacement its probe produced (t_j·column_j has the magnitude of the mean)
        sm_, tv_ = rec["probe"]
        EB = lambda a, b: (float(np.max(np.max(np.abs(np.asarray(a) - np.asarray(b)), axis=0) * tv_) / sm_)
                           if np.shape(a) == np.shape(b) and np.all(np.isfinite(a)) else float("inf"))
    else:
        EB = lambda a, b: relerr(a, b)
    if not adj_ok:
        ctx.disagree(key + ":adjoint", desc, "flag 2 is not the transpose of flag 1 / matrix branch differs", "-", "stacked operator")
        bad = True
    if not rec.get("M_callable", True):
        ctx.note(f"matrix branch of _precompute taken at {key}")
    # correspondence: the affine map
    if E(m_impl, m) > TOL:
        ctx.disagree(key + ":offset", desc, m.tolist(), m_impl.tolist(), "offset of the affine map e -> step(e)")
        bad = True
    if EB(B_impl, B) > TOL:
        ctx.disagree(key + ":columns", desc, "model B", f"max dev {np.max(np.abs(B_impl - B)) if B_impl.shape == B.shape else 'shape'}",
                     "linear part of the affine map e -> step(e)")
        bad = True
    # leaf certificate: the factors handed over are square roots of the precisions the code derives
    tol_leaf = improper_tol(cfg, C) if improper(cfg) else TOL_LEAF
    if mcode is None or E(m, mcode) > tol_leaf or E(C, Ccode) > tol_leaf:
        ctx.disagree(key + ":sqrtprec-leaf", desc, "moments from the precisions", "moments from the factors handed to the sampler",
                     "sqrtprec / sqrtprecTimesMean are not square roots of the distribution's own precision")
        bad = True
    nfail = len(ctx.failures)
    ndis = [d_["key"] for d_ in ctx.disagreements if d_["key"].startswith(key + ":")]
    oracle_rto(ctx, rec, key, desc, model, force=bad)
    explain_ties(ctx, key, desc, ndis, nfail)


def explain_ties(ctx, key, desc, dkeys, nfail_before):
    """a model/implementation disagreement at an input where the property's oracle fails is a failing input for that tie too"""
    new = ctx.failures[nfail_before:]
    if not new:
        return
    have = {f_["key"] for f_ in new}
    for dk in sorted(set(dkeys)):
        if dk not in have:
            ctx.fail(dk, desc, "see " + ", ".join(sorted(have))[:200], "oracle fails at the same input",
                     "model/implementation disagreement at an input on which the property's oracle fails")


def improper(cfg):
    return cfg["prior"]["type"] == "gmrf" and cfg["prior"]["bc"] != "zero"


def improper_tol(cfg, C):
    """periodic / neumann GMRF: the code factorises DᵀD + sqrt(eps)·I, i.e. the prior precision is perturbed by δ = prec·sqrt(eps)·I and the
    posterior covariance C by about δ·C·C: relative deviation ≈ prec·sqrt(eps)·‖C‖₂.  Tolerance = 30 x that first-order bound (not below 1e-6)."""
    try:
        bound = float(cfg["prior"]["prec"]) * 1.4901161193847656e-08 * float(np.linalg.norm(np.asarray(C, dtype=float), 2))
    except Exception:
        bound = 0.0
    return max(TOL_IMPROPER, 30.0 * bound)


def oracle_rto(ctx, rec, key, desc, model, force=False):
    """the property on the implementation alone: documented posterior mean / covariance, state independence"""
    cfg = rec["cfg"]
    rel = bool(rec.get("rel"))
    relerr = lambda a_, b_: _relerr(a_, b_, rel=rel)   # purely relative comparisons for the scaled configurations
    n = cfg["n"]
    m_impl, B_impl, e, xa, xb = rec["impl"]
    mdoc_f, Cdoc_f = doc_moments(cfg, rec["gmrfP"])
    tol_doc = improper_tol(cfg, Cdoc_f) if improper(cfg) else TOL
    if model is not None and model["mdoc"] is not None:
        # the harness-side float evaluation and the model's exact evaluation of the documented moments must agree
        if relerr(mdoc_f, model["mdoc"]) > 1e-7 or relerr(Cdoc_f, model["Cdoc"]) > 1e-7:
            ctx.note(f"documented moments: harness float evaluation and model differ at {key} (ill-conditioned?)")
        mdoc, Cdoc = model["mdoc"], model["Cdoc"]
    else:
        mdoc, Cdoc = mdoc_f, Cdoc_f
    special = cfg.get("special")
    suffix = ""
    if special == "sqrtcov-nonsym":
        # dedicated configurations for the known Gaussian(sqrtcov=R) convention defect: make sure nothing else hides behind it
        if model is not None and model["mcode"] is not None and (relerr(m_impl, model["mcode"]) > TOL or relerr(B_impl @ B_impl.T, model["Ccode"]) > TOL):
            ctx.fail(key + ":code-moments", desc, model["mcode"].tolist(), m_impl.tolist(),
                     "draw is not even a draw of the posterior with covariance S Sᵀ")
    nm_ = "rto-improper-gmrf" if improper(cfg) else ("rto-scaled" if rel else "rto")
    ratio(nm_ + ":mean-vs-documented", _relerr0(m_impl, mdoc, rel), tol_doc); ratio(nm_ + ":cov-vs-documented", _relerr0(B_impl @ B_impl.T, Cdoc, rel), tol_doc)
    if relerr(m_impl, mdoc) > tol_doc:
        ctx.fail(key + ":mean", desc, np.asarray(mdoc).tolist(), m_impl.tolist(),
                 "offset of the RTO draw is not the posterior mean of the specified linear-Gaussian problem")
    if relerr(B_impl @ B_impl.T, Cdoc) > tol_doc:
        ctx.fail(key + ":cov", desc, np.asarray(Cdoc).tolist(), (B_impl @ B_impl.T).tolist(),
                 "B Bᵀ of the RTO draw is not the posterior covariance of the specified linear-Gaussian problem")
    # affinity + independence of the current state
    pred = m_impl + B_impl @ e
    if rel:
        # steps started far away (at the scale of the posterior spread): CGLS stops relative to the initial residual, so the
        # error is measured relative to the scale of the posterior, not to a possibly much smaller mean
        fl_ = float(rec.get("floor", 0.0))
        relerr = lambda a_, b_: float(np.max(np.abs(np.asarray(a_) - np.asarray(b_))) / max(np.max(np.abs(a_)), np.max(np.abs(b_)), fl_, 1e-300))
    if relerr(xa, pred) > TOL or relerr(xb, pred) > TOL or relerr(xa, xb) > TOL:
        ctx.fail(key + ":state", desc, pred.tolist(), [xa.tolist(), xb.tolist()],
                 "converged step depends on the current state / is not affine in the normal draw")
    # consecutive steps of one sampler object: every one of them is the same affine map of its own draw
    if "chain" in rec:
        draws, states = rec["chain"]
        for t, (et, xt) in enumerate(zip(draws, states)):
            if relerr(xt, m_impl + B_impl @ et) > TOL:
                ctx.fail(key + ":chain", {**desc, "step": t + 1, "draws": [v.tolist() for v in draws]}, (m_impl + B_impl @ et).tolist(), xt.tolist(),
                         f"step {t + 1} of a chain is not the posterior draw m + B e of its own normal draw (depends on the history)")
                break


# ----------------------------------------------------------------------------- dimension > MIN_DIM_SPARSE (75): eigen-decomposition branches
TOL_LARGE = 1e-8   # purely relative, against a float64 reference (the exact elimination is too slow at this size)


def banded(r, dim, sym=True):
    Bm = np.diag(3.0 + r.rand(dim)) + 0.8 * np.diag(r.rand(dim - 1) + 0.2, 1) + 0.3 * np.diag(r.rand(dim - 5) + 0.2, 5)
    if sym:
        Bm = Bm + np.triu(Bm, 1).T
    else:
        Bm = Bm + 0.4 * np.diag(r.rand(dim - 2) + 0.2, -2)
    return Bm


def large_spec(r, dim, kind):
    """dense non-diagonal matrix parameter of dimension > 75 in one of the four forms"""
    if kind in ("cov", "prec"):
        val = banded(r, dim, True); D = val
    elif kind == "sqrtprec":
        val = banded(r, dim, False); val = np.diag(np.diag(val)) + 0.25 * (val - np.diag(np.diag(val))); D = val.T @ val
    else:
        val = banded(r, dim, True); val = np.diag(np.diag(val)) + 0.25 * (val - np.diag(np.diag(val)))
        D = val.T @ val     # symmetric: S Sᵀ = Sᵀ S
    return {"kind": kind, "shape": "full", "value": val, "tag": f"{kind}-dense{dim}",
            "doc_prec": np.linalg.inv(D) if kind in ("cov", "sqrtcov") else D}


def run_large(ctx, cuqi, r, thorough):
    kinds = ["prec", "cov", "sqrtcov", "sqrtprec"]
    plan = []
    for i, kd in enumerate(kinds):                  # prior of dimension 76 / 80, m ≈ 30
        plan.append(("prior", kd, [76, 80][i % 2], int(r.randint(26, 35))))
    for kd in (["prec", "cov"] if not thorough else kinds):       # noise of dimension 76, small n
        plan.append(("noise", kd, int(r.randint(8, 14)), 76))
    if thorough:
        plan = plan * 3
    # correlated noise of SMALL absolute scale (std ~ 2^-17 ≈ 1e-5 on 76 data points): the eigenvalue cutoff of the eigen route
    # must be relative to the spectrum (own random stream; kind alternates with the seed)
    r_small = np.random.RandomState(ctx.seed + 6066)
    plan.append(("noise-small", ["cov", "sqrtcov"][ctx.seed % 2], int(r_small.randint(6, 10)), 76))
    for i, (where, kd, n, m) in enumerate(plan):
        iface = ["exp", "legacy"][(i + ctx.seed) % 2]
        small = where == "noise-small"
        if small:
            where = "noise"; r_main, r = r, r_small
        A = r.randint(-2, 3, size=(m, n)).astype(float)
        d = (r.randint(-6, 7, size=m) / 2.0).astype(float)
        mean = r.randint(-3, 4, size=n).astype(float)
        lsp = large_spec(r, m, kd) if where == "noise" else gen_spec(r, m, force=("cov", "scalar"))
        if small:
            f = 2.0 ** (-34 if kd == "cov" else -17)        # exact scaling: covariance 2^-34 · (banded SPD)
            lsp = {**lsp, "value": lsp["value"] * f, "doc_prec": lsp["doc_prec"] * 2.0 ** 34, "tag": lsp["tag"] + "-scale2^-34"}
        psp = large_spec(r, n, kd) if where == "prior" else gen_spec(r, n, force=("prec", "vector"))
        cfg = {"n": n, "iface": iface, "backing": "matrix", "target": "posterior", "special": "large",
               "liks": [{"m": m, "A": A, "d": d, "spec": lsp}],
               "prior": {"type": "gauss", "spec": psp, "mean": mean, "tag": psp["tag"]}}
        key = "large:" + cfg_key(cfg)
        desc = {"iface": iface, "n": n, "m": m, "where": where, "kind": kd, "seed_stream": "RandomState(seed+606), large block", "index": i}
        ctx.case(f"rto-large-{iface}", desc)
        try:
            with quiet():
                target, _, _ = build_target(cuqi, cfg)
                runner = StepRunner(cuqi, cfg, target, maxit=maxit_for(n), tol=1e-13)
                if small:
                    sm_, sbig_, tvec_ = probe_lengths(cfg, runner, None)
                    m_impl, B_impl, e, xa, xb = read_affine(runner, r, n, sx=sm_, tvec=tvec_, sbig=sm_)
                else:
                    m_impl, B_impl, e, xa, xb = read_affine(runner, r, n)
                chain = (runner.chain_draws, runner.chain_states)
                L1, L2, _ = leaf_factors(runner)
            if small:
                r = r_main
        except Exception as ex:
            if small:
                r = r_main
            ctx.disagree(key + ":refusal", desc, "accepted", repr(ex)[:160], "implementation refuses a valid linear-Gaussian target")
            ctx.fail(key + ":refusal", desc, "one exact posterior draw", repr(ex)[:160], "sampler cannot be built / stepped on a valid target")
            continue
        mdoc, Cdoc = doc_moments(cfg)
        if relerr(m_impl, mdoc, rel=True) > TOL_LARGE:
            ctx.fail(key + ":mean", desc, mdoc[:6].tolist(), m_impl[:6].tolist(),
                     "offset of the RTO draw is not the posterior mean (dense parameter of dimension > 75)")
        ratio("rto-large:mean", _relerr0(m_impl, mdoc, True), TOL_LARGE); ratio("rto-large:cov", _relerr0(B_impl @ B_impl.T, Cdoc, True), 3 * TOL_LARGE)
        if relerr(B_impl @ B_impl.T, Cdoc, rel=True) > 3 * TOL_LARGE:     # (sum of squares of ~110 read-off columns: float noise up to ~3e-9 observed)
            ctx.fail(key + ":cov", desc, np.diag(Cdoc)[:6].tolist(), np.diag(B_impl @ B_impl.T)[:6].tolist(),
                     "B Bᵀ of the RTO draw is not the posterior covariance (dense parameter of dimension > 75)")
        pred = m_impl + B_impl @ e      # (a sum of ~110 read-off columns: compared to 10·TOL_LARGE)
        if relerr(xa, pred, rel=True) > 10 * TOL_LARGE or relerr(xb, pred, rel=True) > 10 * TOL_LARGE:
            ctx.fail(key + ":state", desc, pred[:6].tolist(), [xa[:6].tolist(), xb[:6].tolist()], "converged step depends on the current state")
        for t, (et, xt) in enumerate(zip(*chain)):
            if relerr(xt, m_impl + B_impl @ et, rel=True) > 10 * TOL_LARGE:
                ctx.fail(key + ":chain", {**desc, "step": t + 1}, "m + B e", "differs", "chained step is not the posterior draw of its own normal draw")
                break
        # the factor handed over is a square root of the specified precision (float check; reported through the moments above)
        Lf = L1[0] if where == "noise" else L2
        Pd = (lsp if where == "noise" else psp)["doc_prec"]
        if relerr(Lf.T @ Lf, Pd, rel=True) > 1e-9:
            ctx.note(f"{key}: sqrtprecᵀ sqrtprec differs from the specified precision by {relerr(Lf.T @ Lf, Pd, rel=True):.2e}")


# ----------------------------------------------------------------------------- re-assignment histories
def logd_oracle(ctx, key, desc, post, m_impl, B_impl, r):
    """the density the posterior object evaluates NOW must be the Gaussian with the read-off moments:
    -2 (logd(m+v) - logd(m)) = vᵀ C⁻¹ v and logd(m+v) = logd(m-v)"""
    C = B_impl @ B_impl.T
    try:
        Ci = np.linalg.inv(C)
        with quiet():
            f = lambda x_: float(np.asarray(post.logd(x_)).ravel()[0])
            f0 = f(m_impl)
            sd = np.sqrt(np.diag(C))
            for _ in range(4):
                v = r.randn(len(m_impl)) * sd * 2.0
                qf = -2.0 * (f(m_impl + v) - f0); qb = -2.0 * (f(m_impl - v) - f0)
                want = float(v @ Ci @ v)
                if abs(qf - want) > 1e-6 * (1 + abs(want)) or abs(qf - qb) > 1e-6 * (1 + abs(want)):
                    ctx.fail(key + ":logd", desc, want, [qf, qb],
                             "the posterior density evaluated by the target object is not the Gaussian with the mean/covariance of the RTO draw "
                             "(sampler and logd use different parameters)")
                    return
    except Exception as ex:
        ctx.note(f"logd oracle not applicable at {key}: {repr(ex)[:100]}")


SPARSE_FORMATS = ["dia", "csr", "csc", "coo", "bsr", "lil"]   # not dok: len(dok_matrix) is its number of stored entries, which cuqi takes for the dimension (a refusal, outside the property)


def obj_value(sp):
    """the object handed to the constructor / setter: the dense value, or a scipy.sparse matrix with the same numbers in the
    storage format sp["sparse"] (True = csr)"""
    fmt = sp.get("sparse")
    if fmt:
        import scipy.sparse as spa
        fmt = "csr" if fmt is True else fmt
        v = sp["value"]
        return v.asformat(fmt) if spa.issparse(v) else getattr(spa, fmt + "_matrix")(np.asarray(v, dtype=float))
    return sp["value"]


def sparse_spec(r, dim, kind, form, fmt):
    """a Gaussian specification stored as a scipy.sparse matrix: form 'diag' (diagonal) or 'band' (SPD tridiagonal for
    cov / prec / sqrtcov — symmetric, so S Sᵀ = Sᵀ S —, upper or lower bidiagonal for sqrtprec, incl. the class docstring's
    diags([1, -1], [0, 1])), in storage format fmt.  NB scipy's isspmatrix_dia tests the FORMAT, not diagonality."""
    if dim < 3:
        form = "diag"
    if form == "diag":
        sp = dict(gen_spec(r, dim, force=(kind, "diag")))
    else:
        dg = r.choice([2.0, 3.0, 4.0], size=dim).astype(float)
        off = r.choice([-1.0, 0.5, 1.0], size=dim - 1).astype(float)
        if kind == "sqrtprec":
            sub = r.randint(3)
            val = (np.eye(dim) - np.diag(np.ones(dim - 1), 1)) if sub == 0 else (np.diag(dg) + np.diag(off, 1 if sub == 1 else -1))
        else:
            val = np.diag(dg) + np.diag(off, 1) + np.diag(off, -1)
        Dm = val if kind in ("cov", "prec") else val.T @ val
        sp = {"kind": kind, "shape": "full", "value": val, "tag": f"{kind}-full",
              "doc_prec": np.linalg.inv(Dm) if kind in ("cov", "sqrtcov") else Dm}
    sp["sparse"] = fmt
    sp["tag"] = sp["tag"] + "-sparse-" + fmt
    return sp


def sparse_config(r, thorough, t, seed):
    """first-use configurations with one Gaussian (prior or one noise) given as a scipy.sparse matrix: kinds x {diag, band} x
    storage formats are enumerated by the running index t (dia always included, the other formats rotate with the seed)"""
    kind = ["cov", "prec", "sqrtcov", "sqrtprec"][t % 4]
    form = ["band", "diag"][(t // 4) % 2]
    fmts = ["dia"] + [SPARSE_FORMATS[1 + (seed + j) % 5] for j in range(3)]
    fmt = fmts[(t // 8) % 4] if not thorough else SPARSE_FORMATS[(t // 8) % 6]
    for _ in range(100):
        cfg = gen_config(r, thorough)
        if cfg["prior"]["type"] != "gauss" or cfg["n"] < 3 or cfg["target"] == "tuple":
            continue
        break
    cfg["special"] = "sparse"
    where = r.randint(3)
    if where == 0 or cfg["liks"][0]["m"] < 3:
        sp = sparse_spec(r, cfg["n"], kind, form, fmt)
        cfg["prior"]["spec"] = sp
        cfg["prior"]["tag"] = sp["tag"] + ("-mean1" if len(cfg["prior"]["mean"]) == 1 else "")
    else:
        l = cfg["liks"][r.randint(len(cfg["liks"]))] if cfg["liks"][-1]["m"] >= 3 else cfg["liks"][0]
        if l["m"] < 3:
            l = cfg["liks"][0]
        l["spec"] = sparse_spec(r, l["m"], kind, form, fmt)
    if kind == "sqrtprec" and cfg["iface"] == "legacy" and len(cfg["liks"]) == 1 and r.rand() < 0.5:
        # the 5-tuple form takes the square roots directly
        if cfg["liks"][0]["spec"]["kind"] != "sqrtprec":
            cfg["liks"][0]["spec"] = gen_spec(r, cfg["liks"][0]["m"], force=("sqrtprec", ["vector", "diag", "full"][r.randint(3)]))
        if cfg["prior"]["spec"]["kind"] != "sqrtprec":
            sp = gen_spec(r, cfg["n"], force=("sqrtprec", ["vector", "diag", "full"][r.randint(3)]))
            cfg["prior"]["spec"] = sp
            cfg["prior"]["tag"] = sp["tag"] + ("-mean1" if len(cfg["prior"]["mean"]) == 1 else "")
        cfg["target"] = "tuple"
        cfg["tuple_model"] = ["ndarray", "LinearModel"][r.randint(2)]
        cfg["backing"] = "matrix"
    return cfg


def history_spec(r, dim, kind):
    """a specification of the given kind in a random storage form: scalar / vector / diagonal / full / scipy.sparse"""
    form = ["scalar", "vector", "diag", "full", "sparse-diag", "sparse-band"][r.randint(6)]
    if dim < 3 and form == "sparse-band":
        form = "sparse-diag"
    if dim < 2 and form == "sparse-diag":
        form = "diag"            # (a 1x1 scipy.sparse matrix is read as a scalar and then fails on .ravel(): not a sensible input)
    if form in ("scalar", "vector", "diag", "full"):
        return gen_spec(r, dim, force=(kind, form))
    if form == "sparse-diag":
        sp = dict(gen_spec(r, dim, force=(kind, "diag")))
    else:
        # sparse banded: SPD tridiagonal for cov/prec/sqrtcov (symmetric: S Sᵀ = Sᵀ S), upper bidiagonal for sqrtprec
        dg = r.choice([2.0, 3.0, 4.0], size=dim).astype(float)
        off = r.choice([-1.0, 0.5, 1.0], size=dim - 1).astype(float)
        val = np.diag(dg) + np.diag(off, 1) + (np.diag(off, -1) if kind != "sqrtprec" else 0.0)
        Dm = val if kind in ("cov", "prec") else val.T @ val
        sp = {"kind": kind, "shape": "full", "value": val, "tag": f"{kind}-full",
              "doc_prec": np.linalg.inv(Dm) if kind in ("cov", "sqrtcov") else Dm}
    fmt = SPARSE_FORMATS[r.randint(len(SPARSE_FORMATS))]
    sp["sparse"] = fmt
    sp["tag"] = sp["tag"] + "-sparse-" + fmt
    return sp


def nonzero_mean(r, n):
    mu = r.randint(-3, 4, size=n).astype(float)
    if not mu.any():
        mu[r.randint(n)] = 2.0
    return mu


def history_records(ctx, cuqi, r, thorough):
    """Posterior / MultipleLikelihoodPosterior built directly on ONE prior object and ONE noise object per likelihood (no
    copies); a sampler is built and USED; then the matrix parameter and/or the mean of the prior and/or of a noise
    distribution are re-assigned through the setters of the objects the posterior holds (any subset, any order, also to a
    different storage form incl. scipy.sparse); then the posterior is used again — by a fresh sampler on the same posterior
    object, or (experimental) by the SAME sampler after reinitialize().  The draw must be that of the CURRENT parameters (full
    model/oracle pipeline + logd consistency) and equal to that of a freshly built identical problem (`:fresh`)."""
    from cuqi.distribution import Gaussian, GMRF, Posterior, MultipleLikelihoodPosterior
    from cuqi.model import LinearModel
    out = []
    nh = 30 if not thorough else 30 * ctx.scale
    kinds = ["cov", "prec", "sqrtcov", "sqrtprec"]
    for c in range(nh):
        n = int(r.randint(2, 6))
        iface = ["exp", "legacy"][c % 2]
        form = "tuple" if (iface == "legacy" and c % 6 == 1) else "posterior"
        k = 1 if form == "tuple" else int(r.choice([1, 1, 2]))
        ptype = "gmrf" if (c % 4 == 0 and form != "tuple") else "gauss"
        liks0 = []
        for i in range(k):
            m = int(r.randint(n, n + 3)) if i == 0 else int(r.randint(1, n + 2))
            A = r.randint(-2, 3, size=(m, n)).astype(float)
            if i == 0:
                A += np.vstack([np.eye(n) * 3.0, np.zeros((m - n, n))])
            lk = "sqrtprec" if form == "tuple" else kinds[(c + i) % 4]
            liks0.append({"m": m, "A": A, "d": (r.randint(-6, 7, size=m) / 2.0).astype(float), "spec": history_spec(r, m, lk) if form != "tuple"
                          else gen_spec(r, m, force=("sqrtprec", ["vector", "diag", "full"][r.randint(3)]))})
        mean0 = nonzero_mean(r, n)
        if ptype == "gmrf":
            pr0 = {"type": "gmrf", "order": int(r.choice([1, 2])), "bc": "zero", "prec": float(r.choice([0.25, 1.0, 4.0])), "mean": mean0}
            pr0["tag"] = f"gmrf-order{pr0['order']}-zero"
        else:
            pk = "sqrtprec" if form == "tuple" else kinds[(c // 2) % 4]     # every parameterisation in turn
            psp0 = history_spec(r, n, pk) if form != "tuple" else gen_spec(r, n, force=(pk, ["vector", "diag", "full"][r.randint(3)]))
            pr0 = {"type": "gauss", "spec": psp0, "mean": mean0, "tag": psp0["tag"]}
        cfg0 = {"n": n, "iface": iface, "backing": "matrix", "target": form if form == "tuple" else ("posterior" if k == 1 else "multiple"),
                "tuple_model": "LinearModel", "liks": liks0, "prior": pr0}
        # ---- the setter operations, in the order they are applied
        cand = [("prior", "matrix"), ("prior", "mean")] + [(f"noise{i}", "matrix") for i in range(k)]
        nops = int(r.choice([1, 1, 2, 3]))
        ops = [cand[j] for j in r.permutation(len(cand))[:nops]]
        if c % 3 == 0:
            ops = [("prior", "matrix")]          # the matrix alone (mean untouched): caches keyed on the mean survive
        if form == "tuple":
            ops = [("prior", "matrix"), ("prior", "mean"), ("noise0", "matrix")]
        cfg1 = {**cfg0, "liks": [dict(l) for l in liks0], "prior": dict(pr0)}
        for who, what in ops:
            if who == "prior" and what == "mean":
                cfg1["prior"]["mean"] = nonzero_mean(r, n)
            elif who == "prior":
                if ptype == "gmrf":
                    cfg1["prior"]["prec"] = float(r.choice([0.5, 2.0, 8.0, 16.0]))
                else:
                    kd = pr0["spec"]["kind"]
                    sp_new = history_spec(r, n, kd) if form != "tuple" else gen_spec(r, n, force=(kd, ["vector", "diag", "full"][r.randint(3)]))
                    cfg1["prior"]["spec"] = sp_new; cfg1["prior"]["tag"] = sp_new["tag"]
            else:
                i = int(who[5:])
                kd = liks0[i]["spec"]["kind"]
                cfg1["liks"][i]["spec"] = history_spec(r, liks0[i]["m"], kd) if form != "tuple" else gen_spec(r, liks0[i]["m"], force=(kd, ["vector", "diag", "full"][r.randint(3)]))
        reuse = "reinitialize" if (iface == "exp" and c % 4 in (0, 2) and form != "tuple") else "fresh-sampler"
        cfg1["history"] = {"reassigned": [f"{a}.{b}" for a, b in ops], "second_use": reuse,
                           "round1": {"noise": [np.asarray(l["spec"]["value"]).tolist() for l in liks0],
                                      "prior": (pr0["prec"] if ptype == "gmrf" else np.asarray(pr0["spec"]["value"]).tolist()),
                                      "prior_mean": mean0.tolist()}}
        key = "history:" + "+".join(f"{a}.{b}" for a, b in ops) + f":{reuse}:" + cfg_key(cfg1)
        gP1 = gmrf_precision(cuqi, cfg1["prior"], n) if ptype == "gmrf" else None
        try:   # the property presupposes a proper, reasonably conditioned posterior
            if np.linalg.cond(np.linalg.inv(doc_moments(cfg1, gP1)[1])) > 1e5 or \
               np.linalg.cond(np.linalg.inv(doc_moments(cfg0, gmrf_precision(cuqi, pr0, n) if ptype == "gmrf" else None)[1])) > 1e5:
                continue
        except np.linalg.LinAlgError:
            continue
        rec = {"cfg": cfg1, "key": key, "desc": cfg_desc(cfg1), "gmrfP": gP1}
        maxit, tol = maxit_for(n), 1e-13
        try:
            with quiet():
                if form == "tuple":
                    Amod = LinearModel(liks0[0]["A"].copy())
                    t1 = (liks0[0]["d"].copy(), Amod, liks0[0]["spec"]["value"], mean0, pr0["spec"]["value"])
                    r1 = StepRunner(cuqi, cfg0, t1, maxit=maxit, tol=tol)
                    r1.chain([r.randn(r1.N) for _ in range(2)], np.zeros(n))
                    target = (liks0[0]["d"].copy(), Amod, cfg1["liks"][0]["spec"]["value"], cfg1["prior"]["mean"], cfg1["prior"]["spec"]["value"])
                    post = None
                    runner = StepRunner(cuqi, cfg1, target, maxit=maxit, tol=tol)
                else:
                    if ptype == "gmrf":
                        x = GMRF(mean0.copy(), pr0["prec"], bc_type="zero", order=pr0["order"], name="x")
                    else:
                        x = Gaussian(mean=mean0.copy(), name="x", **{pr0["spec"]["kind"]: obj_value(pr0["spec"])})
                    ys = [Gaussian(mean=LinearModel(l["A"].copy())(x), name=f"y{i}", **{l["spec"]["kind"]: obj_value(l["spec"])})
                          for i, l in enumerate(liks0)]
                    lks = [y.to_likelihood(l["d"]) for y, l in zip(ys, liks0)]
                    post = Posterior(lks[0], x) if k == 1 else MultipleLikelihoodPosterior(*(lks + [x]))
                    # ---- first use
                    r1 = StepRunner(cuqi, cfg0, post, maxit=maxit, tol=tol)
                    first = r1.chain([np.zeros(r1.N), r.randn(r1.N)], np.zeros(n))[0]
                    m_first = doc_moments(cfg0, gmrf_precision(cuqi, pr0, n) if ptype == "gmrf" else None)[0]
                    if relerr(first, m_first) > TOL:
                        ctx.fail(key + ":round1", rec["desc"], m_first.tolist(), first.tolist(), "first sampler (before any re-assignment) is off")
                    # ---- re-assignment through the setters of the objects the posterior holds
                    pdists = [post.likelihood.distribution] if k == 1 else [l_.distribution for l_ in post.likelihoods]
                    for who, what in ops:
                        if who == "prior" and what == "mean":
                            post.prior.mean = cfg1["prior"]["mean"].copy()
                        elif who == "prior":
                            if ptype == "gmrf":
                                post.prior.prec = cfg1["prior"]["prec"]
                            else:
                                setattr(post.prior, pr0["spec"]["kind"], obj_value(cfg1["prior"]["spec"]))
                        else:
                            i = int(who[5:])
                            setattr(pdists[i], liks0[i]["spec"]["kind"], obj_value(cfg1["liks"][i]["spec"]))
                    # ---- second use
                    if reuse == "reinitialize":
                        r1.s.reinitialize()
                        runner = StepRunner(cuqi, cfg1, post, maxit=maxit, tol=tol, sampler=r1.s)
                    else:
                        runner = StepRunner(cuqi, cfg1, post, maxit=maxit, tol=tol)
                rec["impl"] = read_affine(runner, r, n)
                rec["leaf"] = leaf_factors(runner)
                rec["chain"] = (runner.chain_draws, runner.chain_states)
                rec["M_callable"] = callable(runner.s.M)
                # ---- a freshly built identical problem (new objects, current parameter values)
                cfg_f = {**cfg1, "target": "tuple" if form == "tuple" else cfg1["target"]}
                tf, _, _ = build_target_objs(cuqi, cfg_f)
                rf = StepRunner(cuqi, cfg_f, tf, maxit=maxit, tol=tol)
                mf = rf.step(np.zeros(rf.N), np.zeros(n))
                Bf = np.column_stack([rf.step(np.eye(rf.N)[j], np.zeros(n)) - mf for j in range(rf.N)])
            if relerr(rec["impl"][0], mf) > TOL or relerr(rec["impl"][1], Bf) > TOL:
                ctx.fail(key + ":fresh", rec["desc"], {"offset": mf.tolist()}, {"offset": rec["impl"][0].tolist()},
                         "after re-assignment through the setters the draw differs from that of a freshly built identical problem (stale cached quantity)")
            if post is not None:
                logd_oracle(ctx, key, rec["desc"], post, rec["impl"][0], rec["impl"][1], r)
        except Exception as ex:
            rec["impl_err"] = f"{type(ex).__name__}: {str(ex)[:160]}"
        out.append(rec)
    return out


def build_target_objs(cuqi, cfg):
    """build_target with sparse storage forms honoured"""
    cfg2 = {**cfg, "liks": [{**l, "spec": {**l["spec"], "value": obj_value(l["spec"])}} for l in cfg["liks"]], "prior": dict(cfg["prior"])}
    if cfg2["prior"]["type"] == "gauss":
        cfg2["prior"]["spec"] = {**cfg["prior"]["spec"], "value": obj_value(cfg["prior"]["spec"])}
    if cfg2["target"] == "tuple":
        cfg2["tuple_model"] = "LinearModel"
    return build_target(cuqi, cfg2)


# ----------------------------------------------------------------------------- configuration histories of the SAMPLER object
def settings_config(r):
    """a problem the inner solver cannot finish with the default settings (maxit = 10, tol = 1e-6): n = 14..18, dense A"""
    n = int(r.randint(14, 17)); m = n + int(r.randint(0, 3))
    A = r.randint(-2, 3, size=(m, n)).astype(float) + np.vstack([np.eye(n) * 3.0, np.zeros((m - n, n))])
    d = (r.randint(-6, 7, size=m) / 2.0).astype(float)

    def dyadic_spec(dim, shape):
        # powers of 4 only: every square-root factor is an exact small dyadic, which keeps the exact model fast at this size
        kind = ["cov", "prec", "sqrtcov", "sqrtprec"][r.randint(4)]
        pool = [0.25, 1.0, 4.0, 0.0625, 16.0]
        val = float(r.choice(pool)) if shape == "scalar" else r.choice(pool, size=dim).astype(float)
        v = np.repeat(val, dim) if shape == "scalar" else val
        Dg = np.diag(v if kind in ("cov", "prec") else v * v)
        return {"kind": kind, "shape": shape, "value": val, "tag": f"{kind}-{shape}",
                "doc_prec": np.linalg.inv(Dg) if kind in ("cov", "sqrtcov") else Dg}
    lsp = dyadic_spec(m, "scalar")
    psp = dyadic_spec(n, ["scalar", "vector"][r.randint(2)])
    prior = {"type": "gauss", "spec": psp, "mean": r.randint(-3, 4, size=n).astype(float), "tag": psp["tag"]}
    return {"n": n, "iface": "exp", "backing": "matrix", "target": "posterior",
            "liks": [{"m": m, "A": A, "d": d, "spec": lsp}], "prior": prior}


def settings_records(ctx, cuqi, r, thorough):
    """options/attributes of the sampler RE-ASSIGNED after construction, after initialisation or after first use; optional
    arguments passed positionally; target re-assigned followed by reinitialize(): a step must be that of a fresh sampler
    with the CURRENT configuration (converged, exact posterior draw).  Returns records for the common pipeline."""
    import cuqi.experimental.mcmc as em
    import cuqi.sampler as ls
    variants = [("exp", "late:initialize"), ("exp", "late:warmup"), ("exp", "late:sample"), ("exp", "late:before-init"),
                ("legacy", "late:sample"), ("legacy", "late:constructed"), ("exp", "positional"), ("legacy", "positional"),
                ("exp", "retarget+reinitialize"), ("exp", "loose-then-reinitialize")]
    if thorough:
        variants = variants * max(2, ctx.scale // 2)
    out = []
    for iface, var in variants:
        for _ in range(50):
            cfg = settings_config(r)
            gP = gmrf_precision(cuqi, cfg["prior"], cfg["n"]) if cfg["prior"]["type"] == "gmrf" else None
            Hh = np.linalg.inv(doc_moments(cfg, gP)[1])
            if 50 < np.linalg.cond(Hh) < 1e4:
                break
        cfg["iface"] = iface; cfg["history"] = {"sampler": var}
        n = cfg["n"]
        key = f"settings:{var}:" + cfg_key(cfg)
        rec = {"cfg": cfg, "key": key, "desc": cfg_desc(cfg), "gmrfP": gP}
        maxit, tol = maxit_for(n), 1e-13
        try:
            with quiet():
                target, _, _ = build_target(cuqi, cfg)
                if var == "positional":
                    s_ = em.LinearRTO(target, np.zeros(n), maxit, tol) if iface == "exp" else ls.LinearRTO(target, np.zeros(n), maxit, tol)
                    if iface == "exp":
                        s_.initialize()
                elif var == "retarget+reinitialize":
                    cfg_o = dict(cfg); cfg_o["liks"] = [dict(cfg["liks"][0])]; cfg_o["liks"][0]["d"] = cfg["liks"][0]["d"] * 3.0 + 1.0
                    cfg_o["prior"] = dict(cfg["prior"]); cfg_o["prior"]["mean"] = cfg["prior"]["mean"] + 2.0
                    other, _, _ = build_target(cuqi, cfg_o)
                    s_ = em.LinearRTO(other, initial_point=np.zeros(n), maxit=maxit, tol=tol)
                    s_.sample(2)
                    s_.target = target
                    s_.reinitialize()
                elif var == "loose-then-reinitialize":
                    s_ = em.LinearRTO(target)
                    s_.sample(2)
                    s_.maxit, s_.tol = maxit, tol
                    s_.reinitialize()
                else:
                    # constructed with the DEFAULT solver settings (maxit = 10, tol = 1e-6), used, and only then tightened
                    s_ = em.LinearRTO(target) if iface == "exp" else ls.LinearRTO(target)
                    if var == "late:initialize":
                        s_.initialize()
                    elif var == "late:warmup":
                        s_.warmup(2)
                    elif var == "late:sample":
                        s_.sample(2)
                    s_.maxit = maxit
                    s_.tol = tol
                    if var == "late:before-init":
                        s_.initialize()
                runner = StepRunner(cuqi, cfg, target, maxit, tol, sampler=s_)
                rec["impl"] = read_affine(runner, r, n)
                rec["leaf"] = leaf_factors(runner)
                rec["chain"] = (runner.chain_draws, runner.chain_states)
                rec["M_callable"] = callable(runner.s.M)
        except Exception as ex:
            rec["impl_err"] = f"{type(ex).__name__}: {str(ex)[:160]}"
        out.append(rec)
    return out


def run_inputs(ctx, cuqi, r, thorough):
    """properties of the arrays handed in other than their numbers (dtype, layout, writability, container) for initial points,
    data and forward matrices; caller-owned arrays are not modified; returned arrays are not overwritten by later calls.
    Float oracle on the offset of the draw (documented posterior mean / UGLA local mean)."""
    from cuqi.distribution import Gaussian, LMRF, JointDistribution
    from cuqi.model import LinearModel
    import cuqi.experimental.mcmc as em
    import cuqi.sampler as ls
    reps = 1 if not thorough else 4
    retained = []
    for rep in range(reps):
        n = int(r.randint(3, 7)); m = n + int(r.randint(0, 3))
        A = r.randint(-2, 3, size=(m, n)).astype(float) + np.vstack([np.eye(n) * 3.0, np.zeros((m - n, n))])
        d = r.randint(-6, 7, size=m).astype(float)
        mean = r.randint(-3, 4, size=n).astype(float)
        x0v = r.randint(-3, 4, size=n).astype(float)
        Hm = A.T @ A / 0.25 + np.eye(n) / 4.0
        ref = np.linalg.solve(Hm, A.T @ d / 0.25 + mean / 4.0)
        N = m + n

        def ro(a):
            a = np.array(a, dtype=float); a.setflags(write=False); return a
        x0_forms = {"float64": x0v.copy(), "int64": x0v.astype(np.int64), "int32": x0v.astype(np.int32), "float32": x0v.astype(np.float32),
                    "list": [float(v) for v in x0v], "read-only": ro(x0v), "strided": np.repeat(x0v, 2)[::2],
                    "negative-stride": x0v[::-1].copy()[::-1], "fortran-column": np.asfortranarray(np.tile(x0v[:, None], (1, 2)))[:, 0]}
        data_forms = {"float64": d.copy(), "int64": d.astype(np.int64), "list": [float(v) for v in d], "float32": d.astype(np.float32),
                      "read-only": ro(d), "strided": np.repeat(d, 2)[::2]}
        A_forms = {"float64": A.copy(), "int64": A.astype(np.int64), "fortran": np.asfortranarray(A), "transposed-view": np.ascontiguousarray(A.T).T,
                   "read-only": ro(A), "float32": A.astype(np.float32)}

        def one(iface, sampler, x0, dd, AA):
            with quiet():
                x = Gaussian(mean.copy(), cov=4.0, name="x")
                y = Gaussian(mean=LinearModel(AA)(x), cov=0.25, name="y")
                post = JointDistribution(x, y)(y=dd)
                if iface == "exp":
                    s_ = em.LinearRTO(post, initial_point=x0, maxit=maxit_for(n), tol=1e-13)
                    s_.initialize()
                    with patched_randn(np.zeros(N)):
                        s_.step()
                    return np.asarray(s_.current_point)
                s_ = ls.LinearRTO(post, x0=x0, maxit=maxit_for(n), tol=1e-13)
                with patched_randn(np.zeros(N)):
                    return np.asarray(s_.sample(2).samples[:, 1])
        for iface in ("exp", "legacy"):
            for arg, forms in (("initial_point", x0_forms), ("data", data_forms), ("matrix", A_forms)):
                for nm, val in forms.items():
                    desc = {"iface": iface, "argument": arg, "form": nm, "n": n, "m": m, "A": A.tolist(), "d": d.tolist(), "prior_mean": mean.tolist(),
                            "x0": x0v.tolist(), "noise_cov": 0.25, "prior_cov": 4.0}
                    ctx.case("inputs-rto", desc)
                    key = f"inputs:{iface}:{arg}-{nm}"
                    args = {"initial_point": x0_forms["float64"], "data": data_forms["float64"], "matrix": A_forms["float64"]}
                    args[arg] = val
                    snap = [np.array(v, copy=True) if not isinstance(v, list) else list(v) for v in args.values()]
                    try:
                        out = one(iface, None, args["initial_point"], args["data"], args["matrix"])
                    except Exception as ex:
                        ctx.fail(key + ":refusal", desc, "one exact posterior draw (as for the float64 array with the same numbers)",
                                 f"{type(ex).__name__}: {str(ex)[:120]}", "sampler fails on a valid array argument that is not a float64 ndarray")
                        continue
                    retained.append((key, desc, out, np.array(out, dtype=float, copy=True)))
                    if _relerr(np.asarray(out, dtype=float), ref) > TOL:
                        ctx.fail(key + ":mean", desc, ref.tolist(), np.asarray(out, dtype=float).tolist(),
                                 "offset of the converged draw differs from the posterior mean when the argument is not a float64 C-contiguous ndarray")
                    for v0, v1 in zip(snap, args.values()):
                        same = (v0 == v1) if isinstance(v1, list) else np.array_equal(v0, np.asarray(v1))
                        if not same:
                            ctx.fail(key + ":caller-array-modified", desc, "argument unchanged", "modified", "a caller-owned array was modified by sampling")
    # retained outputs re-verified at the end (a later call must not overwrite an earlier result)
    for key, desc, out, copy_ in retained:
        if not np.array_equal(np.asarray(out, dtype=float), copy_):
            ctx.fail(key + ":retained-output", desc, copy_.tolist(), np.asarray(out, dtype=float).tolist(), "a returned array was overwritten by a later call")



def run_ugla_settings(ctx, cuqi, r, thorough):
    """UGLA: maxit / tol / beta re-assigned after construction and first use; initial points that are not float64 ndarrays.
    Float oracle: documented local Gaussian (current beta) at the current state; locations with D·location = 0 only."""
    from cuqi.distribution import Gaussian, LMRF, Posterior
    from cuqi.model import LinearModel
    import cuqi.experimental.mcmc as em
    import cuqi.sampler as ls
    reps = 3 if not thorough else 3 * ctx.scale
    for rep in range(reps):
        n = int(r.randint(4, 8)); m = n + int(r.randint(0, 3))
        A = r.randint(-2, 3, size=(m, n)).astype(float) + np.vstack([np.eye(n) * 3.0, np.zeros((m - n, n))])
        d = (r.randint(-6, 7, size=m) / 2.0).astype(float)
        bc = ["zero", "neumann", "periodic"][r.randint(3)]
        loc = np.zeros(n) if bc == "zero" or r.rand() < 0.4 else np.repeat(float(r.randint(1, 4)), n)
        scale = float(r.choice([0.25, 1.0, 4.0])); beta_new = float(r.choice([1.0, 0.0625, 1e-2]))
        xk = r.randint(-4, 5, size=n).astype(float)
        with quiet():
            x = LMRF(location=loc, scale=scale, bc_type=bc, geometry=n, name="x")
            y = Gaussian(mean=LinearModel(A.copy())(x), cov=0.25, name="y")
            post = Posterior(y.to_likelihood(d), x)
            D = dense(x._diff_op.get_matrix())
        N = m + D.shape[0]
        maxit, tol = maxit_for(n), 1e-13

        def reference(beta):
            wd = 1.0 / np.sqrt((D @ (xk - loc)) ** 2 + beta)
            Pq = (D.T * wd) @ D / scale
            Cq = np.linalg.inv(A.T @ A / 0.25 + Pq)
            return Cq @ (A.T @ d / 0.25 + Pq @ loc), Cq
        if np.linalg.cond(np.linalg.inv(reference(beta_new)[1])) > 1e5:
            continue
        for iface in ("exp", "legacy"):
            for var in ("late:constructed", "late:used", "positional", "x0-int64", "x0-float32", "x0-read-only"):
                desc = {"iface": iface, "variant": var, "n": n, "m": m, "A": A.tolist(), "d": d.tolist(), "bc": bc, "location": loc.tolist(),
                        "scale": scale, "beta": beta_new, "x_k": xk.tolist(), "noise_cov": 0.25}
                ctx.case("ugla-settings", desc)
                key = f"settings:ugla:{iface}:{var}"
                x0 = {"x0-int64": xk.astype(np.int64), "x0-float32": xk.astype(np.float32)}.get(var, xk.copy())
                if var == "x0-read-only":
                    x0.setflags(write=False)

                def step(e):
                    with quiet():
                        if iface == "exp":
                            if var.startswith("late"):
                                s_ = em.UGLA(post)                    # defaults: maxit 50, tol 1e-4, beta 1e-5
                                if var == "late:used":
                                    s_.sample(2)
                                s_.maxit, s_.tol, s_.beta = maxit, tol, beta_new
                                if var == "late:constructed":
                                    s_.initialize()
                                s_.current_point = x0
                            elif var == "positional":
                                s_ = em.UGLA(post, x0, maxit, tol, beta_new); s_.initialize()
                            else:
                                s_ = em.UGLA(post, initial_point=x0, maxit=maxit, tol=tol, beta=beta_new); s_.initialize()
                            with patched_randn(e):
                                s_.step()
                            return np.asarray(s_.current_point, dtype=float)
                        if var.startswith("late"):
                            s_ = ls.UGLA(post)
                            if var == "late:used":
                                s_.sample(2)
                            s_.maxit, s_.tol, s_.beta = maxit, tol, beta_new
                            s_.x0 = x0
                            s_.rng = ScriptedRng(e)
                        elif var == "positional":
                            s_ = ls.UGLA(post, x0, maxit, tol, beta_new, ScriptedRng(e))
                        else:
                            s_ = ls.UGLA(post, x0=x0, maxit=maxit, tol=tol, beta=beta_new, rng=ScriptedRng(e))
                        return np.asarray(s_.sample(2).samples[:, 1], dtype=float)
                try:
                    m0 = step(np.zeros(N))
                    B = np.zeros((n, N))
                    for j in range(N):
                        e = np.zeros(N); e[j] = 1.0
                        B[:, j] = step(e) - m0
                except Exception as ex:
                    ctx.fail(key + ":refusal", desc, "one exact draw of the local Gaussian approximation", f"{type(ex).__name__}: {str(ex)[:120]}",
                             "UGLA fails on a valid configuration history / array argument")
                    continue
                mq, Cq = reference(beta_new)
                if _relerr(m0, mq) > TOL:
                    ctx.fail(key + ":mean", desc, mq.tolist(), m0.tolist(),
                             "offset of the UGLA draw is not the mean of the documented local approximation for the CURRENT settings (maxit, tol, beta)")
                if _relerr(B @ B.T, Cq) > TOL:
                    ctx.fail(key + ":cov", desc, Cq.tolist(), (B @ B.T).tolist(),
                             "B Bᵀ of the UGLA draw is not the covariance of the documented local approximation for the CURRENT settings")



# ----------------------------------------------------------------------------- exact CGLS runs
def run_steps(ctx, cuqi, records, r, thorough):
    """the modelled CGLS (exact arithmetic, at most n+1 passes) against the implementation's converged step"""
    cand = [rec for rec in records if "impl" in rec and rec["model"].startswith("ok") and rec["cfg"]["n"] <= 4
            and sum(l["m"] for l in rec["cfg"]["liks"]) <= 8]
    cand = cand[: (20 if not thorough else 200)]
    lines, meta = [], []
    eps = Fraction(np.finfo(float).eps)
    for rec in cand:
        cfg = rec["cfg"]; n = cfg["n"]
        L1, L2, _ = rec["leaf"]
        # round the leaf factors to 20 bits so that exact rational CGLS stays small; the comparison below is model-internal
        m_impl, B_impl, e, xa, xb = rec["impl"]
        x0 = r.randint(-3, 4, size=n).astype(float)
        lines.append("step " + problem_tokens(cfg, L1, L2, rec["gmrfP"]) + f" {qv(e)} {qv(x0)} {n + 1} {q(Fraction(1, 10**26))} {q(eps)}")
        meta.append((rec, e, x0, xa))
    outs = ctx.lean.drive(lines)
    for (rec, e, x0, xa), o in zip(meta, outs):
        key, desc = rec["key"], {**rec["desc"], "e": e.tolist(), "x0": x0.tolist()}
        ctx.case("cgls-exact", desc)
        toks = o.split(" ")
        if toks[0] != "ok":
            ctx.disagree(key + ":cgls", desc, o[:60], "ran", "exact CGLS refused")
            oracle_rto(ctx, rec, key, desc, None)
            continue
        x = np.array([float(v) for v in pv(toks[1])])
        if relerr(x, xa) > TOL:
            ctx.disagree(key + ":cgls", desc, x.tolist(), xa.tolist(), "exact CGLS (≤ n+1 passes) vs the implementation's converged step")
            oracle_rto(ctx, rec, key, desc, None)


# ----------------------------------------------------------------------------- UGLA
class _SkipChain(Exception):
    pass


class _SkipConfig(Exception):
    pass


def run_ugla(ctx, cuqi, r, thorough):
    from cuqi.distribution import Gaussian, LMRF, JointDistribution
    from cuqi.model import LinearModel
    import cuqi.experimental.mcmc as em
    import cuqi.sampler as ls
    n_plain = 50 if not thorough else 50 * ctx.scale * 2
    n_scaled = 24 if not thorough else 24 * ctx.scale * 2
    n_hist = 10 if not thorough else 10 * ctx.scale
    ncfg = n_plain + n_scaled + n_hist
    lines, meta = [], []
    for c in range(ncfg):
        n = int(r.randint(2, 6)); m = int(r.randint(n, n + 3))
        A = r.randint(-2, 3, size=(m, n)).astype(float) + np.vstack([np.eye(n) * 3.0, np.zeros((m - n, n))])
        d = (r.randint(-6, 7, size=m) / 2.0).astype(float)
        sp = gen_spec(r, m)
        bc = ["zero", "neumann", "periodic"][r.randint(3)]
        scale = float(r.choice([1.0, 0.25, 4.0, 0.5, 2.0]))
        beta = float(r.choice([1.0, 0.0625, 1e-2, 1e-5]))
        locmode = ["zero", "const", "vector", "scalar"][r.randint(4)]
        if locmode == "zero":
            loc = np.zeros(n)
        elif locmode in ("const", "scalar"):
            loc = np.repeat(float(r.randint(1, 4)), n)
        else:
            loc = r.randint(-2, 3, size=n).astype(float)
            if not np.ptp(loc):
                loc[0] += 1.0
        iface = ["exp", "legacy"][r.randint(2)]
        xk = (r.randint(-4, 5, size=n) / 2.0).astype(float)
        if np.linalg.cond(A.T @ sp["doc_prec"] @ A) > 1e5:
            continue
        mode = "plain" if c < n_plain else ("scaled" if c < n_plain + n_scaled else "history")
        scales = None
        if mode == "scaled":
            # noise std, LMRF scale and the data/state magnitude scaled by powers of ten; locations with D·location = 0 only
            pw = lambda lo, hi: 10.0 ** int(r.randint(lo, hi + 1)) * float(r.choice([1.0, 2.0, 5.0]))
            fn, fd = pw(-5, 5), pw(-3, 3)
            scale = pw(-4, 4)
            sp = scale_spec(sp, fn)
            d = (d + 1.0) * fd; xk = xk * fd; beta = beta * fd * fd
            if locmode == "vector" or (bc == "zero" and locmode != "zero"):
                locmode = "zero"; loc = np.zeros(n)
            loc = loc * fd
            scales = {"noise_std": fn, "lmrf_scale": scale, "data": fd}
        hist0 = None
        if mode == "history":
            # round 1 parameters (re-assigned below on the objects the posterior holds)
            hist0 = {"sp": gen_spec(r, m, force=(sp["kind"], ["scalar", "vector", "diag", "full"][r.randint(4)])),
                     "scale": float(r.choice([0.125, 8.0, 3.0])), "loc": np.repeat(float(r.randint(-3, 0)), n)}
            if locmode == "vector" or (bc == "zero" and locmode != "zero"):
                locmode = "zero"; loc = np.zeros(n)
            if locmode == "scalar":
                locmode = "const"
        desc = {"iface": iface, "n": n, "m": m, "A": A.tolist(), "d": d.tolist(), "lik": sp["tag"], "value": np.asarray(sp["value"]).tolist(),
                "bc": bc, "scale": scale, "beta": beta, "location": loc.tolist(), "locmode": locmode, "x_k": xk.tolist(), "mode": mode,
                "scales": scales, "round1": None if hist0 is None else {"lik": np.asarray(hist0["sp"]["value"]).tolist(), "scale": hist0["scale"],
                                                                         "location": hist0["loc"].tolist()}}
        try:
            with quiet():
                if mode == "history":
                    from cuqi.distribution import Posterior
                    x = LMRF(location=hist0["loc"], scale=hist0["scale"], bc_type=bc, geometry=n, name="x")
                    y = Gaussian(mean=LinearModel(A.copy())(x), name="y", **spec_kwargs(hist0["sp"]))
                    post = Posterior(y.to_likelihood(d), x)
                    if iface == "exp":
                        s1 = em.UGLA(post, initial_point=xk.copy(), maxit=maxit_for(n), tol=1e-13, beta=beta); s1.initialize(); s1.step()
                    else:
                        ls.UGLA(post, x0=xk.copy(), maxit=maxit_for(n), tol=1e-13, beta=beta).sample(2)
                    # ---- re-assignment on the objects the posterior holds
                    setattr(post.likelihood.distribution, sp["kind"], sp["value"])
                    post.prior.scale = scale
                    post.prior.location = loc.copy()
                else:
                    x = LMRF(location=(float(loc[0]) if locmode == "scalar" else loc), scale=scale, bc_type=bc, geometry=n, name="x")
                    y = Gaussian(mean=LinearModel(A.copy())(x), name="y", **spec_kwargs(sp))
                    post = JointDistribution(x, y)(y=d)
                D = dense(x._diff_op.get_matrix())
                p = D.shape[0]
                N = m + p
                maxit, tol = maxit_for(n), 1e-13

                def step(e, x0, init=None):
                    """one step from state x0 of a fresh sampler (exp: built and initialised at `init`, default 0)"""
                    if iface == "exp":
                        s = em.UGLA(post, initial_point=np.zeros(n) if init is None else np.array(init, dtype=float), maxit=maxit, tol=tol, beta=beta)
                        s.initialize()
                        s.current_point = np.array(x0, dtype=float)
                        with patched_randn(e) as sr:
                            s.step()
                        assert sr.calls == 1
                        return np.array(s.current_point, dtype=float)
                    rng = ScriptedRng(e)
                    s = ls.UGLA(post, x0=np.array(x0, dtype=float), maxit=maxit, tol=tol, beta=beta, rng=rng)
                    res = s.sample(2)
                    assert rng.calls == 1
                    return np.array(res.samples[:, 1], dtype=float)

                def chain(draws, x_init):
                    """len(draws) CONSECUTIVE steps of ONE sampler object started at x_init; returns the states"""
                    if iface == "exp":
                        s = em.UGLA(post, initial_point=np.array(x_init, dtype=float), maxit=maxit, tol=tol, beta=beta)
                        s.initialize()
                        out = []
                        with patched_randn(list(draws)) as sr:
                            for _ in draws:
                                s.step()
                                out.append(np.array(s.current_point, dtype=float))
                        assert sr.calls == len(draws)
                        return out
                    rng = ScriptedRng(list(draws))
                    s = ls.UGLA(post, x0=np.array(x_init, dtype=float), maxit=maxit, tol=tol, beta=beta, rng=rng)
                    res = s.sample(len(draws) + 1)
                    assert rng.calls == len(draws)
                    return [np.array(res.samples[:, t + 1], dtype=float) for t in range(len(draws))]
                L1 = dense(post.likelihood.distribution.sqrtprec)
                tvec, sm = np.ones(N), 1.0
                if mode == "scaled":
                    wq = 1.0 / np.sqrt((D @ (xk - loc)) ** 2 + beta)
                    Pq = (D.T * wq) @ D / scale
                    if np.linalg.cond(A.T @ sp["doc_prec"] @ A + Pq) > 1e5:
                        raise _SkipConfig()        # float comparisons need a moderate condition number
                    Cq = np.linalg.inv(A.T @ sp["doc_prec"] @ A + Pq); mq = Cq @ (A.T @ sp["doc_prec"] @ d + Pq @ loc)
                    Mq = np.vstack([L1 @ A, math.sqrt(1.0 / scale) * (np.sqrt(wq)[:, None] * D)])
                    # the step starts at x_k (the state IS the input): errors are measured on the scale of the posterior and of x_k
                    sm = max(float(np.max(np.abs(mq))), math.sqrt(float(np.max(np.diag(Cq)))), float(np.max(np.abs(xk))))
                    col = np.max(np.abs(Cq @ Mq.T), axis=0)
                    tvec = np.where(col > 0, sm / np.where(col > 0, col, 1.0), 1.0)
                m0 = step(np.zeros(N), xk)
                B = np.zeros((n, N))
                for j in range(N):
                    e = np.zeros(N); e[j] = tvec[j]
                    B[:, j] = (step(e, xk) - m0) / tvec[j]
                chain_rec = None
                if mode == "scaled":
                    raise _SkipChain()
                # the same step from the same state, sampler built with another history (initial point = the state itself)
                m0_alt = step(np.zeros(N), xk, init=xk)
                # a chain of three consecutive steps of one object; the affine map of steps 2 and 3 is re-read by
                # re-running the prefix with the same scripted draws
                x_init = (r.randint(-4, 5, size=n) / 2.0).astype(float)
                f1, f2 = r.randint(-2, 3, size=N).astype(float), r.randint(-2, 3, size=N).astype(float)
                z = np.zeros(N)
                x1 = chain([f1], x_init)[0]
                c2 = chain([f1, z], x_init); m2 = c2[1]
                c3 = chain([f1, f2, z], x_init); x2, m3 = c3[1], c3[2]
                B3 = np.zeros((n, N))
                for j in range(N):
                    e = np.zeros(N); e[j] = 1.0
                    B3[:, j] = chain([f1, f2, e], x_init)[2] - m3
                # fresh single steps from the states the chain steps started from
                m2_fresh = step(z, x1); m3_fresh = step(z, x2)
                B3_fresh = np.zeros((n, N))
                for j in range(N):
                    e = np.zeros(N); e[j] = 1.0
                    B3_fresh[:, j] = step(e, x2) - m3_fresh
                chain_rec = {"x_init": x_init, "f": [f1, f2], "x1": x1, "x2": x2, "m2": m2, "m3": m3, "B3": B3,
                             "m2_fresh": m2_fresh, "m3_fresh": m3_fresh, "B3_fresh": B3_fresh, "m0_alt": m0_alt}
        except _SkipChain:
            pass
        except _SkipConfig:
            continue
        except Exception as ex:
            ctx.case(f"ugla-{iface}", desc)
            ctx.note(f"UGLA refused {desc['iface']} {bc} loc={locmode}: {type(ex).__name__}: {str(ex)[:120]}")
            ctx.disagree(f"ugla:{iface}:{bc}:loc-{locmode}:refusal", desc, "accepted", repr(ex)[:120], "UGLA refuses a valid target")
            ctx.fail(f"ugla:{iface}:{bc}:loc-{locmode}:refusal", desc, "one local Gaussian draw", repr(ex)[:120], "UGLA cannot step on a valid target")
            continue
        # leaf values (floats of the code's formulas) and documented weights
        t = D @ xk
        w = np.sqrt(1.0 / np.sqrt(t ** 2 + beta))
        s_ = math.sqrt(1.0 / scale)
        tdoc = D @ (xk - loc)
        wdoc = 1.0 / np.sqrt(tdoc ** 2 + beta)
        lines.append(f"ugla {n} {m} {qm(A)} {qv(d)} {qm(L1)} {spec_token(sp)} {p} {qm(D)} {qv(loc)} {q(s_)} {qv(w)} {q(1.0 / scale)} {qv(wdoc)}")
        Dloc_zero = not np.any(D @ loc)
        meta.append((desc, iface, bc, locmode, Dloc_zero, scale, m0, B, A, d, sp, D, loc, wdoc, chain_rec, beta, mode, tvec, sm))
    outs = ctx.lean.drive(lines)
    hist = {}
    for (desc, iface, bc, locmode, Dloc_zero, scale, m0, B, A, d, sp, D, loc, wdoc, ch, beta, mode, tvec, sm), o in zip(meta, outs):
        ctx.case(f"ugla-{iface}" if mode == "plain" else f"ugla-{mode}-{iface}", desc)
        if ch is not None:
            ctx.case(f"ugla-chain-{iface}", {**desc, "x_init": ch["x_init"].tolist(), "draws": [v.tolist() for v in ch["f"]]})
        if mode == "scaled":
            # purely relative comparisons: offsets relative to the mean's magnitude, columns on the displacement of their probe
            relerr = lambda a_, b_: (float(np.max(np.abs(np.asarray(a_) - np.asarray(b_))) / max(np.max(np.abs(a_)), np.max(np.abs(b_)), sm))
                                     if np.ndim(a_) == 1 else _relerr(a_, b_, rel=True))
            relB = lambda a_, b_: float(np.max(np.max(np.abs(np.asarray(a_) - np.asarray(b_)), axis=0) * tvec) / sm) if np.shape(a_) == np.shape(b_) else float("inf")
        else:
            relerr = lambda a_, b_: _relerr(a_, b_)
            relB = relerr
        cls = "Dloc=0" if Dloc_zero else ("Dloc!=0:scale=1" if scale == 1.0 else "Dloc!=0:scale!=1")
        hist[cls] = hist.get(cls, 0) + 1
        key = ("" if mode == "plain" else mode + ":") + f"ugla:{iface}:{bc}:{cls}"
        toks = o.split(" ")
        nfail0, ndis0 = len(ctx.failures), len(ctx.disagreements)
        # harness-side float evaluation of the documented local Gaussian
        Lam = sp["doc_prec"]
        Pp = (D.T * wdoc) @ D / scale
        Hd = A.T @ Lam @ A + Pp
        Cd_f = np.linalg.inv(Hd); md_f = Cd_f @ (A.T @ Lam @ d + Pp @ loc)
        bad = False
        if toks[0] != "ok":
            ctx.disagree(key + ":refusal", desc, o[:60], "accepted", "model finds the stacked operator rank deficient")
            bad = True
            md, Cd = md_f, Cd_f
        else:
            mm = np.array([float(v) for v in pv(toks[2])]); Bm = fl(pm(toks[3]))
            if toks[1] != "1":
                ctx.disagree(key + ":adjoint", desc, "flag 2 is not the transpose of flag 1", "-", "UGLA stacked operator"); bad = True
            if relerr(m0, mm) > TOL:
                ctx.disagree(key + ":offset", desc, mm.tolist(), m0.tolist(), "offset of UGLA's affine map"); bad = True
                if ch is not None and relerr(m0, ch["m0_alt"]) > TOL:
                    ctx.fail(key + ":offset", {**desc, "initial_points": [[0.0] * len(m0), desc["x_k"]]}, ch["m0_alt"].tolist(), m0.tolist(),
                             "the draw from the state x_k depends on the point the sampler was initialised at: it is not a draw "
                             "from a Gaussian approximation at the current state")
            if relB(B, Bm) > TOL:
                ctx.disagree(key + ":columns", desc, "model B", "differs", "linear part of UGLA's affine map"); bad = True
            if toks[5] == "singular":
                md, Cd = md_f, Cd_f
            else:
                md = np.array([float(v) for v in pv(toks[5])]); Cd = fl(pm(toks[6]))
                if relerr(md, md_f) > 1e-7 or relerr(Cd, Cd_f) > 1e-7:
                    ctx.note(f"UGLA documented moments: harness float evaluation and model differ at {key}")
        # oracle: exact draw from the documented local Gaussian approximation at the current state
        if relerr(m0, md) > TOL:
            ctx.fail(key + ":mean", desc, np.asarray(md).tolist(), m0.tolist(),
                     "offset of the UGLA draw is not the mean of the documented local Gaussian approximation at the current state")
        if relerr(B @ B.T, Cd) > TOL:
            ctx.fail(key + ":cov", desc, np.asarray(Cd).tolist(), (B @ B.T).tolist(),
                     "B Bᵀ of the UGLA draw is not the covariance of the documented local Gaussian approximation at the current state")
        explain_ties(ctx, key, desc, [d_["key"] for d_ in ctx.disagreements[ndis0:]], nfail0)
        if ch is None:
            continue
        # ---- consecutive steps of one object (the state has moved): the draw must be a function of the current state alone ...
        hkey = f"ugla:{iface}:{bc}:chain:history"
        cdesc = {**desc, "x_init": ch["x_init"].tolist(), "prefix_draws": [v.tolist() for v in ch["f"]],
                 "state_before_step2": ch["x1"].tolist(), "state_before_step3": ch["x2"].tolist()}
        if relerr(m0, ch["m0_alt"]) > TOL:
            ctx.fail(hkey, {**cdesc, "what": "single step from x_k, sampler initialised at 0 vs at x_k"}, ch["m0_alt"].tolist(), m0.tolist(),
                     "UGLA draw from a given current state depends on the sampler's initial point")
        for nm, a, b_ in (("step 2 offset", ch["m2"], ch["m2_fresh"]), ("step 3 offset", ch["m3"], ch["m3_fresh"]),
                          ("step 3 linear part", ch["B3"], ch["B3_fresh"])):
            if relerr(a, b_) > TOL:
                ctx.fail(hkey, {**cdesc, "what": nm}, np.asarray(b_).tolist(), np.asarray(a).tolist(),
                         f"{nm} of a chain differs from the same step taken by a fresh sampler from the same current state: "
                         "the draw is not a draw from the local Gaussian approximation at the CURRENT state")
                break
        # ---- ... and, where the code's known location defect is invisible (D·location = 0), exactly the documented one at that state
        if Dloc_zero:
            for nm, xs, mo, Bo in (("step 2", ch["x1"], ch["m2"], None), ("step 3", ch["x2"], ch["m3"], ch["B3"])):
                wd = 1.0 / np.sqrt((D @ (xs - loc)) ** 2 + beta)
                Pq = (D.T * wd) @ D / scale
                Cq = np.linalg.inv(A.T @ Lam @ A + Pq); mq = Cq @ (A.T @ Lam @ d + Pq @ loc)
                if relerr(mo, mq) > TOL:
                    ctx.fail(f"ugla:{iface}:{bc}:Dloc=0:chain:mean", {**cdesc, "what": nm}, mq.tolist(), mo.tolist(),
                             f"offset of {nm} of a chain is not the mean of the documented local Gaussian approximation at the state the step started from")
                if Bo is not None and relerr(Bo @ Bo.T, Cq) > TOL:
                    ctx.fail(f"ugla:{iface}:{bc}:Dloc=0:chain:cov", {**cdesc, "what": nm}, Cq.tolist(), (Bo @ Bo.T).tolist(),
                             f"B Bᵀ of {nm} of a chain is not the covariance of the documented local Gaussian approximation at the state the step started from")
    ctx.extra_cov["ugla_classes"] = hist


# ----------------------------------------------------------------------------- refusals
def run_validation(ctx, cuqi, r):
    """malformed targets: the class of the refusal is compared with the model's validation table"""
    from cuqi.distribution import Gaussian, LMRF, Laplace, JointDistribution, Posterior
    from cuqi.model import LinearModel, Model
    import cuqi.experimental.mcmc as em
    import cuqi.sampler as ls
    n, m = 3, 4
    A = r.randint(-2, 3, size=(m, n)).astype(float)
    d = np.ones(m)

    def mk(prior, linear=True, gaussian_lik=True):
        with quiet():
            if prior == "gauss":
                x = Gaussian(np.zeros(n), cov=1.0, name="x")
            elif prior == "lmrf":
                x = LMRF(0, 1.0, geometry=n, name="x")
            else:
                x = Laplace(np.zeros(n), 1.0, name="x")
            Mo = LinearModel(A) if linear else Model(lambda x: A @ x, range_geometry=m, domain_geometry=n)
            if gaussian_lik:
                y = Gaussian(mean=Mo(x), cov=1.0, name="y")
            else:
                y = Laplace(Mo(x), 1.0, name="y")
            return JointDistribution(x, y)(y=d), x
    cases = []
    for prior in ("gauss", "lmrf", "laplace"):
        for linear in (True, False):
            for glik in (True, False):
                cases.append((prior, linear, glik))
    lines, meta = [], []
    for prior, linear, glik in cases:
        for sampler in ("rto", "ugla"):
            for iface in ("exp", "legacy"):
                for tkind in ("posterior", "other"):
                    if tkind == "other" and not (linear and glik):
                        continue
                    try:
                        post, x = mk(prior, linear, glik)
                    except Exception as ex:
                        continue
                    target = post if tkind == "posterior" else x
                    has_sqrt = glik
                    if sampler == "rto":
                        lines.append(f"validate rto {tkind} 1 {int(linear)} {int(has_sqrt)} {int(prior == 'gauss')} {int(prior == 'gauss')}")
                    else:
                        lines.append(f"validate ugla {tkind} {int(linear)} {int(has_sqrt)} {int(prior == 'lmrf')}")
                    meta.append((sampler, iface, tkind, prior, linear, glik, target))
    # a few malformed protocol lines: the driver must answer bad-op, not a default
    junk = ["validate rto posterior 1 1 1", "validate ugla posterior 1 2 1", "rto 2 1 1", "ugla 2", "step", "validate rto nothing 0 1 1"]
    outs = ctx.lean.drive(lines + junk)
    for j, o in zip(junk, outs[len(lines):]):
        ctx.case("protocol-junk", {"line": j}, nontrivial=False)
        if o != "bad-op":
            ctx.disagree("driver:junk", {"line": j}, o, "bad-op", "driver defaulted on an unparsable line")
    for (sampler, iface, tkind, prior, linear, glik, target), o in zip(meta, outs):
        desc = {"sampler": sampler, "iface": iface, "target": tkind, "prior": prior, "linear_model": linear, "gaussian_likelihood": glik}
        ctx.case("validate", desc)
        try:
            with quiet():
                if sampler == "rto":
                    s = em.LinearRTO(target) if iface == "exp" else ls.LinearRTO(target)
                else:
                    s = em.UGLA(target) if iface == "exp" else ls.UGLA(target)
            impl = "ok"
        except (ValueError, TypeError) as ex:
            impl = type(ex).__name__
        except Exception as ex:
            impl = "other:" + type(ex).__name__
        key = f"validate:{sampler}:{iface}:{tkind}:{prior}:lin{int(linear)}:g{int(glik)}"
        if impl != o:
            ctx.disagree(key, desc, o, impl, "class of the refusal")
            # oracle: a target outside the sampler's class must be refused, one inside accepted
            inside = (tkind == "posterior" and linear and glik and ((sampler == "rto" and prior == "gauss") or (sampler == "ugla" and prior == "lmrf")))
            if inside != (impl == "ok"):
                ctx.fail(key, desc, "accepted" if inside else "refused", impl, "sampler accepts a target outside its class / refuses one inside")
