"""C11 helper — generated user programs on originals WITHOUT an explicit `name=`.

The random programs of c11.py give every distribution an explicit name (the heap model's `nameOf` reads the
stored name through `_original_density`).  Here the name is the one cuqi infers lazily from the Python variable
the original is bound to, and the point is WHEN it is first looked up: a conditioned copy carries only a
shallow snapshot of the private `_name` field of its original (possibly still None), while the property demands
that everything derived from an original — conditioned copies, likelihoods, and the evaluated density left when
everything is fixed — reports the random-variable name of that original.

Each program is generated as Python SOURCE and executed with `exec` in a fresh namespace, so the originals and
the derived objects are bound to real variables (cuqi's stack search finds them in that frame; the helpers of
this module only use variable names with the prefixes the search ignores).  Every program is run in four
variants: explicit name (`name='<var>'`), and inferred name with the first explicit look-up `<var>.name` placed
(a) right after construction, (b) after the first derived object, (c) nowhere.  Demanded (oracle, implementation
only): in all variants every derived object reports the name of its root original, and all facts (type, name,
parameter names, `distribution.name`, fixed variables of a joint built from it, logd) coincide with those of
the explicit-name variant.  Model statement: `copy_keeps_name` / `name_preserved` (names are read through the
back-pointer, at any depth).
"""
import numpy as np
from harness.core import quiet

KINDS = ["data-fn", "data-model", "hyper", "two", "gamma", "lognormal", "reg"]
ROOT_NAMES = ["y", "w", "u", "b"]
DERIVED_NAMES = ["E", "L", "yc", "t", "k", "r", "q", "h", "m2", "dd"]


def _ctor(kind, root, named):
    nm = f", name='{root}'" if named else ""
    if kind == "data-fn":
        return [f"{root} = Gaussian(lambda x: x, 1.0, geometry=3{nm})"], ["x"], "vec"
    if kind == "data-model":
        return [f"A = LinearModel(_Amat)", f"{root} = Gaussian(A, 0.1{nm})"], ["x"], "vec"
    if kind == "hyper":
        return [f"{root} = Gaussian(np.zeros(3), lambda s: s{nm})"], ["s"], "vec"
    if kind == "two":
        return [f"{root} = Gaussian(lambda x: x, lambda s: s, geometry=3{nm})"], ["x", "s"], "vec"
    if kind == "gamma":
        return [f"{root} = Gamma(lambda a: a, 1.0{nm})"], ["a"], "pos1"
    if kind == "lognormal":
        return [f"{root} = Lognormal(lambda z: z, 1.0 * np.eye(3){nm})"], ["z"], "posvec"
    if kind == "reg":
        return [f"{root} = RegularizedGaussian(np.zeros(3), lambda s: s, constraint='nonnegativity'{nm})"], ["s"], "posvec"
    raise ValueError(kind)


VALS = {"x": ["_x0", "_x1"], "s": ["2.0", "0.5"], "a": ["2.0", "3.0"], "z": ["_x0", "_x1"]}
DATA = {"vec": ["_d0", "_d1"], "pos1": ["np.array([0.7])", "np.array([1.3])"], "posvec": ["_p0", "_p1"]}


def gen_program(rng):
    """symbolic program: (kind, root variable, list of steps); a step is (target variable, receiver, op, arguments)"""
    kind = rng.choice(KINDS)
    root = rng.choice(ROOT_NAMES)
    _, cvs, dkind = _ctor(kind, root, True)
    objs = {root: ("dist", list(cvs))}           # variable -> (class, remaining conditioning variables)
    steps = []
    free = [n for n in DERIVED_NAMES if n != root]
    rng.shuffle(free)
    n_steps = rng.randint(2, 5)
    for _ in range(n_steps):
        if not free:
            break
        recv = rng.choice([v for v in objs if objs[v][0] in ("dist", "lik")] or [root])
        cls, cv = objs[recv]
        ops = []
        if cls == "dist":
            ops += ["cond_name", "cond_name", "tolik", "empty"]
            if cv:
                ops += ["cond_sub", "cond_sub", "cond_all"]
        elif cls == "lik":
            ops += ["lik_cond", "lik_cond", "empty"]
        op = rng.choice(ops)
        tgt = free.pop()
        if op == "cond_sub":
            sub = rng.sample(cv, rng.randint(1, len(cv)))
            kw = {k: rng.choice(VALS[k]) for k in sub}
            objs[tgt] = ("dist", [k for k in cv if k not in sub])
            steps.append((tgt, recv, op, kw))
        elif op == "cond_all":
            kw = {k: rng.choice(VALS[k]) for k in cv}
            kw[root] = rng.choice(DATA[dkind])
            objs[tgt] = ("eval", [])
            steps.append((tgt, recv, op, kw))
        elif op == "cond_name":
            kw = {root: rng.choice(DATA[dkind])}
            objs[tgt] = ("lik", list(cv)) if cv else ("eval", [])
            steps.append((tgt, recv, op, kw))
        elif op == "tolik":
            objs[tgt] = ("lik", list(cv)) if cv else ("eval", [])
            steps.append((tgt, recv, op, {"__data__": rng.choice(DATA[dkind])}))
        elif op == "lik_cond":
            sub = rng.sample(cv, rng.randint(1, len(cv))) if cv else []
            kw = {k: rng.choice(VALS[k]) for k in sub}
            rest = [k for k in cv if k not in sub]
            objs[tgt] = ("lik", rest) if rest else ("eval", [])
            steps.append((tgt, recv, op, kw))
        else:
            objs[tgt] = (cls, list(cv))
            steps.append((tgt, recv, "empty", {}))
    # make sure at least one object with everything fixed is produced (the evaluated density)
    if not any(c == "eval" for c, _ in objs.values()) and free:
        cands = [v for v in objs if objs[v][0] in ("dist", "lik")]
        recv = rng.choice(cands)
        cls, cv = objs[recv]
        tgt = free.pop()
        kw = {k: rng.choice(VALS[k]) for k in cv}
        if cls == "dist":
            kw[root] = rng.choice(DATA[dkind])
        if cls == "lik" and not cv:
            pass
        else:
            objs[tgt] = ("eval", [])
            steps.append((tgt, recv, "cond_all" if cls == "dist" else "lik_cond", kw))
    return kind, root, steps, objs


def source(kind, root, steps, objs, variant):
    """variant: 'named' | 'lookup-first' | 'lookup-mid' | 'lookup-never'"""
    lines, _, _ = _ctor(kind, root, variant == "named")
    lines = list(lines)
    if variant == "lookup-first":
        lines.append(f"{root}.name")
    for i, (tgt, recv, op, kw) in enumerate(steps):
        if op == "tolik":
            lines.append(f"{tgt} = {recv}.to_likelihood({kw['__data__']})")
        else:
            lines.append(f"{tgt} = {recv}(" + ", ".join(f"{k}={v}" for k, v in kw.items()) + ")")
        if i == 0 and variant == "lookup-mid":
            lines.append(f"{root}.name")
    for tgt, _, _, _ in steps:
        lines.append(f"_facts['{tgt}'] = _fact_fn({tgt})")
    # a joint built from the first fully fixed density: its fixed variables are looked up by name
    ev = [t for t, _, _, _ in steps if objs[t][0] == "eval"]
    if ev:
        lines.append("_zz = Gaussian(np.zeros(2), 1.0, name='zz')")
        lines.append(f"_facts['<joint>'] = _joint_fn({ev[0]}, _zz)")
    return "\n".join(lines)


def _canon(obj_v):
    if isinstance(obj_v, Exception):
        return "exc:" + type(obj_v).__name__
    try:
        return ["nan" if obj_v_i != obj_v_i else repr(round(float(obj_v_i), 9)) for obj_v_i in np.asarray(obj_v, dtype=float).ravel()]
    except Exception:  # noqa
        return "obj:" + type(obj_v).__name__


def _try(obj_f):
    try:
        return obj_f()
    except Exception as obj_e:  # noqa
        return obj_e


def make_namespace(cuqi):
    from cuqi.distribution import Gaussian, Gamma, Lognormal, JointDistribution
    from cuqi.implicitprior import RegularizedGaussian
    from cuqi.model import LinearModel
    probe = {"x": np.array([0.5, -1.0, 2.0]), "s": np.array([2.0]), "a": np.array([2.0]), "z": np.array([0.1, 0.2, 0.3])}

    def _fact_fn(obj):
        out = {"type": type(obj).__name__}
        obj_n = _try(lambda: obj.name)
        out["name"] = "exc:" + type(obj_n).__name__ if isinstance(obj_n, Exception) else obj_n
        obj_p = _try(lambda: list(obj.get_parameter_names()))
        out["params"] = "exc:" + type(obj_p).__name__ if isinstance(obj_p, Exception) else obj_p
        obj_d = getattr(obj, "distribution", None)
        if obj_d is not None:
            obj_dn = _try(lambda: obj_d.name)
            out["distribution.name"] = "exc:" + type(obj_dn).__name__ if isinstance(obj_dn, Exception) else obj_dn
        if isinstance(obj_p, list) and all(isinstance(obj_k, str) for obj_k in obj_p):
            obj_kw = {}
            for obj_k in obj_p:
                if obj_k in probe:
                    obj_kw[obj_k] = probe[obj_k]
                else:
                    obj_kw[obj_k] = np.array([0.4, 0.6, 0.8]) if out["type"] != "Gamma" else np.array([0.7])
            out["logd"] = _canon(_try(lambda: obj.logd(**obj_kw)))
        return out

    def _joint_fn(obj, obj_z):
        obj_j = _try(lambda: JointDistribution(obj, obj_z))
        if isinstance(obj_j, Exception):
            return {"joint": "exc:" + type(obj_j).__name__}
        return {"fixed": _try(lambda: sorted(map(str, obj_j._get_fixed_variables()))), "params": _try(lambda: list(obj_j.get_parameter_names()))}

    return {"np": np, "Gaussian": Gaussian, "Gamma": Gamma, "Lognormal": Lognormal, "RegularizedGaussian": RegularizedGaussian,
            "LinearModel": LinearModel, "JointDistribution": JointDistribution,
            "_Amat": np.array([[1.0, 2.0, 0.5], [0.0, 1.0, 3.0], [2.0, 0.0, 1.0]]),
            "_x0": np.array([0.5, -1.0, 2.0]), "_x1": np.array([0.25, 0.5, 1.5]), "_d0": np.array([0.1, 0.2, -0.4]), "_d1": np.array([1.0, 0.0, 0.5]),
            "_p0": np.array([0.5, 1.0, 2.0]), "_p1": np.array([1.5, 0.25, 1.0]),
            "_facts": {}, "_fact_fn": _fact_fn, "_joint_fn": _joint_fn}


def run_variant(cuqi, src):
    ns_ = make_namespace(cuqi)
    try:
        with quiet():
            exec(compile(src, "<c11-inferred-name-program>", "exec"), ns_)
        return ns_["_facts"]
    except Exception as obj_e:  # noqa
        return {"<program>": "exc:" + type(obj_e).__name__ + ":" + str(obj_e)[:80]}
    finally:
        ns_.clear()


def inferred_name_programs(ctx, cuqi, n):
    import random
    hist = {}
    for i in range(n):
        rng = random.Random(f"C11-names-{ctx.seed}-{i}")
        kind, root, steps, objs = gen_program(rng)
        if not steps:
            continue
        srcs = {v: source(kind, root, steps, objs, v) for v in ("named", "lookup-first", "lookup-mid", "lookup-never")}
        ref = run_variant(cuqi, srcs["named"])
        ctx.case("inferred-name-program", {"program": i, "seed": ctx.seed, "kind": kind, "source": srcs["lookup-never"]})
        for _, _, op, _ in steps:
            hist[op] = hist.get(op, 0) + 1
        hist["kind:" + kind] = hist.get("kind:" + kind, 0) + 1
        for t in ref:
            if isinstance(ref[t], dict) and ref[t].get("type") == "EvaluatedDensity":
                hist["evaluated-density"] = hist.get("evaluated-density", 0) + 1
        if "<program>" in ref:
            ctx.note(f"inferred-name program {i} ({kind}): explicit-name variant refused: {ref['<program>']}")
            continue
        for variant in ("lookup-first", "lookup-mid", "lookup-never"):
            got = run_variant(cuqi, srcs[variant])
            bad = None
            for tgt, recv, op, kw in steps:
                f = got.get(tgt)
                if not isinstance(f, dict) or f.get("name") != root or f.get("distribution.name", root) != root:
                    bad = (tgt, op, "name", root, f if not isinstance(f, dict) else {k: f.get(k) for k in ("type", "name", "distribution.name") if k in f})
                    break
            if bad is None and got != ref:
                tgt = next((t for t in ref if got.get(t) != ref.get(t)), "<program>")
                op = next((o for t, _, o, _ in steps if t == tgt), "joint")
                bad = (tgt, op, "facts", ref.get(tgt), got.get(tgt))
            if bad is not None:
                tgt, op, what, want, have = bad
                key = f"name:inferred:{kind}:{op}"
                desc = {"program": i, "seed": ctx.seed, "kind": kind, "variant": variant, "source": srcs[variant].split("\n"),
                        "object": tgt, "explicit_name_source": srcs["named"].split("\n")}
                ctx.disagree(key, desc, "model: a derived object reads its name through `_original_density` (copy_keeps_name, any depth), "
                             "independent of when the original's name was first looked up", have, f"{what} of `{tgt}` differ")
                ctx.fail(key, desc, want, have,
                         f"`{tgt}` (derived from the original `{root}` whose name is inferred from the Python variable) does not carry the "
                         f"random-variable name / facts it has when `{root}` is given the explicit name '{root}'")
                break
    ctx.extra_cov["inferred_name_programs"] = hist
