"""C08, session-3 second pass — non-Gaussian target in the transition tie (Model/C08_quartic.lean).

Target logd x = -x'Px/2 + b'x - (c/4) sum x_i^4 (log-concave, rational gradient): whole transitions of both interfaces under
scripted draws against the exact-rational model (driver op `nutsq`), depth bound <= 2 (the numbers cube at every leaf), plus
the implementation-only oracle: next state finite, on the independently computed float leapfrog orbit, inside the slice, caches
coherent, acceptance statistic = mean Metropolis probability over the last doubling (experimental interface).
"""
import math, sys
import numpy as np
from fractions import Fraction
from harness.core import quiet, q, qv, qm, pv, close, vclose


def make_qtarget(cuqi, P, b, c):
    P = np.array(P, float); b = np.array(b, float)
    def logpdf(x):
        x = np.asarray(x, float).ravel()
        return float(b @ x - 0.5 * x @ (P @ x) - 0.25 * c * np.sum(x ** 4))
    def grad(x):
        x = np.asarray(x, float).ravel()
        return b - P @ x - c * x ** 3
    return cuqi.distribution.UserDefinedDistribution(dim=len(b), logpdf_func=logpdf, gradient_func=grad), logpdf, grad


def quartic_stream(ctx, cuqi, rng, n):
    old = sys.get_int_max_str_digits()
    sys.set_int_max_str_digits(0)       # exact rationals of a cubic recursion have thousands of digits
    try:
        _quartic_stream(ctx, cuqi, rng, n)
    finally:
        sys.set_int_max_str_digits(old)


def _quartic_stream(ctx, cuqi, rng, n):
    from harness.props.c08 import gen_case, Script, scripted
    jobs = []; lines = []
    for i in range(n):
        c = gen_case(rng, False)
        c["wall"] = None; c["int_x0"] = False
        c["md"] = rng.choice([0, 1, 2, 2])
        c["eps"] = rng.choice([1 / 16, 1 / 8, 1 / 4, 1 / 2, 3 / 4, 1.0, 1.5])
        c["cq"] = rng.choice([1 / 4, 1 / 2, 1.0, 2.0, 4.0])
        c["x"] = [rng.randint(-6, 6) / 4 for _ in range(c["d"])]
        c["us"] = [rng.randint(1, 1023) / 1024 for _ in range(3 * 2 ** (c["md"] + 1) + 8)]
        iface = "exp" if i % 2 == 0 else "legacy"
        if iface == "legacy" and c["eps"] == 1.0:
            c["eps"] = 0.5
        jobs.append((c, iface))
        lines.append("nutsq 1 %d %s %s %s %s %s %s %s %s" % (c["md"], q(c["eps"]), qm(c["P"]), qv(c["b"]), q(c["cq"]), qv(c["x"]), qv(c["r"]), q(c["e"]), qv(c["us"])))
    outs = ctx.lean.drive(lines)
    hist = {"exp": 0, "legacy": 0, "acc": 0, "depth": {}, "skipped_margin": 0}
    for (c, iface), mo in zip(jobs, outs):
        desc = {k: c[k] for k in ("d", "P", "b", "cq", "eps", "md", "x", "r", "e")}; desc["iface"] = iface; desc["us_head"] = c["us"][:8]
        key = f"NUTS:{iface}:quartic"
        if mo in ("bad-op", "err-nonfinite-start"):
            continue
        f = [t.strip() for t in mo.split("|")]
        m_acc, m_x, m_nodes, m_cons, m_j, m_n, m_diffs, m_margin, m_logd, m_grad = f
        if float(Fraction(m_margin)) < 1e-7:
            hist["skipped_margin"] += 1; continue
        target, logpdf, grad = make_qtarget(cuqi, c["P"], c["b"], c["cq"])
        x0 = np.array(c["x"], float); r0 = np.array(c["r"], float)
        sc = Script([c["r"]], [c["e"]], c["us"])
        try:
            with quiet(), np.errstate(all="ignore"):
                if iface == "exp":
                    from cuqi.experimental.mcmc import NUTS
                    s = NUTS(target, initial_point=x0.copy(), max_depth=c["md"], step_size=c["eps"]); s._ensure_initialized()
                    with scripted(sc): s.sample(1)
                    xn = np.asarray(s.current_point, float).ravel(); nodes = s.num_tree_node_list[-1]
                else:
                    from cuqi.sampler import NUTS
                    s = NUTS(target, x0=x0.copy(), max_depth=c["md"], adapt_step_size=c["eps"])
                    with scripted(sc): xn = np.asarray(s.sample(2, 0).samples[:, 1], float).ravel()
                    nodes = s.num_tree_node_list[-1]
        except Exception as ex:
            ctx.disagree(key + ":crash", desc, mo[:60], repr(ex)[:200], "transition on the quartic target raised"); continue
        ctx.case(f"quartic-{iface}", desc)
        hist[iface] += 1; hist["acc"] += m_acc == "1"; hist["depth"][m_j] = hist["depth"].get(m_j, 0) + 1
        # ---- oracle (implementation only) ------------------------------------------------------------------------------------
        bad = False
        K = 2 ** (c["md"] + 1); eps = c["eps"]
        orbit = {0: (x0, logpdf(x0) - 0.5 * r0 @ r0)}
        with np.errstate(all="ignore"):
            for sgn in (1, -1):
                x, r = x0.copy(), r0.copy()
                for k in range(1, K + 1):
                    r = r + 0.5 * sgn * eps * grad(x); x = x + sgn * eps * r; r = r + 0.5 * sgn * eps * grad(x)
                    orbit[sgn * k] = (x.copy(), logpdf(x) - 0.5 * r @ r)
        logu = orbit[0][1] - c["e"]
        hit = [k for k, (xk, hk) in orbit.items() if np.all(np.isfinite(xk)) and np.allclose(xk, xn, rtol=1e-9, atol=1e-9)]
        if not np.all(np.isfinite(xn)) or not hit:
            ctx.fail(key, desc, "next state is a leapfrog iterate of the start", xn.tolist(), "selected point is not on the leapfrog orbit of the quartic target"); bad = True
        elif not (orbit[hit[0]][1] >= logu - 1e-9):
            ctx.fail(key, desc, f"H(selected) >= log u = {logu}", orbit[hit[0]][1], "selected candidate is outside the slice"); bad = True
        if iface == "exp" and not bad:
            l_true = logpdf(xn); g_true = grad(xn)
            if not close(float(s.current_target_logd), l_true, 1e-9) or not vclose(np.asarray(s.current_target_grad, float).ravel(), g_true, 1e-9):
                ctx.fail(key + ":cache", desc, {"logd": l_true, "grad": g_true.tolist()}, {"logd": float(s.current_target_logd), "grad": np.asarray(s.current_target_grad, float).ravel().tolist()},
                         "cached log-density/gradient do not belong to the current point (quartic target)"); bad = True
        # ---- tie ----------------------------------------------------------------------------------------------------------------
        mx = [float(v) for v in pv(m_x)]
        diff = None
        if not vclose(xn, mx, 1e-7): diff = ("next state", mx, xn.tolist())
        elif int(nodes) != int(m_nodes): diff = ("number of tree nodes", int(m_nodes), int(nodes))
        elif sc.n_rand != int(m_cons): diff = ("uniform draws consumed", int(m_cons), sc.n_rand)
        elif iface == "exp":
            terms = [(1.0 if float(Fraction(t)) > 0 else math.exp(float(Fraction(t)))) for t in m_diffs.split(",") if t]
            stat = sum(terms) / len(terms)
            if not close(float(s._current_alpha_ratio), stat, 1e-7):
                diff = ("acceptance statistic", stat, float(s._current_alpha_ratio))
                ctx.fail(key, desc, stat, float(s._current_alpha_ratio), "reported acceptance statistic is not the mean Metropolis probability over the last doubling (quartic target)"); bad = True
        if diff:
            ctx.disagree(key, desc, {diff[0]: diff[1]}, {diff[0]: diff[2]}, diff[0] + " differs from the model (quartic target)")
            if not bad and diff[0] == "number of tree nodes":
                ctx.fail(key, desc, {"tree nodes": int(m_nodes)}, {"tree nodes": int(nodes)}, "the trajectory does not stop at the first U-turn / divergence (quartic target)")
            elif not bad and diff[0] == "next state":
                # the draws are the same: a different visited leaf means a different integrator or a different selection rule; exhibit
                # the integrator: one `_Leapfrog` step of the implementation against the independent float step
                with quiet(), np.errstate(all="ignore"):
                    x1, r1, l1, g1 = s._Leapfrog(x0.copy(), r0.copy(), grad(x0), eps)
                rr = r0 + 0.5 * eps * grad(x0); xx = x0 + eps * rr; rr = rr + 0.5 * eps * grad(xx)
                if not (vclose(x1, xx, 1e-9) and vclose(r1, rr, 1e-9) and vclose(g1, grad(xx), 1e-9)):
                    ctx.fail(key, desc, {"x": xx.tolist(), "r": rr.tolist()}, {"x": np.asarray(x1).tolist(), "r": np.asarray(r1).tolist()},
                             "_Leapfrog is not the half/full/half leapfrog step of the target (non-linear gradient)")
    ctx.extra_cov["c08_quartic"] = hist
