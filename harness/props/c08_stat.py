"""C08, session-3 extension — the acceptance statistic alpha/n_alpha (Model/C08_stat.lean, Props/C08_stat.lean).

Two tie streams and an implementation-only oracle of the property clause
"the reported acceptance statistic is the mean Metropolis probability over the last doubling":

* tree_stat_stream: `_BuildTree` of both interfaces is called directly (direction, depth 0..4, slice level, step size
  from tiny to diverging, optional NaN/+inf/-inf wall) and its whole 13-tuple is compared with the model's
  `buildTreeStat` (driver op `treestat`): both ends with momenta and gradients, candidate with log-density and
  gradient, n', s', alpha' (the model's symbolic sum evaluated here), n_alpha', node counter, draws consumed.
* step_stat_stream: whole transitions; the statistic left behind by the last doubling (`_current_alpha_ratio`, legacy:
  alpha/n_alpha of the last top-level `_BuildTree` call) against `nutsStepStat` (driver op `nutsstat`).
* oracle (implementation only): the leaves of a (sub-)tree are re-computed by an independent float leapfrog from the very
  arguments the implementation passed to the top-level `_BuildTree` call; demanded: n_alpha' = number of target
  evaluations of that call, alpha' = sum of min(1, exp(H_k - H_0)) over those leaves (only when no leaf energy is NaN).
"""
import math
import numpy as np
from fractions import Fraction
from harness.core import quiet, q, qv, qm, pv, close, vclose

WALLVAL = {"nan": float("nan"), "inf": float("inf"), "-inf": float("-inf")}


def _wall_of(c):
    return "none" if c["wall"] is None else q(c["wall"]) + ":" + c.get("wall_kind", "nan")


def eval_statsum(ones, exps, zeros, nans):
    """float value of the model's symbolic sum (NaN if it carries a NaN mark)"""
    if int(nans) > 0:
        return float("nan")
    tot = float(int(ones))
    for d in (pv(exps) if exps != "_" else []):
        tot += math.exp(float(d))
    return tot


def leaf_energies(case, x, r, v, eps, k):
    """independent float leapfrog: energies H_1..H_k of the k leaves after (x, r) in direction v"""
    P = np.array(case["P"], float); b = np.array(case["b"], float)
    def lp(y):
        if case["wall"] is not None and y[0] > case["wall"]:
            return WALLVAL[case.get("wall_kind", "nan")]
        return float(b @ y - 0.5 * y @ (P @ y))
    x = np.array(x, float).copy(); r = np.array(r, float).copy(); e = v * eps
    out = []
    with np.errstate(all="ignore"):
        for _ in range(k):
            r = r + 0.5 * e * (b - P @ x); x = x + e * r; r = r + 0.5 * e * (b - P @ x)
            out.append(lp(x) - 0.5 * float(r @ r))
    return out


def metropolis_sum(hs, ham):
    tot = 0.0
    for h in hs:
        d = h - ham
        if d != d:
            return None         # a NaN energy: the clause says nothing (the code reports NaN, see docs)
        tot += 1.0 if d > 0 else math.exp(d)
    return tot


def make_logged_target(cuqi, case):
    """target whose log-density evaluations are counted (one per leaf: `_Leapfrog` evaluates the target once per step; periodic
    leapfrog orbits revisit points exactly, so evaluations cannot be de-duplicated by value)"""
    P = np.array(case["P"], float); b = np.array(case["b"], float)
    wall, kind = case["wall"], case.get("wall_kind", "nan")
    calls = {"n": 0, "last": None}

    def logpdf(x):
        x = np.asarray(x, dtype=float).ravel()
        calls["n"] += 1
        if wall is not None and x[0] > wall:
            return WALLVAL[kind]
        return float(b @ x - 0.5 * x @ (P @ x))

    def grad(x):
        x = np.asarray(x, dtype=float).ravel()
        return b - P @ x

    return cuqi.distribution.UserDefinedDistribution(dim=len(b), logpdf_func=logpdf, gradient_func=grad), calls


def make_sampler(cuqi, iface, target, x, md, eps):
    with quiet():
        if iface == "exp":
            from cuqi.experimental.mcmc import NUTS
            s = NUTS(target, initial_point=np.array(x, float), max_depth=md, step_size=eps)
        else:
            from cuqi.sampler import NUTS
            s = NUTS(target, x0=np.array(x, float), max_depth=md, adapt_step_size=eps)
    s._num_tree_node = 0
    return s


def gen_tree_case(rng, base):
    """a `_BuildTree` call: `base` (gen_case / gen_tight of c08.py) gives target, start and momentum"""
    c = dict(base)
    c["v"] = rng.choice([-1, 1])
    c["j"] = rng.choice([0, 1, 1, 2, 2, 3, 3, 4])
    kind = rng.random()
    if kind < 0.2:      # divergence inside the tree: huge step far out => H' < log u - 1000 at some leaf => early stop
        c["eps"] = rng.choice([4.0, 8.0, 16.0]); c["x"] = [v_ * 4 + 2 for v_ in c["x"]]; c["wall"] = None
    elif kind < 0.35:   # tight slice: many leaves outside the slice (n' small), e tiny
        c["e"] = rng.choice([1 / 64, 1 / 32, 1 / 16])
    c["us"] = [rng.randint(0, 1023) / 1024 for _ in range(2 ** c["j"] + 2)]   # 0.0 included: rand() is half-open
    return c


def tree_stat_stream(ctx, cuqi, rng, n, step_n=0):
    from harness.props.c08 import gen_case, gen_tight, make_target, Script, scripted
    cases = []
    for i in range(n):
        base = gen_tight(rng, False) if i % 5 == 4 else gen_case(rng, False)
        base["int_x0"] = False
        c = gen_tree_case(rng, base)
        c["iface"] = "exp" if i % 2 == 0 else "legacy"
        cases.append(c)
    # Hamiltonian of the start and slice level, computed exactly (the same rationals go to both sides)
    lines = []
    for c in cases:
        P = [[Fraction(v) for v in row] for row in c["P"]]; b = [Fraction(v) for v in c["b"]]
        x = [Fraction(v) for v in c["x"]]; r = [Fraction(v) for v in c["r"]]
        l0 = sum(bi * xi for bi, xi in zip(b, x)) - Fraction(1, 2) * sum(x[i] * P[i][k] * x[k] for i in range(len(x)) for k in range(len(x)))
        ham = l0 - Fraction(1, 2) * sum(ri * ri for ri in r)
        c["ham"] = ham; c["logu"] = ham - Fraction(c["e"])
        lines.append("treestat %d %d %s %s %s %s %s %s %s %s %s" % (
            c["v"], c["j"], q(c["eps"]), qm(c["P"]), qv(c["b"]), _wall_of(c), qv(c["x"]), qv(c["r"]), q(c["logu"]), q(c["ham"]), qv(c["us"])))
    step_jobs, step_lines = _step_jobs(rng, step_n) if step_n else ([], [])
    allouts = ctx.lean.drive(lines + step_lines)      # one driver run for both streams
    outs = allouts[:len(lines)]
    hist = {"exp": 0, "legacy": 0, "early_stop": 0, "full": 0, "with_nan_leaf": 0, "with_inf_leaf": 0, "outside_slice_leaves": 0,
            "depth": {}, "skipped_margin": 0, "start_behind_wall": 0}
    for c, mo in zip(cases, outs):
        iface = c["iface"]
        desc = {k: c[k] for k in ("d", "P", "b", "eps", "x", "r", "e", "wall", "wall_kind", "v", "j")}
        desc["iface"] = iface; desc["us"] = c["us"]
        key = f"NUTS:{iface}:tree:stat"
        if mo == "bad-op":
            ctx.note(f"model refused treestat {desc}"); continue
        f = [t.strip() for t in mo.split("|")]
        (m_zmx, m_zmr, m_zmg, m_zpx, m_zpr, m_zpg, m_cx, m_cl, m_cg, m_n, m_s, m_ones, m_exps, m_zeros, m_nans, m_na, m_nodes, m_cons, m_margin) = f
        if float(Fraction(m_margin)) < 1e-7:
            hist["skipped_margin"] += 1; continue
        if c["wall"] is not None and c["x"][0] > c["wall"]:
            hist["start_behind_wall"] += 1; continue
        target, calls = make_logged_target(cuqi, c)
        x = np.array(c["x"], float); r = np.array(c["r"], float)
        ham = float(c["ham"]); logu = float(c["logu"])
        sc = Script([], [], c["us"])
        try:
            s = make_sampler(cuqi, iface, target, x, 5, c["eps"])
            with quiet(), np.errstate(all="ignore"):
                g0 = np.asarray(target.gradient(x), float)
                calls["n"] = 0; calls["last"] = None
                with scripted(sc):
                    res = s._BuildTree(x.copy(), r.copy(), g0.copy(), ham, logu, c["v"], c["j"], c["eps"])
        except Exception as ex:
            ctx.disagree(key + ":crash", desc, mo[:80], repr(ex)[:200], "_BuildTree raised"); continue
        ctx.case(f"tree-stat-{iface}", desc)
        hist[iface] += 1; hist["depth"][str(c["j"])] = hist["depth"].get(str(c["j"]), 0) + 1
        hist["early_stop" if int(m_na) < 2 ** c["j"] else "full"] += 1
        hist["with_nan_leaf"] += int(m_nans) > 0
        hist["with_inf_leaf"] += int(m_zeros) > 0
        hist["outside_slice_leaves"] += int(m_n) < int(m_na)
        (pm_, rm_, gm_, pp_, rp_, gp_, pc_, lc_, gc_, n_p, s_p, al_p, na_p) = res
        n_eval = calls["n"]
        # ---- oracle: the property clause on the implementation alone -------------------------------------------------------------
        bad = False
        hs = leaf_energies(c, x, r, c["v"], c["eps"], n_eval)
        want = metropolis_sum(hs, ham)
        if int(na_p) != n_eval:
            ctx.fail(key, desc, {"n_alpha": n_eval}, {"n_alpha": int(na_p)},
                     "n_alpha is not the number of leaves the sub-tree evaluated"); bad = True
        elif want is not None and not close(float(al_p), want, 1e-9):
            ctx.fail(key, desc, {"alpha": want, "n_alpha": n_eval}, {"alpha": float(al_p), "n_alpha": int(na_p)},
                     "alpha is not the sum of the Metropolis probabilities min(1, exp(H'-H)) over the leaves of the sub-tree"); bad = True
        # ---- tie: the whole 13-tuple --------------------------------------------------------------------------------------------
        m_alpha = eval_statsum(m_ones, m_exps, m_zeros, m_nans)
        def fl(s_): return [float(v) for v in pv(s_)]
        diffs = []
        for name, mv, iv in (("point_minus", m_zmx, pm_), ("r_minus", m_zmr, rm_), ("grad_minus", m_zmg, gm_),
                             ("point_plus", m_zpx, pp_), ("r_plus", m_zpr, rp_), ("grad_plus", m_zpg, gp_),
                             ("point_prime", m_cx, pc_), ("grad_prime", m_cg, gc_)):
            if not vclose(np.asarray(iv, float).ravel(), fl(mv), 1e-7):
                diffs.append((name, fl(mv), np.asarray(iv, float).ravel().tolist()))
        ml = {"nan": float("nan"), "inf": float("inf"), "-inf": float("-inf")}.get(m_cl)
        ml = float(Fraction(m_cl)) if ml is None else ml
        if not close(float(lc_), ml, 1e-7): diffs.append(("logd_prime", ml, float(lc_)))
        if int(n_p) != int(m_n): diffs.append(("n_prime", int(m_n), int(n_p)))
        if int(s_p) != int(m_s): diffs.append(("s_prime", int(m_s), int(s_p)))
        if int(na_p) != int(m_na): diffs.append(("n_alpha_prime", int(m_na), int(na_p)))
        if not close(float(al_p), m_alpha, 1e-9): diffs.append(("alpha_prime", m_alpha, float(al_p)))
        if int(s._num_tree_node) != int(m_nodes): diffs.append(("tree nodes", int(m_nodes), int(s._num_tree_node)))
        if sc.n_rand != int(m_cons): diffs.append(("uniform draws consumed", int(m_cons), sc.n_rand))
        if diffs:
            name, mv, iv = diffs[0]
            ctx.disagree(key, desc, {name: mv}, {name: iv}, f"_BuildTree return value `{name}` differs from the model" + (f" (and {len(diffs)-1} more)" if len(diffs) > 1 else ""))
            if not bad:
                _tree_failing_input(ctx, key, desc, c, diffs, hs, ham, logu, res, n_eval, x, r)
    ctx.extra_cov["c08_tree_stat"] = hist
    if step_n:
        _step_stat_compare(ctx, cuqi, step_jobs, allouts[len(lines):])


def _tree_failing_input(ctx, key, desc, c, diffs, hs, ham, logu, res, n_eval, x, r):
    """a broken tie at tree level: evaluate the tree-level clauses of the property on the implementation's return value"""
    names = {d[0] for d in diffs}
    n_p, s_p = int(res[9]), int(res[10])
    fin = [h for h in hs]
    in_slice = sum(1 for h in fin if h == h and logu <= h)
    if n_p != in_slice and all(h != h or abs(h - logu) > 1e-7 for h in fin):
        ctx.fail(key, desc, {"n_prime": in_slice}, {"n_prime": n_p}, "n' is not the number of evaluated leaves that lie in the slice"); return
    # candidate must be one of the evaluated in-slice leaves
    if n_p > 0:
        P = np.array(c["P"], float); b = np.array(c["b"], float); e = c["v"] * c["eps"]
        xs = []; xx = x.copy(); rr = r.copy()
        for _ in range(n_eval):
            rr = rr + 0.5 * e * (b - P @ xx); xx = xx + e * rr; rr = rr + 0.5 * e * (b - P @ xx); xs.append(xx.copy())
        cand = np.asarray(res[6], float).ravel()
        hit = [k for k, xk in enumerate(xs) if np.allclose(xk, cand, rtol=1e-9, atol=1e-9)]
        if not hit:
            ctx.fail(key, desc, "candidate is one of the leaves evaluated", cand.tolist(), "candidate returned by _BuildTree is not a visited leaf"); return
        if all(not (hs[k] == hs[k] and hs[k] >= logu - 1e-9) for k in hit):
            ctx.fail(key, desc, "candidate lies in the slice", {"H - log u": hs[hit[0]] - logu}, "candidate returned by _BuildTree lies outside the slice"); return
    # stopping: a divergent leaf must stop the tree
    div = [k for k, h in enumerate(hs) if not (h == h) or not (logu < 1000 + h)]
    if div and (s_p != 0 or div[0] != n_eval - 1) and all(h != h or abs(h + 1000 - logu) > 1e-7 for h in hs):
        ctx.fail(key, desc, {"s_prime": 0, "leaves evaluated": div[0] + 1}, {"s_prime": s_p, "leaves evaluated": n_eval},
                 "the sub-tree does not stop at its first divergent leaf"); return
    if "tree nodes" in names or "n_alpha_prime" in names or "uniform draws consumed" in names or "s_prime" in names:
        ctx.fail(key, desc, {d[0]: d[1] for d in diffs}, {d[0]: d[2] for d in diffs},
                 "the sub-tree built is not the one the proven stopping rule allows (U-turn / early-stop bookkeeping differs)")


class _Rec:
    """records the arguments and the return value of every TOP-LEVEL `_BuildTree` call of a transition"""
    def __init__(self, sampler, calls):
        self.s, self.calls, self.depth, self.log = sampler, calls, 0, []
        self.orig = sampler._BuildTree
        sampler._BuildTree = self
    def __call__(self, *a, **k):
        self.depth += 1
        if self.depth == 1:
            n0 = self.calls["n"]
        try:
            out = self.orig(*a, **k)
        finally:
            self.depth -= 1
        if self.depth == 0:
            self.log.append(dict(x=np.array(a[0], float).copy(), r=np.array(a[1], float).copy(), ham=float(a[3]), v=int(a[5]), j=int(a[6]),
                                 eps=float(a[7]), alpha=float(out[11]), n_alpha=int(out[12]), n_eval=self.calls["n"] - n0))
        return out


def _step_jobs(rng, n):
    from harness.props.c08 import gen_case, gen_tight, line_of
    jobs = []
    for i in range(n):
        c = gen_tight(rng, False) if i % 4 == 3 else gen_case(rng, False)
        c["int_x0"] = False; c["md"] = min(c["md"], 4)
        iface = "exp" if i % 2 == 0 else "legacy"
        if iface == "legacy" and c["eps"] == 1.0:
            c["eps"] = 0.5
        jobs.append((c, iface))
    return jobs, ["nutsstat" + line_of(c, 1)[4:] for c, _ in jobs]


def step_stat_stream(ctx, cuqi, rng, n):
    jobs, lines = _step_jobs(rng, n)
    _step_stat_compare(ctx, cuqi, jobs, ctx.lean.drive(lines))


def _step_stat_compare(ctx, cuqi, jobs, outs):
    from harness.props.c08 import make_target, Script, scripted
    hist = {"exp": 0, "legacy": 0, "nan_stat": 0, "last_doubling_cut_short": 0, "last_depth": {}, "skipped_margin": 0}
    for (c, iface), mo in zip(jobs, outs):
        desc = {k: c[k] for k in ("d", "P", "b", "eps", "md", "x", "r", "e", "wall", "wall_kind")}; desc["iface"] = iface; desc["us_head"] = c["us"][:8]
        key = f"NUTS:{iface}:step:alpha-stat"
        if mo in ("bad-op", "err-nonfinite-start", "unset"):
            continue
        m_ones, m_exps, m_zeros, m_nans, m_na, m_margin = [t.strip() for t in mo.split("|")]
        if float(Fraction(m_margin)) < 1e-7:
            hist["skipped_margin"] += 1; continue
        target, calls = make_logged_target(cuqi, c)
        sc = Script([c["r"]], [c["e"]], c["us"])
        raised = None
        try:
            s = make_sampler(cuqi, iface, target, c["x"], c["md"], c["eps"])
            with quiet(), np.errstate(all="ignore"):
                if iface == "exp":
                    s._ensure_initialized()
                rec = _Rec(s, calls)
                with scripted(sc):
                    try:
                        if iface == "exp":
                            s.sample(1)
                        else:
                            s.sample(2, 0)
                    except NameError as ex:
                        raised = repr(ex)
        except Exception as ex:
            ctx.disagree(key + ":crash", desc, mo[:80], repr(ex)[:200], "transition raised"); continue
        if raised or not rec.log:
            continue            # 'NaN potential func' is judged by the transition stream of c08.py
        ctx.case(f"step-stat-{iface}", desc)
        last = rec.log[-1]
        reported = float(s._current_alpha_ratio) if iface == "exp" else last["alpha"] / last["n_alpha"]
        hist[iface] += 1; hist["last_depth"][str(last["j"])] = hist["last_depth"].get(str(last["j"]), 0) + 1
        hist["nan_stat"] += int(m_nans) > 0
        hist["last_doubling_cut_short"] += last["n_alpha"] < 2 ** last["j"]
        # ---- oracle (implementation only): mean Metropolis probability over the leaves of the LAST top-level call -------------------
        bad = False
        hs = leaf_energies(c, last["x"], last["r"], last["v"], last["eps"], last["n_eval"])
        tot = metropolis_sum(hs, last["ham"])
        if tot is not None and last["n_eval"] > 0:
            want = tot / last["n_eval"]
            if not close(reported, want, 1e-9):
                ctx.fail(key, desc, {"mean Metropolis probability over the last doubling": want, "leaves": last["n_eval"]}, reported,
                         "reported acceptance statistic is not the mean Metropolis probability over the last doubling"); bad = True
        # ---- tie ---------------------------------------------------------------------------------------------------------------------
        m_stat = eval_statsum(m_ones, m_exps, m_zeros, m_nans) / int(m_na)
        if not close(reported, m_stat, 1e-9) or int(m_na) != last["n_alpha"]:
            ctx.disagree(key, desc, {"alpha/n_alpha": m_stat, "n_alpha": int(m_na)}, {"alpha/n_alpha": reported, "n_alpha": last["n_alpha"]},
                         "acceptance statistic of the last doubling differs from the model")
            if not bad and int(m_na) != last["n_alpha"]:
                ctx.fail(key, desc, {"leaves of the last doubling": int(m_na)}, {"n_alpha": last["n_alpha"]},
                         "the statistic is not taken over the leaves of the last doubling (proved stopping rule gives a different sub-tree)")
    ctx.extra_cov["c08_step_stat"] = hist
