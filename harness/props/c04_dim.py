"""C04, session-3 second pass: how a distribution obtains `dim` (Model/C04_dim.lean, driver op `dim`): infer_len of every mutable
variable, their maximum, the geometry getter's consistency rule.  Real side: Normal / Uniform (raw attributes), Laplace, Gamma,
Gaussian (force_ndarray setters; sparse and DOK matrices) are constructed with every kind of parameter, with and without a
geometry, and `.dim` (or the exception class) is compared; oracle: the log-density of a distribution whose matrix has n rows is
that of an n-dimensional Gaussian."""
import numpy as np
import scipy.sparse as spa
import scipy.stats as sps
from harness.core import quiet


def dim_section(ctx, D, G, rng, S):
    from harness.props import c04 as base
    call, relclose = base.call, base.relclose
    hist = {}
    ctx.extra_cov["dim_inference_histogram"] = hist

    def obj(kind, positive=False):
        """python object of a kind token"""
        c = kind[0]
        val = 1.5 if positive else 0.5
        if c == "N":
            return None
        if c == "C":
            return lambda a_: a_
        if c == "S":
            return rng.choice([val, np.float64(val), 2 if positive else 1])
        if c == "Z":
            return np.array(val)
        k = kind[1:]
        if c == "L":
            return [val] * int(k)
        if c == "A":
            return np.full(int(k), val)
        if c == "M":
            m, n = k.split("x"); return np.eye(int(m), int(n)) * 2.0
        raise ValueError(kind)

    jobs = []
    # (family, kinds, geometry par_dim or None, geometry label)
    for fam, pos in (("Normal", [False, True]), ("Uniform", [False, True]), ("Laplace", [False, True]), ("Gamma", [True, True])):
        for rep in range(6 * S):
            n = rng.choice([2, 3, 4, 6])
            k1 = rng.choice(["S", "S", f"L{n}", f"A{n}", "N", "C", "A1", "L1", f"A{n - 1}" if n > 2 else "A3"])
            k2 = rng.choice(["S", "S", f"A{n}", f"L{n}", "S", "A1"]) if fam != "Laplace" else "S"
            gsel = rng.choice(["none", "none", "match", "match", "other", "image"])
            if gsel == "none":
                geom, g = None, None
            elif gsel == "match":
                geom, g = n, n
            elif gsel == "other":
                geom, g = n + 1, n + 1
            else:
                a = 2 if n % 2 == 0 else 1
                geom, g = G.Image2D((a, n // a)), n
            jobs.append((fam, [k1, k2], pos, geom, g, gsel))
    # fixed classes: 0-d array, 2-D array as a parameter, nothing to infer from
    jobs += [("Normal", ["Z", "S"], [False, True], None, None, "none"), ("Normal", ["M2x3", "S"], [False, True], None, None, "none"),
             ("Normal", ["N", "C"], [False, True], None, None, "none"), ("Normal", ["N", "C"], [False, True], 3, 3, "match"),
             ("Normal", ["S", "S"], [False, True], G.Image2D((2, 3)), 6, "image"), ("Normal", ["A5", "S"], [False, True], G.Image2D((2, 3)), 6, "image")]
    lines = [f"dim {g if g is not None else '-'} {','.join(kinds)}" for (_, kinds, _, _, g, _) in jobs]
    # Gaussian: matrix argument kinds incl. sparse / DOK
    gjobs = []
    for rep in range(3 * S):
        n = rng.choice([3, 4, 5])
        tri = base.band(n, 3.0, 1.0)
        for label, M, tok in (("csr", spa.csr_matrix(tri), f"P{n}"), ("coo", spa.coo_matrix(tri), f"P{n}"), ("dok-tridiagonal", spa.dok_matrix(tri), f"K{3 * n - 2}"),
                              ("dok-diagonal", spa.dok_matrix(np.diag(np.arange(1.0, n + 1))), f"K{n}"), ("dense", tri, f"M{n}x{n}"),
                              ("vector", np.full(n, 2.0), f"A{n}"), ("scalar", 2.0, "S")):
            mk = rng.choice(["S", f"A{n}"])
            form = rng.choice(["cov", "prec"])
            gjobs.append((label, n, M, mk, tok, form))
            lines.append(f"dim - {mk},{tok}")
    outs = ctx.lean.drive(lines)
    CLS = {"Normal": (D.Normal, ["mean", "std"]), "Uniform": (D.Uniform, ["low", "high"]), "Laplace": (D.Laplace, ["location", "scale"]),
           "Gamma": (D.Gamma, ["shape", "rate"])}
    for (fam, kinds, pos, geom, g, gsel), out in zip(jobs, outs):
        desc = {"family": fam, "parameter_kinds": kinds, "geometry": gsel, "geometry_par_dim": g}
        ctx.case("dim-inference", desc)
        hist[f"{fam}:{out.split()[0]}"] = hist.get(f"{fam}:{out.split()[0]}", 0) + 1
        cls, names = CLS[fam]
        kw = {nm: obj(k, p) for nm, k, p in zip(names, kinds, pos)}
        if geom is not None:
            kw["geometry"] = geom

        def get():
            d = cls(**kw)
            return d.dim
        try:
            with quiet():
                got = f"dim {int(get())}"
        except Exception as e:  # noqa
            got = "E:" + type(e).__name__
        if got != out:
            ctx.disagree(f"{fam}:dim:{gsel}", desc, out, got, "dimension of the distribution: model and implementation differ")
            # oracle: scalars only + a geometry => the geometry's dimension; full-length arrays, no geometry => their length
            lens = [int(k[1:]) if k[0] in "LA" else (1 if k == "S" else 0) for k in kinds if k[0] in "LASNC"]
            if len(lens) == len(kinds) and max(lens) <= 1 and g is not None:
                ctx.fail(f"{fam}:dim:{gsel}", desc, f"dim {g}", got, "scalar parameters over a geometry: the distribution does not take the geometry's dimension")
            elif len(lens) == len(kinds) and g is None and max(lens) > 1 and all(l in (0, 1, max(lens)) for l in lens):
                ctx.fail(f"{fam}:dim:{gsel}", desc, f"dim {max(lens)}", got, "the dimension is not the length of the parameters")
    for (label, n, M, mk, tok, form), out in zip(gjobs, outs[len(jobs):]):
        desc = {"family": "Gaussian", "form": form, "matrix": label, "rows": n, "mean_kind": mk}
        ctx.case("dim-inference", desc)
        hist[f"Gaussian:{label}"] = hist.get(f"Gaussian:{label}", 0) + 1
        mean = 0.5 if mk == "S" else np.full(n, 0.5)
        try:
            with quiet():
                gobj = D.Gaussian(mean, **{form: M})
                got = f"dim {int(gobj.dim)}"
        except Exception as e:  # noqa
            gobj = None; got = "E:" + type(e).__name__
        key = f"Gaussian:dim:{label}"
        tie_ok = got == out
        fail = None
        if gobj is not None and label != "scalar" and got != f"dim {n}":
            fail = (f"dim {n}", got, "a Gaussian whose matrix has n rows does not have dimension n (infer_len of a DOK matrix is its number of stored entries)")
        elif gobj is not None and label.startswith("dok-diagonal") and mk != "S":
            x = np.arange(n) / 4.0
            st, v = call(lambda: gobj.logpdf(x))
            A = np.asarray(M.toarray(), dtype=float)
            ref = float(sps.multivariate_normal(np.full(n, 0.5), A if form == "cov" else np.linalg.inv(A)).logpdf(x))
            if st != "value" or not relclose(ref, v, 1e-8):
                fail = (ref, [st, v], "Gaussian given a DOK diagonal matrix: logpdf is not the documented density")
        base.verdict(ctx, key, desc, tie_ok, out, got, fail, "dimension of a Gaussian: model and implementation differ")
