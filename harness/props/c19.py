"""C19 — sample statistics and burn-in/thinning are exact functions of the stored chain.

Correspondence: the executable Lean model (lean/Driver/C19.lean) and cuqi.samples.Samples /
JointSamples are run on the same integer-valued arrays, geometries, burn-in/thinning values,
credibility levels and call sequences; states, statistics and the dictionaries handed to arviz are
diffed.  Oracle: the property evaluated on the implementation alone with plain python/1-D numpy on
the raw array (column by column, chain by chain)."""
import math
import numpy as np
from fractions import Fraction
from harness.core import import_cuqi, quiet, q, qv, qm, pv, pm
from harness.core import close as _core_close

MARGIN = {}    # tolerance -> [number of float comparisons that passed, largest deviation seen as a fraction of that tolerance]


def close(a, b, tol=1e-9):
    """harness.core.close, recording for every tolerance class how much of the tolerance the passing comparisons used
    (evidence `tolerance_margins`; a class that uses more than 10 % of its tolerance on some seed would be flaky)"""
    ok = _core_close(a, b, tol)
    if ok:
        x, y = float(a), float(b)
        if x == x and y == y and abs(x) != float("inf") and abs(y) != float("inf"):
            m = MARGIN.setdefault(tol, [0, 0.0])
            m[0] += 1
            fr = abs(x - y) / (tol * (1.0 + max(abs(x), abs(y))))
            if fr > m[1]:
                m[1] = fr
    return ok

LEVELS = [0, 0.5, 0.99, 1, 5, 50, 68, 95, 99.9, 100]
LEVELS2 = [0, 1e-9, 0.001, 0.05, 0.25, 0.5, 0.95, 0.99, 1, 1.0, 1.5, 2.5, 5, 50, 68, 90, 95, 99, 99.9, 99.999, 100 - 1e-9, 100]


def gen_level(rng):
    """credibility levels over the whole of [0,100]: boundaries and just inside them, sub-1 % levels (a level such as 0.5 or
    0.95 is half a percent / 0.95 percent, never 50 % / 95 %), just below 100, uniform, plus a malformed stream"""
    r = rng.random()
    if r < 0.3:
        return rng.choice(LEVELS2)
    if r < 0.48:
        return rng.randint(1, 1023) / 1024.0
    if r < 0.56:
        return 99 + rng.randint(1, 1023) / 1024.0
    if r < 0.85:
        return rng.uniform(0, 100) if rng.random() < 0.5 else rng.randint(0, 800) / 8.0
    return rng.choice([-10, -0.5, 100.5, 150, 250, -100, -101])


def level_form(p, form):
    """the same level as python number / numpy scalar / 0-d array"""
    if form == 2:
        return np.int64(p) if float(p) == int(p) and isinstance(p, int) else np.float64(p)
    if form == 3:
        return np.array(float(p))
    return p


# ----------------------------------------------------------------------------- geometries
class G:
    """a cuqi geometry object together with its model spec"""
    def __init__(self, obj, spec, kind, par_dim, fun_shape, funvec_dim, exact=True, has_vec=True, has_inv=True):
        self.obj, self.spec, self.kind = obj, spec, kind
        self.par_dim, self.fun_shape, self.funvec_dim = par_dim, tuple(fun_shape), funvec_dim
        self.exact, self.has_vec, self.has_inv = exact, has_vec, has_inv
        self.tag = spec          # what the driver prints as geometry identity
        self.coupled = None      # (name, par2fun, fun2par or None) for entry-coupling geometries

    def bind(self, arr, rep):
        """entry-coupling geometries reach the model as leaf data: the geometry's own maps recorded sample by sample
        (explicit python loop over the stored columns and over everything a chain of conversions can produce from them)"""
        if self.coupled is None:
            return
        name, f1, f2 = self.coupled
        n = self.par_dim
        t1, t2 = {}, {}
        with quiet():
            for i in range(arr.shape[-1]):
                v = np.array(arr[..., i], dtype=float)
                is_par = (rep == "par")
                for _ in range(7):
                    if not np.all(np.isfinite(v)):
                        break
                    if is_par:
                        w = np.asarray(f1(v), dtype=float); t1[qv(v)] = w
                    else:
                        if f2 is None:
                            break
                        w = np.asarray(f2(v), dtype=float); t2[qv(v)] = w
                    v, is_par = w, not is_par
        enc = lambda t: "|".join(f"{k}>{qv(w)}" for k, w in t.items() if np.all(np.isfinite(w))) or "_"
        self.tag = f"tab:{n}:{name}:{'inv' if f2 is not None else 'noinv'}"
        self.spec = f"{self.tag}:{enc(t1)}:{enc(t2)}"


def step_assign(obj, n):
    asg = ["x"] * n
    for i, idx in enumerate(obj._indices):
        for j in idx:
            asg[int(j)] = str(i)
    return ",".join(asg)


# maps that couple the entries of ONE sample and are not column-separable when handed a (dim, Ns) array:
# applied to the whole array they keep its shape but give different numbers than applied sample by sample
def f64(f):
    """a user map written to compute in float64 whatever dtype it is handed (so 'the map of stored sample i' is the
    float64 map of the stored numbers for every storage dtype of the chain)"""
    return lambda x: f(np.asarray(x, dtype=np.float64))


COUPLED = {
    "softmax": f64(lambda x: np.exp(x) / np.sum(np.exp(x))),
    "l2norm": f64(lambda x: x / np.linalg.norm(x)),
    "l1norm": f64(lambda x: x / np.sum(np.abs(x))),
    "center": f64(lambda x: x - x.mean()),
    "cumnorm": f64(lambda x: np.cumsum(x, axis=0) / np.sum(x)),
    "sortall": f64(lambda x: np.sort(np.ravel(x)).reshape(np.shape(x))),
}


def coupled_geom(cuqi, name, n, user):
    from cuqi.geometry import Continuous1D, MappedGeometry, Geometry
    f1 = COUPLED[name]
    if not user:
        g = G(MappedGeometry(Continuous1D(n), map=f1), "", "coupled-map-" + name, n, (n,), n, exact=False, has_inv=False)
        g.coupled = (name, f1, None)
        return g
    f2 = COUPLED["center"] if name != "center" else COUPLED["sortall"]   # fun2par: another coupling map (no inverse is claimed)

    class UserGeometry(Geometry):
        """a user geometry subclassing Geometry directly; for odd n its maps write into ONE persistent buffer and return
        that same array object on every call (the caller must copy what it wants to keep)"""
        def __init__(self, n):
            self._n = n
            self._buf = np.zeros(n)
        @property
        def par_shape(self):
            return (self._n,)
        def _ret(self, out):
            out = np.asarray(out, dtype=float)
            if self._n % 2 == 1 and out.shape == self._buf.shape:
                self._buf[...] = out
                return self._buf
            return out
        def par2fun(self, p):
            return self._ret(f1(p))
        def fun2par(self, f):
            return self._ret(f2(f))
        def _plot(self, values, **kwargs):
            pass
    g = G(UserGeometry(n), "", "coupled-user-" + name, n, (n,), n, exact=False)
    g.coupled = ("user-" + name, f1, f2)
    return g


# dimensions / sample counts just below, at and just past constants that occur in the module (5, 8, 95, 100) and typical
# block / threshold sizes (10: 'v10' follows 'v1'; 64, 100, 128, 200, 256) — incl. sizes that are not a multiple of them
BIG_SIZES = [9, 10, 11, 63, 64, 65, 75, 95, 99, 100, 101, 127, 128, 130, 199, 200, 201, 255, 256, 257, 300, 301]


def make_geom(cuqi, rng, kind=None, d=None):
    from cuqi.geometry import Continuous1D, Continuous2D, Image2D, Discrete, MappedGeometry, StepExpansion
    if d is not None:
        if kind == "default":
            return G(None, f"id:{d}", kind, d, (d,), d)
        if kind == "cont1d":
            return G(Continuous1D(d), f"c1d:{d}", kind, d, (d,), d)
        if kind == "discrete":
            return G(Discrete(d), f"disc:{d}", kind, d, (d,), d)
        if kind == "map-third":
            g = G(MappedGeometry(Continuous1D(d), map=f64(lambda x: x / 3 + 1)), f"map:{q(1 / 3)}:1:affnoinv:c1d:{d}", kind, d, (d,), d, exact=False, has_inv=False)
            return g
        raise ValueError(kind)
    if kind is None and rng.random() < 0.3:
        return coupled_geom(cuqi, rng.choice(sorted(COUPLED)), rng.randint(2, 4), user=(rng.random() < 0.5))
    kind = kind or rng.choice(["default", "cont1d", "discrete", "names", "imgC", "imgF", "c2d", "step", "stepbad",
                               "map-aff-cont", "map-aff-img", "map-affnoinv", "map-sq", "one"])
    if kind == "default":
        d = rng.randint(2, 5)
        return G(None, f"id:{d}", kind, d, (d,), d)
    if kind == "one":
        return G(Continuous1D(1), "c1d:1", kind, 1, (1,), 1)
    if kind == "cont1d":
        d = rng.randint(2, 6)
        return G(Continuous1D(d), f"c1d:{d}", kind, d, (d,), d)
    if kind == "discrete":
        d = rng.randint(2, 12)
        return G(Discrete(d), f"disc:{d}", kind, d, (d,), d)
    if kind in ("names", "dupnames"):
        d = rng.randint(2, 5)
        pool = ["a", "ab", "abc", "b", "x1", "x10", "x", "x_1", "k", "z9", "0"]     # names that are substrings / prefixes of other names
        names = rng.sample(pool, d)
        if kind == "dupnames":
            i, j = rng.sample(range(d), 2)
            names[j] = names[i]
        return G(Discrete(list(names)), "names:" + ",".join(names), kind, d, (d,), d)
    if kind in ("imgC", "imgF"):
        r, c = rng.randint(1, 3), rng.randint(2, 3)
        o = kind[-1]
        return G(Image2D((r, c), order=o), f"img:{r}:{c}:{o}", kind, r * c, (r, c), r * c)
    if kind == "c2d":
        r, c = rng.randint(2, 3), rng.randint(2, 3)
        return G(Continuous2D((r, c)), f"c2d:{r}:{c}", kind, r * c, (r, c), r * c, has_vec=False)
    if kind in ("step", "stepbad"):
        if kind == "step":
            k = rng.randint(1, 3)
            n = k * rng.randint(1, 3) + rng.randint(0, 2)
            n = max(n, k, 2)
            grid = np.linspace(0, 1, n)
        else:   # DESIGN §5 no. 20: float interval ends leave nodes unassigned (C13 defect; here only data)
            k, n = 3, 3
            grid = 2 + 0.7 * np.arange(n)
        with quiet():
            obj = StepExpansion(grid, n_steps=k)
        return G(obj, f"step:{n}:{k}:{step_assign(obj, n)}", kind, k, (n,), n, exact=False)
    if kind.startswith("map"):
        inner = make_geom(cuqi, rng, {"map-aff-cont": "cont1d", "map-aff-img": "imgF", "map-affnoinv": "c2d", "map-sq": "imgC"}[kind])
        if kind == "map-sq":
            obj = MappedGeometry(inner.obj, map=f64(lambda x: x ** 2))
            return G(obj, "map:1:0:sq:" + inner.spec, kind, inner.par_dim, inner.fun_shape, inner.funvec_dim, has_vec=inner.has_vec, has_inv=False)
        a, b = rng.choice([2, 4, -2, 0.5, 0.5, 1 / 3]), rng.choice([0, 1, -3])
        if a == 1 / 3:      # x/3: non-integer function values of integer chains, inexact in floating point
            inner.exact = False
        if kind == "map-affnoinv":
            obj = MappedGeometry(inner.obj, map=f64(lambda x, a=a, b=b: a * x + b))
            return G(obj, f"map:{q(a)}:{q(b)}:affnoinv:" + inner.spec, kind, inner.par_dim, inner.fun_shape, inner.funvec_dim, exact=inner.exact, has_vec=inner.has_vec, has_inv=False)
        obj = MappedGeometry(inner.obj, map=f64(lambda x, a=a, b=b: a * x + b), imap=f64(lambda y, a=a, b=b: (y - b) / a))
        return G(obj, f"map:{q(a)}:{q(b)}:aff:" + inner.spec, kind, inner.par_dim, inner.fun_shape, inner.funvec_dim, exact=inner.exact, has_vec=inner.has_vec)
    raise ValueError(kind)


# ----------------------------------------------------------------------------- dtypes of the stored chain (G1)
def low_prec(values, origin=None):
    """(mean/median tolerance, variance/bounds tolerance) — numpy reduces float32 / float16 chains in that precision"""
    dts = {str(np.asarray(v).dtype) for v in values if v is not None} | ({origin} if origin else set())
    if "float16" in dts:
        return 1e-2, 6e-2      # float16: eps = 2^-10; numpy reduces in float16 (hardening pass: 4e-3 / 3e-2 used up to 9 % of the tolerance)
    if "float32" in dts:
        return 2e-6, 2e-5
    return None


def narrow_int(dt):
    """storage dtypes whose own arithmetic wraps (np.percentile interpolates b - a in the storage dtype)"""
    return str(dt) in ("int8", "uint8", "int16")


def state_tol(dtname):
    return {"float32": 2e-6, "float16": 1e-2}.get(dtname, 1e-12)


LAYOUT_OF = {}    # id(number array) -> memory layout / flags / class of the array the implementation stores (G7)
LAY_HIST = {}


class PlainSubclass(np.ndarray):
    """an ndarray subclass without any behaviour of its own"""
    pass


DTYPE_OF = {}     # id(number array) -> numpy dtype name the implementation's chain is stored with
DT_HIST = {}


def choose_dtype(rng, arr, floats_only=False):
    """the numbers stay what they are (float64 array given to the model and the oracle); the implementation stores them
    as float64 / int64 / int32 / float32 / bool (bool: the numbers become 0/1 first)"""
    arr = np.array(arr, dtype=float)
    integral = bool(np.all(arr == np.round(arr)))
    if floats_only or not integral:
        dt = rng.choice(["float64", "float64", "float32"]) if bool(np.all(arr.astype(np.float32).astype(float) == arr)) else "float64"
    else:
        dt = rng.choice(["float64"] * 6 + ["int64", "int64", "int32", "float32", "float32", "bool", "int8", "uint8", "int16", "float16"])
    if dt == "bool":
        arr = (arr > 0).astype(float)
    if dt == "uint8":        # unsigned: arithmetic in the storage dtype would wrap below 0 / above 255
        arr = np.abs(arr) + (200.0 if rng.random() < 0.5 else 0.0)
    if dt == "int8":         # sums / squares wrap at 127 in the storage dtype
        arr = np.clip(arr * 6, -128, 127)
    if dt == "float16" and not bool(np.all(arr.astype(np.float16).astype(float) == arr)):
        dt = "float64"
    DTYPE_OF[id(arr)] = dt
    DT_HIST[dt] = DT_HIST.get(dt, 0) + 1
    lay = rng.choice(["C"] * 6 + ["F", "strided", "reversed", "readonly", "sample-axis-first", "subclass"])
    LAYOUT_OF[id(arr)] = lay
    LAY_HIST[lay] = LAY_HIST.get(lay, 0) + 1
    return arr


def dt_of(arr):
    return DTYPE_OF.get(id(arr), "float64")


def impl_arr(arr):
    """a fresh array with the same numbers in the chosen storage dtype"""
    base = np.array(arr, dtype=float).astype(dt_of(arr))
    lay = LAYOUT_OF.get(id(arr), "C")
    if lay == "F":
        return np.asfortranarray(base)
    if lay == "strided":                      # every second element of a wider buffer
        big = np.zeros(base.shape[:-1] + (2 * base.shape[-1],), dtype=base.dtype)
        big[..., ::2] = base
        return big[..., ::2]
    if lay == "reversed":                     # negative stride along the sample axis
        return base[..., ::-1].copy()[..., ::-1]
    if lay == "readonly":
        base.flags.writeable = False
        return base
    if lay == "sample-axis-first":            # transposed view: the sample axis is the slowest in memory
        return np.moveaxis(np.ascontiguousarray(np.moveaxis(base, -1, 0)), 0, -1)
    if lay == "subclass":
        return base.view(PlainSubclass)
    return base


# ----------------------------------------------------------------------------- canonical states
def cols_of(arr):
    """sample-major exact view of an array with the sample axis last"""
    a = np.asarray(arr, dtype=float)
    d = int(np.prod(a.shape[:-1]))
    return a.reshape(d, a.shape[-1]).T


def state_str(S, g):
    """canonical state of an implementation Samples object in the driver's output format"""
    arr = S.samples
    if not isinstance(arr, np.ndarray):
        return "non-array"
    geom = S._geometry
    if g.obj is None:
        tag = g.tag if (geom is None or repr(geom) == f"_DefaultGeometry1D({g.par_dim},)") else "?"
    else:
        tag = g.tag if geom is g.obj else "?"
    shape = ",".join(str(int(v)) for v in arr.shape[:-1]) or "_"
    if not np.all(np.isfinite(arr)):
        return "nonfinite"
    cols = cols_of(arr)
    return f"{shape}~{int(bool(S.is_par))}~{int(bool(S.is_vec))}~{tag}~{qm(cols) if cols.shape[0] else '_'}"


def split_state(s):
    """shape~isPar~isVec~tag~cols"""
    parts = s.split("~")
    return parts[0], parts[1], parts[2], parts[3], parts[4]


def states_equal(a, b, exact=True, tol=1e-12):
    if a == b:
        return True
    if a.count("~") != 4 or b.count("~") != 4:
        return False
    sa, sb = split_state(a), split_state(b)
    if sa[:4] != sb[:4]:
        return False
    if exact:
        return False
    ma, mb = pm(sa[4]), pm(sb[4])
    return len(ma) == len(mb) and all(len(x) == len(y) and all(close(u, v, tol) for u, v in zip(x, y)) for x, y in zip(ma, mb))


def snapshot(S):
    arr = S.samples
    return (arr.copy() if isinstance(arr, np.ndarray) else arr, arr.shape if isinstance(arr, np.ndarray) else None,
            S.is_par, S.is_vec, S._geometry, id(arr), sorted(vars(S).keys()))


def untouched(S, snap, strict=True):
    """source object bit-identical: same array object and bytes, flags, geometry; strict also demands the same attribute set
    (reads may legitimately memoise something on the object, so they are checked non-strictly — what a memo may not do is change an answer)"""
    arr = S.samples
    if id(arr) != snap[5] or not isinstance(arr, np.ndarray):
        return False
    return (arr.shape == snap[1] and np.array_equal(arr, snap[0], equal_nan=True) and S.is_par == snap[2] and S.is_vec == snap[3]
            and (S._geometry is snap[4] or (snap[4] is None and type(S._geometry).__name__ == "_DefaultGeometry1D"))
            and (not strict or sorted(vars(S).keys()) == snap[6]))


# ----------------------------------------------------------------------------- oracles (implementation only)
def fkey(ctx, nf, key):
    """key of the first oracle failure recorded since position nf (so that the correspondence
    disagreement is reported together with the failing input that explains it), else `key`"""
    return ctx.failures[nf]["key"] if len(ctx.failures) > nf else key


def ceil_div(a, b):
    return -((-a) // b)


def oracle_burnthin(ctx, key, desc, S, b, t, R, exc):
    """the property for one burnthin call with a burn-in count b>=0 and thinning t>=1"""
    N = S.samples.shape[-1]
    if exc is not None:
        if b < N:
            ctx.fail(key + ":refused", desc, "samples b, b+t, ... returned", f"raised {exc}", "burnthin refuses a burn-in smaller than the number of samples")
            return False
        return True
    if b >= N:
        # returning nothing is still 'exactly the stored samples b, b+t, …' (none); anything else is wrong
        if R.samples.shape[-1] != 0:
            ctx.fail(key + ":overrun", desc, "no samples (b >= Ns)", R.samples.shape, "burnthin returned samples for b >= Ns")
            return False
        return True
    want = [S.samples[..., b + i * t] for i in range(ceil_div(N - b, t))]
    got = R.samples
    ok = (isinstance(got, np.ndarray) and got.shape == S.samples.shape[:-1] + (len(want),)
          and all(np.array_equal(got[..., i], w, equal_nan=True) for i, w in enumerate(want)))
    if not ok:
        ctx.fail(key + ":selection", desc, f"stored samples {b},{b + t},… ({len(want)} of them) in order",
                 str(np.asarray(got).tolist())[:200], "burnthin does not return exactly the stored samples b, b+t, b+2t, …")
    if R.is_par != S.is_par or R.is_vec != S.is_vec:
        ok = False
        ctx.fail(key + ":flags", desc, (S.is_par, S.is_vec), (R.is_par, R.is_vec), "burnthin changed the representation flags")
    if not (R.geometry is S.geometry or R.geometry == S.geometry):
        ok = False
        ctx.fail(key + ":geometry", desc, repr(S.geometry), repr(R.geometry), "burnthin changed the geometry")
    return ok


def oracle_convert(ctx, key, desc, S, op, R, g):
    """funvals / vector / parameters: every stored sample converted by the geometry's own map, in order"""
    geo = S.geometry
    if op == "fv":
        if not S.is_par and not S.is_vec:
            conv, flags = None, (False, False)
        else:
            conv = geo.par2fun if S.is_par else geo.vec2fun
            flags = (False, len(g.fun_shape) <= 1)
    elif op == "vec":
        if S.is_vec or S.is_par:
            conv, flags = None, (S.is_par, S.is_vec)
        else:
            conv, flags = geo.fun2vec, (False, True)
    else:
        if S.is_par:
            conv, flags = None, (True, True)
        else:
            conv = geo.fun2par if not S.is_vec else (lambda v: geo.fun2par(geo.vec2fun(v)))
            flags = (True, True)
    ok = True
    if conv is None:
        if R is not S and not (np.array_equal(R.samples, S.samples) and (R.is_par, R.is_vec) == flags):
            ok = False
            ctx.fail(key + ":identity", desc, "same samples", "changed", f"{op} changed samples that were already in that representation")
        return ok
    N = S.samples.shape[-1]
    with quiet():
        want = [np.array(conv(S.samples[..., i]), copy=True) for i in range(N)]    # copy: a map may return the same buffer every call
    got = R.samples
    good = isinstance(got, np.ndarray) and got.shape[-1] == N and all(
        got[..., i].size == w.size and (w.ndim <= 1 or got[..., i].shape == w.shape)
        and np.allclose(got[..., i].reshape(-1), w.reshape(-1), rtol=1e-13, atol=1e-13, equal_nan=True) for i, w in enumerate(want))
    if not good:
        ok = False
        ctx.fail(key + ":columns", desc, "sample i of the result = geometry map of stored sample i", str(np.asarray(got).tolist())[:200],
                 f"{op} is not the column-wise geometry conversion of the stored samples")
    if (R.is_par, R.is_vec) != flags:
        ok = False
        ctx.fail(key + ":flags", desc, flags, (R.is_par, R.is_vec), f"{op} sets wrong representation flags")
    if R.geometry is not S.geometry:
        ok = False
        ctx.fail(key + ":geometry", desc, "same geometry", repr(R.geometry), f"{op} changed the geometry")
    return ok


def frac_percentile(chain, qq):
    s = sorted(Fraction(float(x)) for x in chain)
    n = len(s)
    v = (n - 1) * qq / 100
    lo = v.numerator // v.denominator
    hi = min(lo + 1, n - 1)
    return s[lo] + (s[hi] - s[lo]) * (v - lo)


def oracle_stats(ctx, key, desc, arr, p, res):
    """per-coordinate statistics over the sample axis, chain by chain, in exact arithmetic"""
    ok = True
    mean, med, var, std, ci, width = res
    tm, tv = low_prec((mean, med, var, std)) or (1e-13, 1e-11)   # numpy reduces a float32/float16 chain in that precision
    shape = arr.shape[:-1]
    N = arr.shape[-1]
    pf = Fraction(float(p))
    lbq = (100 - pf) / 2
    ubq = 100 - lbq
    for name, v in (("mean", mean), ("median", med), ("variance", var), ("std", std)):
        if np.asarray(v).shape != shape:
            ctx.fail(key + f":{name}:shape", desc, shape, np.asarray(v).shape, f"{name} is not one value per coordinate")
            return False
    for idx in np.ndindex(*shape):
        ch = [Fraction(float(x)) for x in arr[idx]]
        m = sum(ch) / N
        vv = sum((x - m) ** 2 for x in ch) / N
        s = sorted(ch)
        md = s[N // 2] if N % 2 else (s[N // 2 - 1] + s[N // 2]) / 2
        for name, got, want, tol in (("mean", mean[idx], m, tm), ("median", med[idx], md, tm), ("variance", var[idx], vv, tv),
                                     ("std", float(std[idx]) ** 2, vv, tv)):
            if not close(float(got), float(want), tol):
                ok = False
                ctx.fail(key + f":{name}", {**desc, "coordinate": list(idx)}, float(want), float(got),
                         f"{name} is not the statistic of that coordinate's chain over the sample axis")
                break
        if ci is not None and 0 <= pf <= 100:
            lo, hi = float(ci[0][idx]), float(ci[1][idx])
            wl, wh = frac_percentile(arr[idx], lbq), frac_percentile(arr[idx], ubq)
            if not (close(lo, float(wl), tv) and close(hi, float(wh), tv)):
                ok = False
                ctx.fail(key + ":ci", {**desc, "coordinate": list(idx)}, [float(wl), float(wh)], [lo, hi], "credible-interval bounds are not the percentiles of the chain")
            if not (lo <= float(med[idx]) + 10 * tm * (1 + abs(lo)) and float(med[idx]) <= hi + 10 * tm * (1 + abs(hi))):
                ok = False
                ctx.fail(key + ":ci-order", {**desc, "coordinate": list(idx)}, "lower <= median <= upper", [lo, float(med[idx]), hi], "interval does not bracket the median")
            if width is not None and float(width[idx]) != hi - lo:
                ok = False
                ctx.fail(key + ":ci-width", {**desc, "coordinate": list(idx)}, hi - lo, float(width[idx]), "ci_width is not upper minus lower")
        if not ok:
            break
    return ok


# ----------------------------------------------------------------------------- side reads (branching histories on one object)
READS = ["fv", "vec", "par", "mean", "median", "variance", "std", "ci", "width", "Ns", "iter", "fv", "fv"]


def fp(a):
    if isinstance(a, np.ndarray) or isinstance(a, (list, tuple, float, int)):
        try:
            return np.array(a, dtype=float)
        except Exception:
            return repr(a)[:200]
    return repr(a)[:200]


def same_answer(u, v):
    """two answers of the same read: equal up to 1e-12 (numpy's SIMD exp/sum may differ in the last bit between two
    evaluations on differently aligned buffers, so bytes are not compared)"""
    if isinstance(u, tuple) and isinstance(v, tuple):
        return len(u) == len(v) and all(same_answer(a, b) for a, b in zip(u, v))
    if isinstance(u, np.ndarray) and isinstance(v, np.ndarray):
        return u.shape == v.shape and bool(np.allclose(u, v, rtol=1e-12, atol=1e-12, equal_nan=True))
    if isinstance(u, np.ndarray) or isinstance(v, np.ndarray):
        return False
    return u == v


def do_read(S, r, p=None):
    """one read of S whose result is discarded by the caller; returns a fingerprint of the answer"""
    if p is None:
        p = (95, 0.5, 50, 0.99, 100)[int(S.samples.shape[-1]) % 5] if isinstance(S.samples, np.ndarray) else 95
    try:
        with quiet():
            if r in ("fv", "vec", "par"):
                R = apply_op(S, (r,))
                return (bool(R.is_par), bool(R.is_vec), fp(R.samples))
            if r == "mean":
                return fp(S.mean())
            if r == "median":
                return fp(S.median())
            if r == "variance":
                return fp(S.variance())
            if r == "std":
                return fp(S.std())
            if r == "ci":
                return fp(S.compute_ci(p))
            if r == "width":
                return fp(S.ci_width(p))
            if r == "Ns":
                return (S.Ns, tuple(S.shape))
            return fp(np.array([np.asarray(v) for v in S]))
    except Exception as e:
        return "err:" + type(e).__name__


def gen_plan(rng, nops, p_read=0.5, p_derived=0.5):
    """side reads before op k (discarded) and reads derived from the result of op k (checked)"""
    reads, derived = {}, {}
    for k in range(nops):
        if rng.random() < p_read:
            reads[k] = [rng.choice(READS) for _ in range(rng.randint(1, 2))]
        if rng.random() < p_derived:
            derived[k] = [rng.choice(["fv", "fv", "vec", "par", "stats"]) for _ in range(rng.randint(1, 2))]
    return {"reads": reads, "derived": derived}


def side_reads_before(ctx, S, reads, key, desc):
    """perform the reads, discard the answers, demand a bit-identical source; returns the answers for the later re-read"""
    out = []
    for r in reads:
        snap = snapshot(S)
        v = do_read(S, r)
        if not untouched(S, snap, strict=False):
            ctx.fail(f"{key}:read-{r}:source", {**desc, "side_read": r}, "source bit-identical after a read", "changed", f"reading {r} changed the samples/flags/geometry of the object")
        out.append((r, v))
    return out


def reread_after(ctx, S, answers, key, desc):
    """the same reads on the same (source) object must still give the same answers after other calls were made on it"""
    ok = True
    for r, v in answers:
        v2 = do_read(S, r)
        if not same_answer(v2, v):
            ok = False
            ctx.fail(f"{key}:reread-{r}", {**desc, "side_read": r}, "same answer as before", "different answer", f"a later {r} on the source gives a different answer than before the call")
    return ok


def derived_checks(ctx, R, g, derived, key, desc, model_states, exact, tol=1e-12):
    """reads derived from a returned object R must be the property's value for R's stored samples (converted per sample /
    per-coordinate statistics), whatever was read from the source before; conversions are also compared with the model"""
    ok = True
    for j, d in enumerate(derived):
        ddesc = {**desc, "derived": d}
        nf = len(ctx.failures)
        if d == "stats":
            arr = R.samples
            if not isinstance(arr, np.ndarray) or arr.shape[-1] == 0 or arr.size > 120 or not np.all(np.isfinite(arr)) or arr.dtype == bool:
                continue   # (np.percentile refuses boolean arrays: a refusal of numpy, not a wrong value)
            p = (0.5, 95, 50, 0.99, 100, 0.05)[(arr.shape[-1] + j) % 6]
            try:
                with quiet():
                    res = (R.mean(), R.median(), R.variance(), R.std(), R.compute_ci(p), R.ci_width(percent=p))
            except Exception as e:
                ctx.fail(f"{key}:then-stats:raised", ddesc, "statistics", type(e).__name__, "statistics of a returned object raise")
                ok = False
                continue
            ok = oracle_stats(ctx, f"{key}:then-stats" + (":narrow-int" if narrow_int(arr.dtype) else ""), ddesc, arr, p, res) and ok
            if int(R.Ns) != arr.shape[-1]:
                ok = False
                ctx.fail(f"{key}:then-Ns", ddesc, arr.shape[-1], int(R.Ns), "Ns is not the number of stored samples")
            continue
        snap = snapshot(R)
        R2, exc = None, None
        try:
            with quiet():
                R2 = apply_op(R, (d,))
        except Exception as e:
            exc = type(e).__name__
        st = "err:" + exc if exc else state_str(R2, g)
        if exc is None:
            ok = oracle_convert(ctx, f"{key}:then-{d}", ddesc, R, d, R2, g) and ok
            if not untouched(R, snap, strict=False):
                ok = False
                ctx.fail(f"{key}:then-{d}:source", ddesc, "unchanged", "changed", "a read changed the returned object")
        m = model_states.get(j)
        if m is not None and st != "nonfinite" and not states_equal(m, st, exact=exact, tol=tol):
            ctx.disagree(fkey(ctx, nf, f"{key}:then-{d}"), ddesc, m[:300], st[:300], "derived read differs between model and implementation")
    return ok


# ----------------------------------------------------------------------------- running the implementation
def apply_op(S, op):
    if op[0] == "bt":
        b, t = op[1], op[2]
        if (b + t) % 3 == 0:      # numpy integer scalars are accepted wherever python ints are
            b, t = np.int64(b), np.int32(t)
        elif (b + t) % 3 == 1:    # keyword form
            return S.burnthin(Nb=b, Nt=t) if b % 2 else S.burnthin(b, Nt=t)
        elif t == 1 and b % 2 == 0:
            return S.burnthin(b)  # default thinning is 1
        return S.burnthin(b, t)
    if op[0] == "fv":
        return S.funvals
    if op[0] == "vec":
        return S.vector
    return S.parameters


def op_str(op):
    return f"bt:{op[1]}:{op[2]}" if op[0] == "bt" else op[0]


def initial_array(rng, g, rep, N, dyadic=False):
    """integer-valued (exact) raw samples in representation rep ∈ {par, vec, fun}"""
    if rep == "par":
        shape = (g.par_dim,)
    elif rep == "vec":
        shape = (g.funvec_dim,)
    else:
        shape = g.fun_shape
    vals = [rng.randint(-9, 9) for _ in range(int(np.prod(shape)) * N)]
    arr = np.array(vals, dtype=float).reshape(shape + (N,))
    if dyadic:
        arr = arr / 4.0
    return choose_dtype(rng, arr)


def gen_bt(rng, N, malformed=False):
    if malformed:
        return ("bt", rng.choice([-N - 1, -N, -2, -1, 0, 1, N - 1, N, N + 3]), rng.choice([-3, -2, -1, 0, 0, 1]))
    r = rng.random()
    b = rng.randint(0, max(N - 1, 0)) if r < 0.8 else rng.choice([0, N - 1, N, N + 1])
    b = max(b, 0)
    t = rng.randint(1, 3) if rng.random() < 0.8 else rng.choice([1, N, N + 1, N + 2])
    return ("bt", b, max(t, 1))


def run(ctx):
    MARGIN.clear()
    _run_core(ctx)
    from harness.props import c19_ext
    c19_ext.run_ext(ctx, import_cuqi())      # session 3: access / glue code around the core (Model/C19_access.lean)
    ctx.extra_cov["tolerance_margins"] = {f"{t:g}": {"comparisons_passed": n, "max_fraction_of_tolerance_used": round(fr, 6)} for t, (n, fr) in sorted(MARGIN.items())}


def _run_core(ctx):
    cuqi = import_cuqi()
    from cuqi.samples import Samples, JointSamples
    import cuqi.samples._samples as smod
    rng = ctx.rng
    thorough = ctx.tier == "thorough"
    K = ctx.scale
    ctx.trusted += ["CPython/numpy basic slicing `a[..., b::t]` (tied to the model's `sliceIdx` exhaustively for n<=10 quick, n<=16 thorough)",
                    "arviz.ess / arviz.rhat as leaf functions of the chains they are handed",
                    "geometry maps par2fun/fun2par/fun2vec/vec2fun (property C13) enter as data: the model is given the same map"]
    ctx.assumptions += ["raw samples are small integers or quarter-integers, so every float operation of the implementation except /N and percentile interpolation is exact",
                        "mean and median compared at 1e-13, variance/std^2/credible bounds at 1e-11 relative to the model's exact rational value; states compared exactly",
                        "source-untouched and view aliasing are runtime facts: checked dynamically on the implementation (array bytes, flags, geometry identity before/after), no Lean theorem"]

    # ------------------------------------------------------------------ 1. python slice semantics, exhaustive
    lines, meta = [], []
    nmax = 16 if thorough else 10
    for n in range(0, nmax + 1):
        for b in range(-n - 2, n + 3):
            for t in range(-3, n + 3):
                lines.append(f"slice {n} {b} {t}"); meta.append((n, b, t))
    outs = ctx.lean.drive(lines)
    for (n, b, t), out in zip(meta, outs):
        ctx.case("slice", {"n": n, "b": b, "t": t}, nontrivial=(n >= 2))
        try:
            impl = ",".join(str(int(v)) for v in np.arange(n)[..., b::t]) or "_"
        except ValueError:
            impl = "err:ValueError"
        if impl != out:
            ctx.disagree("slice:python-semantics", {"n": n, "b": b, "t": t}, out, impl, "model sliceIdx differs from numpy basic slicing")
            ctx.note("sliceIdx is a model of CPython slicing, not of cuqi code: a difference here is a defect of the model")

    # ------------------------------------------------------------------ 2. burnthin, exhaustive over b in [0,N], t in [1,N+2]
    cases = []
    shapes = [((2,), 1), ((1,), 2), ((3,), 4), ((2,), 7), ((2, 2), 5), ((2, 3), 6), ((1, 2, 2), 3)]
    if thorough:
        shapes += [((3,), 11), ((2, 3), 13), ((4,), 16)]
    for shape, N in shapes:
        from cuqi.geometry import Image2D, Continuous1D
        for b in range(0, N + 1):
            for t in range(1, N + 3):
                cases.append((shape, N, ("bt", b, t)))
    for _ in range(40 * K):   # sample counts / burn-in / thinning just below, at and past block-size-like constants
        N = rng.choice(BIG_SIZES)
        near = [0, 1, 4, 5, 7, 8, 9, 10, 11, 63, 64, 65, 99, 100, 101, 127, 128, 129, 199, 200, 201, 255, 256, 257, N - 1, N, N + 1]
        cases.append((rng.choice([(2,), (1,), (2, 2)]), N, ("bt", rng.choice([v for v in near if 0 <= v <= N + 1]), rng.choice([v for v in near if 1 <= v <= N + 2]))))
    for _ in range(60 * K):   # malformed stream: negative / zero / huge values
        shape, N = rng.choice(shapes)
        cases.append((shape, N, gen_bt(rng, N, malformed=True)))
    seq_cases = []
    for shape, N, op in cases:
        d = int(np.prod(shape))
        if len(shape) == 1:
            g = G(None, f"id:{d}", "default", d, shape, d)
            rep = "par"
        elif len(shape) == 2:
            g = G(Image2D(shape), f"img:{shape[0]}:{shape[1]}:C", "imgC", d, shape, d)
            rep = "fun"
        else:
            g = G(Continuous1D(d), f"c1d:{d}", "cont1d", d, shape, d)   # a raw 4-D array with a mismatching geometry
            rep = "raw"
        arr = choose_dtype(rng, np.array([rng.randint(-9, 9) for _ in range(d * N)], dtype=float).reshape(shape + (N,)))
        plan = gen_plan(rng, 1, 0.3, 0.3)
        if rep == "raw":   # a raw 4-D array under a mismatching geometry: only burnthin and statistics are meaningful
            plan["derived"] = {k: ["stats" for _ in v] for k, v in plan["derived"].items()}
        seq_cases.append((g, rep, arr, [op], "burnthin-grid", plan))

    # ------------------------------------------------------------------ 3. sequences of burnthin / funvals / vector / parameters
    nseq = 1200 * K
    for i in range(nseq):
        g = make_geom(cuqi, rng)
        rep = rng.choice(["par", "par", "par", "vec", "fun"])
        if rep == "vec" and not g.has_vec:
            rep = "fun"
        N = rng.choice([1, 2, 3, 4, 5, 6, 8, 9, 12])
        if i % 25 == 0:
            if rng.random() < 0.5:
                N = rng.choice(BIG_SIZES)
            else:
                g = make_geom(cuqi, rng, rng.choice(["default", "cont1d", "discrete", "map-third"]), d=rng.choice(BIG_SIZES))
                rep = "par"
        if g.coupled is not None:
            N = max(N, 2)
            rep = "par" if (rep == "par" or g.coupled[2] is None or rng.random() < 0.6) else rep
        arr = initial_array(rng, g, rep, N, dyadic=(rng.random() < 0.2))
        g.bind(arr, rep)
        ops = []
        n_now = N
        for _ in range(rng.randint(1, 5)):
            if rng.random() < (0.3 if g.coupled is not None else 0.45):
                op = gen_bt(rng, n_now, malformed=(rng.random() < 0.08))
                ops.append(op)
                if op[2] >= 1 and 0 <= op[1] < n_now:
                    n_now = ceil_div(n_now - op[1], op[2])
            else:
                ops.append((rng.choice(["fv", "vec", "par"]),))
        seq_cases.append((g, rep, arr, ops, "sequence", gen_plan(rng, len(ops))))

    # main line per case (the linear chain) + one line per derived conversion (prefix of the chain, then the read):
    # side reads do not appear in the model's input — in the model reads are pure, so its prediction is the same
    lines, dline = [], {}
    for ci, (g, rep, arr, ops, kind, plan) in enumerate(seq_cases):
        ip, iv = {"par": (1, 1), "vec": (0, 1), "fun": (0, int(arr.ndim <= 2)), "raw": (0, 0)}[rep]
        shape = ",".join(str(v) for v in arr.shape[:-1])
        head = f"seq {g.spec} {shape} {ip} {iv} {qm(cols_of(arr))} "
        lines.append(head + ";".join(op_str(o) for o in ops))
        for k, ds in plan["derived"].items():
            for j, d in enumerate(ds):
                if d != "stats":
                    dline[(ci, k, j)] = len(lines)
                    lines.append(head + ";".join([op_str(o) for o in ops[:k + 1]] + [d]))
    all_outs = ctx.lean.drive(lines)
    main_idx = []
    pos = 0
    for ci, (g, rep, arr, ops, kind, plan) in enumerate(seq_cases):
        main_idx.append(pos)
        pos += 1 + sum(1 for ds in plan["derived"].values() for d in ds if d != "stats")
    outs = [all_outs[i] for i in main_idx]
    branch_reads = branch_derived = 0
    coupled_stats = {}
    final_states = []   # (g, final impl Samples or None, model final state string)
    aliasing = 0
    nonfinite = [0]
    for ci, ((g, rep, arr, ops, kind, plan), out) in enumerate(zip(seq_cases, outs)):
        ip, iv = {"par": (True, True), "vec": (False, True), "fun": (False, arr.ndim <= 2), "raw": (False, False)}[rep]
        desc = {"geometry": g.spec, "rep": rep, "shape": list(arr.shape), "ops": [op_str(o) for o in ops],
                "samples": arr.tolist() if arr.size <= 60 else "array of %d" % arr.size,
                "side_reads_before_op": {str(k): v for k, v in plan["reads"].items()}, "dtype": dt_of(arr), "layout": LAYOUT_OF.get(id(arr), "C")}
        ctx.case(kind, {k: desc[k] for k in ("geometry", "rep", "shape", "ops")} | {"h": hash(arr.tobytes()) % 10 ** 6}, nontrivial=(arr.shape[-1] >= 2))
        mstates = out.split(" | ") if out else []
        with quiet():
            S = Samples(impl_arr(arr), geometry=g.obj, is_par=ip, is_vec=iv)
        istates = []
        cur = S
        retained = [(S, state_str(S, g), "the initial object")]     # G8: everything a call returned, re-verified at the end of the case
        for k, op in enumerate(ops):
            key = f"{'burnthin' if op[0] == 'bt' else {'fv': 'funvals', 'vec': 'vector', 'par': 'parameters'}[op[0]]}:{g.kind}:{rep}"
            sdesc = {**desc, "step": k, "op": op_str(op)}
            nf = len(ctx.failures)
            # ---- branching history: reads of `cur` whose answers are discarded, then the call on the same object
            answers = side_reads_before(ctx, cur, plan["reads"].get(k, []), key, sdesc)
            branch_reads += len(answers)
            snap = snapshot(cur)
            exc = None
            R = None
            try:
                with quiet():
                    R = apply_op(cur, op)
            except Exception as e:
                exc = type(e).__name__
            st = state_str(R, g) if exc is None else "err:" + exc
            istates.append(st)
            ok = len(ctx.failures) == nf
            # ---- oracle on the implementation (every step)
            ok = reread_after(ctx, cur, answers, key, sdesc) and ok
            if not untouched(cur, snap, strict=(op[0] == "bt")):
                ok = False
                ctx.fail(key + ":source", sdesc, "source object unchanged", "changed", f"{op_str(op)} modified the object it was called on")
            if op[0] == "bt":
                if isinstance(op[1], int) and op[1] >= 0 and op[2] >= 1:
                    ok = oracle_burnthin(ctx, key, sdesc, cur, op[1], op[2], R, exc) and ok
                    if R is not None and isinstance(R.samples, np.ndarray) and np.shares_memory(R.samples, cur.samples):
                        aliasing += 1
            elif exc is None:
                ok = oracle_convert(ctx, key, sdesc, cur, op[0], R, g) and ok
            # ---- correspondence
            m = mstates[k] if k < len(mstates) else "missing"
            if st == "nonfinite":
                nonfinite[0] += 1
                istates[-1] = "err:nonfinite"
                break
            stol = state_tol(dt_of(arr))   # a float32/float16 chain is reduced by numpy (group means) in that precision
            if not states_equal(m, st, exact=g.exact, tol=stol):
                if ok:
                    # near-by search: same call on fresh copies with the neighbouring burn-in / thinning values
                    if op[0] == "bt" and isinstance(op[1], int) and op[1] >= 0 and op[2] >= 1:
                        for b2 in range(0, cur.samples.shape[-1] + 1):
                            for t2 in (1, 2, 3, op[2]):
                                try:
                                    with quiet():
                                        R2 = cur.burnthin(b2, t2); e2 = None
                                except Exception as e:
                                    R2, e2 = None, type(e).__name__
                                oracle_burnthin(ctx, key, {**sdesc, "op": f"bt:{b2}:{t2}"}, cur, b2, t2, R2, e2)
                ctx.disagree(fkey(ctx, nf, key), sdesc, m[:300], st[:300], "state after the call differs between model and implementation")
                istates[-1] = "err:diverged"   # later steps would only repeat this disagreement
                break
            if g.coupled is not None and op[0] != "bt":
                cstat = coupled_stats.setdefault(g.kind, {"conversions_compared_with_model": 0, "refusals_agreeing": 0, "Ns>1": 0})
                if exc is None:
                    cstat["conversions_compared_with_model"] += 1
                    cstat["Ns>1"] += int(R.samples.shape[-1] > 1 and R is not cur)
                else:
                    cstat["refusals_agreeing"] += 1
            if exc is None and R is not cur:
                retained.append((R, st, f"result of step {k} ({op_str(op)})"))
            if exc is not None:
                break
            # ---- reads derived from the returned object (burnthin-then-read, conversion-then-read)
            if isinstance(R.samples, np.ndarray) and R.samples.shape[-1] >= 1 and plan["derived"].get(k):
                ds = plan["derived"][k]
                mst = {}
                for j, d in enumerate(ds):
                    if (ci, k, j) in dline:
                        parts = all_outs[dline[(ci, k, j)]].split(" | ")
                        mst[j] = parts[k + 1] if len(parts) == k + 2 else None
                derived_checks(ctx, R, g, ds, key, sdesc, mst, g.exact, tol=state_tol(dt_of(arr)))
                branch_derived += len(ds)
            cur = R
            if isinstance(R.samples, np.ndarray) and R.samples.shape[-1] == 0:
                # an empty Samples object (only reachable through a negative burn-in / step): conversions of it
                # depend on shape inference of the geometry, which the model does not carry — stop here
                istates.append("err:empty")
                break
        for obj, st0, what in retained:
            st1 = state_str(obj, g)
            if st1 != st0 and not states_equal(st0, st1, exact=False, tol=0.0):
                ctx.fail(f"retained:{g.kind}:{rep}", {**desc, "retained": what}, "an object returned earlier still holds the same samples/flags/geometry at the end", st1[:200],
                         "a later call overwrote an earlier result (reused buffer / view into a cache)")
        final_states.append((g, cur if len(istates) == len(ops) and not istates[-1].startswith("err") else None,
                             mstates[-1] if mstates and len(mstates) == len(ops) and not mstates[-1].startswith("err") else None, desc))
    ctx.extra_cov["burnthin_results_sharing_memory_with_source"] = aliasing
    ctx.extra_cov["entry_coupling_geometries"] = coupled_stats
    ctx.extra_cov["branching_histories"] = {"side_reads_before_a_call": branch_reads, "reads_derived_from_a_result": branch_derived}
    ctx.extra_cov["states_with_nonfinite_values_not_compared"] = nonfinite[0]
    if nonfinite[0]:
        ctx.note(f"{nonfinite[0]} states contain NaN produced by a geometry map (StepExpansion with an empty interval, C13 finding): oracle run, exact model not compared")
    ctx.note(f"{aliasing} burnthin results are numpy views of the source array (the call itself leaves the source unchanged; later in-place writes to the result would alias)")

    # ------------------------------------------------------------------ 3b. attributes RE-ASSIGNED after first use (samples, geometry), on the object and on a burnthin copy
    from cuqi.geometry import Continuous1D as _C1, MappedGeometry as _MG
    rcs = []
    for i in range(120 * K):
        d = rng.randint(1, 4)
        N = rng.choice([2, 3, 5, 8])
        def mg():
            a, b = rng.choice([2, 4, -2, 0.5, 3]), rng.choice([0, 1, -3, 2])
            gg = G(_MG(_C1(d), map=f64(lambda x, a=a, b=b: a * x + b), imap=f64(lambda y, a=a, b=b: (y - b) / a)), f"map:{q(a)}:{q(b)}:aff:c1d:{d}", "reassign", d, (d,), d)
            return gg
        g1, g2 = mg(), mg()
        a1 = choose_dtype(rng, np.array([rng.randint(-9, 9) for _ in range(d * N)], dtype=float).reshape(d, N))
        N2 = rng.choice([N, N, 4])
        a2 = choose_dtype(rng, np.array([rng.randint(-9, 9) for _ in range(d * N2)], dtype=float).reshape(d, N2))
        rcs.append((g1, g2, a1, a2, rng.randint(0, N - 1), rng.randint(1, 2)))
    lines = []
    for g1, g2, a1, a2, b, t in rcs:
        lines.append(f"seq {g1.spec} {a2.shape[0]} 1 1 {qm(cols_of(a2))} fv")       # fresh object with the current samples
        lines.append(f"seq {g2.spec} {a2.shape[0]} 1 1 {qm(cols_of(a2))} fv")       # … and the current geometry
        lines.append(f"seq {g1.spec} {a1.shape[0]} 1 1 {qm(cols_of(a1))} bt:{b}:{t};fv")
    outs = ctx.lean.drive(lines)
    for ci, (g1, g2, a1, a2, b, t) in enumerate(rcs):
        desc = {"geometry": [g1.spec, g2.spec], "samples": a1.tolist(), "samples_assigned_later": a2.tolist(), "dtype": [dt_of(a1), dt_of(a2)], "burnthin": [b, t]}
        ctx.case("reassign", {"g": desc["geometry"], "h": hash(a1.tobytes() + a2.tobytes()) % 10 ** 6})
        key = "reassign"
        nf = len(ctx.failures)
        try:
            with quiet():
                S = Samples(impl_arr(a1), geometry=g1.obj)
            first = [do_read(S, r) for r in ("fv", "mean", "ci", "par", "vec")]                # fills whatever a read may fill
            with quiet():
                Rb = S.burnthin(b, t)
            fv_b = do_read(Rb, "fv")
            # (i) a copy re-configured afterwards must not change the answers of its source, nor the other way round
            Rb.geometry = g2.obj
            again = [do_read(S, r) for r in ("fv", "mean", "ci", "par", "vec")]
            if not all(same_answer(u, v) for u, v in zip(first, again)):
                ctx.fail(key + ":copy-reconfigured", desc, "source answers unchanged after its burnthin copy got another geometry", "changed", "re-assigning an attribute of a burnthin copy changes the source")
            with quiet():
                F = Rb.funvals
            oracle_convert(ctx, key + ":copy-geometry", desc, Rb, "fv", F, g2)
            Rb.geometry = g1.obj
            with quiet():
                F = Rb.funvals
            if not same_answer(do_read(Rb, "fv"), fv_b):
                ctx.fail(key + ":copy-geometry-back", desc, "function values of the original geometry again", "different", "a geometry assigned back is not used")
            m = outs[3 * ci + 2].split(" | ")
            if len(m) == 2 and not states_equal(m[1], state_str(F, g1), exact=True):
                ctx.disagree(fkey(ctx, nf, key + ":copy-geometry-back"), desc, m[1][:200], state_str(F, g1)[:200], "funvals of the burnthin copy differs from the model")
            # (ii) new samples assigned to the same object: every later answer is that of a fresh object holding them
            S.samples = impl_arr(a2)
            with quiet():
                F2 = S.funvals
                res = (S.mean(), S.median(), S.variance(), S.std(), S.compute_ci(0.5), S.ci_width(0.5)) if dt_of(a2) != "bool" else None
            oracle_convert(ctx, key + ":samples", desc, S, "fv", F2, g1)
            if int(S.Ns) != a2.shape[-1]:
                ctx.fail(key + ":samples:Ns", desc, a2.shape[-1], int(S.Ns), "Ns is not that of the samples assigned last")
            if res is not None:
                oracle_stats(ctx, key + ":samples:stats" + (":narrow-int" if narrow_int(dt_of(a2)) else ""), {**desc, "percent": 0.5}, np.array(a2, dtype=float), 0.5, res)
            if not states_equal(outs[3 * ci], state_str(F2, g1), exact=True):
                ctx.disagree(fkey(ctx, nf, key + ":samples"), desc, outs[3 * ci][:200], state_str(F2, g1)[:200], "funvals after re-assigning samples differs from a fresh object (model)")
            # (iii) another geometry assigned through the setter: conversions use it
            nf = len(ctx.failures)
            S.geometry = g2.obj
            with quiet():
                F3 = S.funvals
            oracle_convert(ctx, key + ":geometry", desc, S, "fv", F3, g2)
            if not states_equal(outs[3 * ci + 1], state_str(F3, g2), exact=True):
                ctx.disagree(fkey(ctx, nf, key + ":geometry"), desc, outs[3 * ci + 1][:200], state_str(F3, g2)[:200], "funvals after re-assigning the geometry differs from a fresh object (model)")
            # results outlive the objects they came from (no weak references to the source / to intermediate objects)
            import gc
            T = Samples(impl_arr(a1), geometry=g1.obj)
            Tb = T.burnthin(b, t)
            Tf = Tb.funvals
            exp_state = state_str(Tf, g1)
            del T, Tb
            gc.collect()
            if state_str(Tf, g1) != exp_state or not states_equal(m[1] if len(m) == 2 else exp_state, state_str(Tf, g1), exact=True):
                ctx.fail(key + ":out-of-scope", desc, "result unchanged after its source objects were deleted", state_str(Tf, g1)[:200], "a result depends on objects that went out of scope")
        # G8: the objects returned before the re-assignments still hold what they held
            if not same_answer(fp(F2.samples), fp(np.array([[float(g1.obj.par2fun(np.asarray(a2[:, i], dtype=float))[k]) for i in range(a2.shape[1])] for k in range(a2.shape[0])]))):
                ctx.fail(key + ":retained", desc, "earlier funvals result unchanged", "changed", "a later call / re-assignment changed an object returned earlier")
        except Exception as e:   # an exception anywhere in this history on valid inputs is itself a failure of the property
            ctx.fail(key + ":raised", desc, "no exception for valid samples / geometries / levels", f"{type(e).__name__}: {str(e)[-120:]}", "a call on valid input raised after attributes were re-assigned")

    # ------------------------------------------------------------------ 4. statistics (raw arrays and final states of the sequences)
    stat_cases = []
    SCALE_OF = {}
    extras = {"bool_ci_refusals": 0, "scaled": 0, "inplace_updates": 0, "alias_checks": 0}
    for shape, N in [((1,), 1), ((2,), 2), ((3,), 5), ((2,), 8), ((2, 2), 7), ((2, 3), 4), ((4,), 16), ((2,), 41)]:
        for p in LEVELS:
            arr = choose_dtype(rng, np.array([rng.randint(-20, 20) for _ in range(int(np.prod(shape)) * N)], dtype=float).reshape(shape + (N,)))
            stat_cases.append((arr, p, "stat-grid", None))
    for _ in range(16 * K):   # sizes straddling block-size-like constants, along the sample axis and along the coordinates
        n_big = rng.choice(BIG_SIZES)
        shape, N = ((rng.choice([1, 2]),), n_big) if rng.random() < 0.6 else ((n_big,), rng.choice([2, 3, 5]))
        arr = choose_dtype(rng, np.array([rng.randint(-20, 20) for _ in range(shape[0] * N)], dtype=float).reshape(shape + (N,)))
        stat_cases.append((arr, gen_level(rng), "stat-big", None))
    for _ in range(400 * K):
        shape = rng.choice([(1,), (2,), (3,), (5,), (2, 2), (3, 2), (2, 1, 2)])
        N = rng.choice([1, 2, 3, 4, 7, 8, 10, 16, 25, 33])
        arr = np.array([rng.randint(-20, 20) for _ in range(int(np.prod(shape)) * N)], dtype=float).reshape(shape + (N,))
        if rng.random() < 0.3:
            arr = arr / 8.0
        if rng.random() < 0.2:   # many ties
            arr = np.sign(arr)
        arr = choose_dtype(rng, arr)
        if dt_of(arr) == "float64" and rng.random() < 0.2:   # G4: extreme scales (powers of two keep every operation exact)
            SCALE_OF[id(arr)] = 2.0 ** rng.choice([-40, 40, -20, 30])
        p = gen_level(rng)
        stat_cases.append((arr, p, "stat-random", None))
    for g, Sfin, mfin, desc in final_states:
        if Sfin is not None and mfin is not None and isinstance(Sfin.samples, np.ndarray) and Sfin.samples.shape[-1] >= 1 and rng.random() < 0.5:
            stat_cases.append((Sfin.samples, gen_level(rng) if rng.random() < 0.6 else rng.choice(LEVELS), "stat-after-sequence", (g, Sfin, mfin, desc)))
    lines = []
    for arr, p, kind, extra in stat_cases:
        shape = ",".join(str(v) for v in arr.shape[:-1])
        if extra is None:
            lines.append(f"stat {shape} {qm(cols_of(arr))} {q(p)}")
        else:   # the model's own final state is the input of the model's statistics
            sh, _, _, _, cols = split_state(extra[2])
            lines.append(f"stat {sh} {cols} {q(p)}")
    outs = ctx.lean.drive(lines)
    stat_i = 0
    for (arr, p, kind, extra), out in zip(stat_cases, outs):
        scale = SCALE_OF.get(id(arr), 1.0)
        desc = {"shape": list(arr.shape), "percent": p, "samples": arr.tolist() if arr.size <= 60 else "array of %d" % arr.size,
                "dtype": dt_of(arr) if extra is None else str(arr.dtype), "scale": scale}
        if extra is not None:
            desc["after"] = {k: extra[3][k] for k in ("geometry", "rep", "ops")}
        ctx.case(kind, {"shape": desc["shape"], "percent": p, "dtype": desc["dtype"], "scale": scale, "h": hash(arr.tobytes()) % 10 ** 6})
        is_bool = (extra is None and dt_of(arr) == "bool") or (extra is not None and arr.dtype == bool)

        form = stat_i % 4
        stat_i += 1
        desc["level_passed_as"] = ["positional", "keyword", "numpy scalar", "0-d array"][form] + (" / default" if p == 95 and form == 1 else "")

        def all_stats(S):
            with quiet():
                try:
                    r = [S.mean(), S.median(), S.variance(), S.std()]
                except Exception as e:
                    return [None] * 6 + ["basic:" + type(e).__name__]
                try:
                    if form == 1 and p == 95:
                        r += [S.compute_ci(), S.ci_width(), None]            # the default level is 95
                    elif form == 1:
                        r += [S.compute_ci(percent=p), S.ci_width(percent=p), None]
                    else:
                        r += [S.compute_ci(level_form(p, form)), S.ci_width(level_form(p, form)), None]
                except Exception as e:
                    r += [None, None, type(e).__name__]
            return r

        def unscale(r):   # results for the unscaled numbers (exact: the scale is a power of two)
            if scale == 1.0:
                return r
            return [r[0] / scale, r[1] / scale, r[2] / scale ** 2, r[3] / scale, None if r[4] is None else r[4] / scale, None if r[5] is None else r[5] / scale, r[6]]

        with quiet():
            S = extra[1] if extra is not None else Samples(impl_arr(arr) * scale if scale != 1.0 else impl_arr(arr))
        snap = snapshot(S)
        raw = all_stats(S)
        key = (f"stats:{'nd' if arr.ndim > 2 else '2d'}" + (":narrow-int" if narrow_int(S.samples.dtype) else "")
               + (":after-" + extra[0].kind if extra is not None else ""))
        if raw[0] is None:
            ctx.fail(key + ":raised", desc, "mean/median/variance/std", raw[6], "a basic statistic raised on a numeric chain")
            continue
        mean, med, var, std, ci, width, ci_err = unscale([v if not isinstance(v, np.ndarray) else np.array(v, copy=True) for v in raw])
        extras["scaled"] += int(scale != 1.0)
        nf = len(ctx.failures)
        numbers = np.array(arr, dtype=float)
        ok = oracle_stats(ctx, key, desc, numbers, p, (mean, med, var, std, ci, width))
        # G2: the stored chain is byte-identical and in the same order after every statistic
        if not untouched(S, snap):
            ok = False
            ctx.fail(key + ":source", desc, "unchanged", "changed", "computing statistics modified the samples")
        if is_bool and ci_err == "TypeError":
            extras["bool_ci_refusals"] += 1     # np.percentile refuses boolean arrays (numpy, not cuqi): a refusal, not a wrong value
        elif 0 <= p <= 100 and ci_err is not None:
            ok = False
            ctx.fail(key + ":ci-refused", desc, "bounds", ci_err, "compute_ci refuses a credibility level in [0,100]")
        # G8: results already returned are not overwritten by the same statistics of ANOTHER object (reused internal buffers)
        if ok and extra is None:
            keep0 = [None if v is None else np.array(v, copy=True) for v in raw[:6]]
            with quiet():
                other = Samples(np.array(numbers[..., ::-1] * 3 + 1, dtype=float))
            all_stats(other)
            if not all(same_answer(a, np.asarray(b)) for a, b in zip(keep0, raw[:6]) if a is not None):
                ok = False
                ctx.fail(key + ":retained", desc, "statistics returned earlier unchanged", "changed", "statistics of another object overwrote results returned earlier")
        # G3: the returned arrays are the caller's — overwriting them must not change later answers
        if ok:
            keep = [None if v is None else np.array(v, copy=True) for v in raw[:6]]
            for v in raw[:6]:
                if isinstance(v, np.ndarray) and v.flags.writeable and v.ndim > 0:
                    v[...] = 77
            again = all_stats(S)
            extras["alias_checks"] += 1
            if not all(same_answer(a, b) for a, b in zip(keep, again[:6]) if a is not None) or not untouched(S, snap):
                ok = False
                ctx.fail(key + ":alias", desc, "same statistics after the caller overwrote the returned arrays", "different", "a returned statistic aliases internal state")
        # G5: an in-place update of the SAME stored array must be reflected by the next call (no stale memo)
        if ok and extra is None and arr.shape[-1] >= 2 and scale == 1.0 and S.samples.flags.writeable:
            S.samples[..., 0] = S.samples[..., -1]
            upd = np.array(S.samples, dtype=float)
            r2 = all_stats(S)
            extras["inplace_updates"] += 1
            if not oracle_stats(ctx, key + ":after-inplace-update", {**desc, "samples": upd.tolist() if upd.size <= 60 else "array"}, upd, p, tuple(r2[:6])):
                ok = False
        toks = out.split(" ")
        bad = None
        if len(toks) < 4:
            bad = "model output"
        else:
            exact = (extra is None) or extra[0].exact
            lp = low_prec(raw[:4], origin=(extra[3].get("dtype") if extra is not None and not extra[0].exact else None))
            t1, t2 = lp if lp else ((1e-13 if exact else 1e-11), 1e-11)
            mm, mv, mmd = pv(toks[0]), pv(toks[1]), pv(toks[2])
            fl = lambda a: [float(x) for x in np.asarray(a).reshape(-1)]
            if not all(close(a, float(b), t1) for a, b in zip(fl(mean), mm)) or len(mm) != len(fl(mean)):
                bad = "mean"
            elif not all(close(a, float(b), t1) for a, b in zip(fl(med), mmd)):
                bad = "median"
            elif not all(close(a, float(b), t2) for a, b in zip(fl(var), mv)):
                bad = "variance"
            elif not all(close(a * a, float(b), t2) for a, b in zip(fl(std), mv)):
                bad = "std"
            elif is_bool and ci_err == "TypeError":
                pass
            elif toks[3].startswith("err"):
                if ci_err is None:
                    bad = "ci-refusal"
            elif ci_err is not None:
                bad = "ci-refusal"
            else:
                lo, hi, w = pv(toks[3]), pv(toks[4]), pv(toks[5])
                if not (all(close(a, float(b), t2) for a, b in zip(fl(ci[0]), lo)) and all(close(a, float(b), t2) for a, b in zip(fl(ci[1]), hi))):
                    bad = "ci"
                elif not all(close(a, float(b), 10 * t2) for a, b in zip(fl(width), w)):
                    bad = "ci-width"
        if bad:
            ctx.disagree(fkey(ctx, nf, key + ":" + bad), desc, out[:300], str([np.asarray(x).tolist() for x in (mean, var, med)])[:300] + f" ci={ci_err or np.asarray(ci).tolist()}", f"{bad} differs between model and implementation")
            if ok and bad in ("mean", "median", "variance", "std", "ci", "ci-width"):
                ctx.note(f"statistics correspondence broke on {bad} but the oracle accepts the implementation at {desc['shape']}: model defect?")

    ctx.extra_cov["statistics_generic_classes"] = extras
    ctx.extra_cov["chain_dtypes"] = dict(DT_HIST)
    ctx.extra_cov["chain_layouts"] = dict(LAY_HIST)
    # percentile level sweep on one chain (all levels k/4, k = 0..400)
    chain = [rng.randint(-30, 30) for _ in range(rng.choice([6, 9, 14]))]
    qs = [k / 4.0 for k in range(0, 401, 1 if thorough else 4)]
    outs = ctx.lean.drive([f"pct {qv(chain)} {q(x)}" for x in qs])
    prev = None
    for x, out in zip(qs, outs):
        ctx.case("percentile-sweep", {"n": len(chain), "q": x, "h": hash(tuple(chain)) % 10 ** 6})
        got = float(np.percentile(np.array(chain, dtype=float), x))
        if not close(got, float(Fraction(out)), 1e-12):
            ctx.disagree("percentile:linear", {"chain": chain, "q": x}, out, got, "model percentile differs from np.percentile")
            if not close(got, float(frac_percentile(chain, Fraction(x))), 1e-11):
                ctx.note("np.percentile differs from linear interpolation — numpy behaviour, outside cuqi")
        if prev is not None and Fraction(out) < prev:
            ctx.disagree("percentile:monotone", {"chain": chain, "q": x}, out, str(prev), "model percentile not monotone (contradicts theorem percentile_monotone)")
        prev = Fraction(out)

    # ------------------------------------------------------------------ 5. ESS / R-hat plumbing
    real_arviz = smod.arviz
    if real_arviz is None:
        ctx.note("arviz not installed: ESS / R-hat plumbing not exercised")
        return joint_part(ctx, cuqi, rng, K)
    rec = []

    class Spy:
        def __getattr__(self, n):
            return getattr(real_arviz, n)
        def ess(self, d, **kw):
            rec.append(("ess", d, dict(kw))); return real_arviz.ess(d, **kw)
        def rhat(self, d, **kw):
            rec.append(("rhat", d, dict(kw))); return real_arviz.rhat(d, **kw)

    def leaf(fn, a, **kw):
        with quiet():
            return float(fn(np.asarray(a, dtype=float), **kw))

    ESS_KW = [{}, {}, {"method": "tail"}, {"method": "mean"}, {"relative": True}, {"method": "bulk", "relative": True}]
    RHAT_KW = [{}, {}, {"method": "split"}, {"method": "folded"}, {"method": "identity"}]

    smod.arviz = Spy()
    try:
        n_ess = 80 * K
        ecases = []
        kinds = ["default", "cont1d", "discrete", "names", "dupnames", "imgF", "step", "map-aff-img", "one", "discrete"]
        for i in range(n_ess):
            g = make_geom(cuqi, rng, kinds[i % len(kinds)])
            rep = "par" if (g.kind != "step" or rng.random() < 0.5) else "vec"
            if rng.random() < 0.15 and g.has_vec:
                rep = "vec"
            N = rng.choice([4, 5, 8, 12])
            arr = initial_array(rng, g, rep, N)
            idx = None
            if rng.random() < 0.25:
                dd = arr.shape[0]
                idx = [rng.randrange(dd) for _ in range(rng.randint(0 if rng.random() < 0.2 else 1, 3))]   # [] is falsy but is not None (G6)
            ecases.append((g, rep, arr, idx))
        # sizes just below / at / just past block-size-like constants, incl. dimensions that are not a multiple of them
        bigs = rng.sample(BIG_SIZES, 5 if not thorough else 12) + [rng.choice([101, 130, 257]), rng.choice([199, 201, 301])]
        for d in bigs:
            g = make_geom(cuqi, rng, rng.choice(["default", "cont1d", "discrete"]), d=d)
            arr = initial_array(rng, g, "par", rng.choice([4, 5, 6]))
            idx = None if rng.random() < 0.8 else sorted(rng.sample(range(d), min(d, rng.choice([100, 101, 128]))))
            ecases.append((g, "par", arr, idx))
        lines = [f"ess {g.spec} {arr.shape[0]} {int(rep == 'par')} 1 {qm(cols_of(arr))} {'all' if idx is None else (','.join(map(str, idx)) or '_')}"
                 for g, rep, arr, idx in ecases]
        outs = ctx.lean.drive(lines)
        for ei, ((g, rep, arr, idx), out) in enumerate(zip(ecases, outs)):
            kw = ESS_KW[ei % len(ESS_KW)]
            desc = {"geometry": g.spec, "rep": rep, "shape": list(arr.shape), "variable_indices": idx if idx is None or len(idx) < 20 else f"{len(idx)} indices",
                    "samples": arr.tolist() if arr.size <= 400 else "array of %d" % arr.size, "dtype": dt_of(arr), "kwargs": kw}
            ctx.case("ess", {"geometry": g.spec, "rep": rep, "idx": idx, "h": hash(arr.tobytes()) % 10 ** 6})
            klass = "dup-names" if g.kind == "dupnames" else ("funvec-ne-par" if (rep == "vec" and g.funvec_dim != g.par_dim) else "plain")
            key = f"ess:{klass}:{g.kind}" + (":indices" if idx is not None else "")
            with quiet():
                S = Samples(impl_arr(arr), geometry=g.obj, is_par=(rep == "par"), is_vec=True)
            snapS = snapshot(S)
            rec.clear()
            try:
                with quiet():
                    if idx is None:
                        res = S.compute_ess(**kw)
                        dd = {}
                        for r_ in rec:          # all dictionaries handed to arviz during the call, in order (a blocked implementation may call it several times)
                            for k_, v_ in r_[1].items():
                                dd[k_] = v_
                        if any(r_[2] != kw for r_ in rec) or not rec:
                            pre_kw = [r_[2] for r_ in rec]
                        else:
                            pre_kw = None
                    else:
                        dd = S.to_arviz_inferencedata(idx); res = None
                impl = ";".join(f"{k}={qv(v)}" for k, v in dd.items()) or "_"
            except Exception as e:
                impl, res, dd = "err:" + type(e).__name__, None, None
            # oracle: every requested variable's own chain arrives, in order; ESS[i] is that of chain i
            ok = True
            nf = len(ctx.failures)
            if dd is not None:      # G2/G3: the stored chain is untouched, also after the caller overwrites what was returned
                for v in dd.values():
                    if isinstance(v, np.ndarray) and v.flags.writeable:
                        v_keep = v.copy(); v[...] = 0; v[...] = v_keep
                        if not untouched(S, snapS):
                            v[...] = 1
                if res is not None and isinstance(res, np.ndarray):
                    res_keep = res.copy(); res[...] = -5
                    with quiet():
                        res2 = S.compute_ess(**kw)
                    if not same_answer(res_keep, res2):
                        ok = False
                        ctx.fail(key + ":alias", desc, "same ESS after the caller overwrote the returned array", "different", "the returned ESS array aliases internal state")
                    res = res_keep
            if not untouched(S, snapS):
                ok = False
                ctx.fail(key + ":source", desc, "stored chain byte-identical after the diagnostic", "changed", "compute_ess / to_arviz_inferencedata modified the stored chain (or hands out a view of it)")
            want_rows = list(range(arr.shape[0])) if idx is None else idx
            if dd is not None:
                vals = list(dd.values())
                distinct_req = len(set(want_rows)) == len(want_rows)
                if distinct_req and (len(vals) != len(want_rows) or not all(np.array_equal(v, arr[r]) for v, r in zip(vals, want_rows))):
                    ok = False
                    ctx.fail(key + ":chains", desc, f"{len(want_rows)} chains = rows {want_rows} in order", f"{len(vals)} chains", "the dictionary handed to arviz is not each variable's own chain in order")
                if res is not None:
                    if pre_kw is not None:
                        ok = False
                        ctx.fail(key + ":kwargs", desc, kw, pre_kw, "keyword arguments of compute_ess do not all arrive at arviz.ess")
                    want = [leaf(real_arviz.ess, arr[r], **kw) for r in want_rows]
                    if len(res) != len(want) or not np.allclose(np.asarray(res), np.asarray(want), rtol=1e-6 if dt_of(arr) != "float64" else 0, atol=0, equal_nan=True):
                        ok = False
                        ctx.fail(key + ":values", desc, want, np.asarray(res).tolist(), "compute_ess()[i] is not the ESS of variable i's chain")
            if impl != out:
                ctx.disagree(fkey(ctx, nf, key), desc, out[:300], impl[:300], "dictionary handed to arviz differs")

        # R-hat
        n_rh = 70 * K
        rcases = []
        rkinds = ["default", "cont1d", "names", "dupnames", "step", "imgC", "discrete", "stepvec", "map-aff-img", "mismatch"]
        for i in range(n_rh):
            kd = rkinds[i % len(rkinds)]
            g = make_geom(cuqi, rng, "step" if kd == "stepvec" else ("cont1d" if kd == "mismatch" else kd))
            rep = "vec" if kd == "stepvec" else "par"
            N = rng.choice([4, 6, 8])
            nch = rng.randint(1, 3)
            arrs = [initial_array(rng, g, rep, N) for _ in range(nch + 1)]
            gs = [g] * (nch + 1)
            if kd == "mismatch":
                g2 = make_geom(cuqi, rng, "discrete")
                gs[-1] = g2
                arrs[-1] = initial_array(rng, g2, "par", N)
            rcases.append((kd, gs, rep, arrs))
        for d in rng.sample(BIG_SIZES, 3 if not thorough else 8) + [rng.choice([101, 130, 257])]:
            g = make_geom(cuqi, rng, rng.choice(["default", "cont1d", "discrete"]), d=d)
            rcases.append(("big", [g, g, g], "par", [initial_array(rng, g, "par", 4) for _ in range(3)]))
        lines = []
        for kd, gs, rep, arrs in rcases:
            toks = ["rhat"]
            for g, a in zip(gs, arrs):
                toks += [g.spec, str(a.shape[0]), str(int(rep == "par")), "1", qm(cols_of(a))]
            lines.append(" ".join(toks))
        outs = ctx.lean.drive(lines)
        rhat_i = 0
        rhat_hist = {}
        for (kd, gs, rep, arrs), out in zip(rcases, outs):
            g = gs[0]
            how = ["list", "list", "list", "single", "tuple", "list", "generator"][(rhat_i + rhat_i // 10) % 7]   # decorrelated from the geometry cycle
            if how == "single" and len(arrs) > 2:
                how = "list"
            rhat_i += 1
            rkw = RHAT_KW[rhat_i % len(RHAT_KW)]
            desc = {"geometry": [x.spec for x in gs], "rep": rep, "shape": list(arrs[0].shape), "chains": [a.tolist() if a.size <= 400 else "array" for a in arrs],
                    "dtype": [dt_of(a) for a in arrs], "chains_passed_as": how, "kwargs": rkw}
            ctx.case("rhat", {"geometry": desc["geometry"], "rep": rep, "h": hash(arrs[0].tobytes()) % 10 ** 6})
            klass = "dup-names" if g.kind == "dupnames" else ("funvec-ne-par" if (rep == "vec" and g.funvec_dim != g.par_dim) else "plain")
            key = f"rhat:{klass}:{kd}"
            with quiet():
                Ss = [Samples(impl_arr(a), geometry=x.obj, is_par=(rep == "par"), is_vec=True) for x, a in zip(gs, arrs)]
            snaps = [snapshot(x) for x in Ss]
            lst = list(Ss[1:])                      # the caller's own list object
            lst_before = (len(lst), [id(x) for x in lst])
            arg = {"list": lst, "single": Ss[1], "tuple": tuple(lst), "generator": (x for x in lst)}[how]
            rhat_hist[how] = rhat_hist.get(how, 0) + 1
            rec.clear()
            pre_fail = []
            try:
                with quiet():
                    res = Ss[0].compute_rhat(arg, **rkw)
                dd = rec[-1][1]
                impl = ";".join(k + "=" + "/".join(qv(r) for r in v) for k, v in dd.items()) or "_"
            except Exception as e:
                impl, res, dd = "err:" + type(e).__name__, None, None
            refused_container = how in ("tuple", "generator") and impl == "err:TypeError"   # the code accepts lists only: a refusal
            # G2: the caller's list is the caller's — same length, same elements, same order, after the call
            if (len(lst), [id(x) for x in lst]) != lst_before:
                pre_fail.append(("caller-list", "list of chains unchanged (length and identity of its elements)", f"length {lst_before[0]} -> {len(lst)}",
                                 "compute_rhat modified the list of chains passed by the caller"))
            # the same list object used again (second call on the same object, and by a twin of it): each chain exactly once, [self, *chains]
            second = []
            if how == "list" and dd is not None:
                with quiet():
                    twin = Samples(impl_arr(arrs[0]), geometry=gs[0].obj, is_par=(rep == "par"), is_vec=True)
                for who in (Ss[0], twin):
                    rec.clear()
                    try:
                        with quiet():
                            r2 = who.compute_rhat(lst, **rkw)
                        second.append((rec[-1][1], r2))
                    except Exception as e:
                        second.append((None, type(e).__name__))
            ok = True
            nf = len(ctx.failures)
            mpos = None
            if " # " in out:
                mdict, mpos = out.split(" # ")
                mpos = mpos.split(",")
            else:
                mdict = out
            for suffix, demanded, got, what in pre_fail:
                ok = False
                ctx.fail(key + ":" + suffix, desc, demanded, got, what)
            for x, sn in zip(Ss, snaps):
                if not untouched(x, sn):
                    ok = False
                    ctx.fail(key + ":source", desc, "stored chains byte-identical after the diagnostic", "changed", "compute_rhat modified a stored chain")
                    break
            klass_ok = klass == "plain"
            for d2, r2 in second:
                if d2 is None:
                    ok = False
                    ctx.fail(key + ":reuse", desc, "second call with the same list succeeds", r2, "compute_rhat fails when the caller's list is used again")
                elif klass_ok:
                    v2 = list(d2.values())
                    if len(v2) != arrs[0].shape[0] or not all(v2[k].shape == (len(arrs), arrs[0].shape[1]) and np.array_equal(v2[k], np.stack([a[k] for a in arrs])) for k in range(len(v2))):
                        ok = False
                        ctx.fail(key + ":reuse", desc, f"each chain exactly once, in order [self, *chains] ({len(arrs)} chains)", [list(x.shape) for x in v2][:3],
                                 "re-using the caller's list of chains hands arviz duplicated / extra chains")
                    elif not same_answer(np.asarray(r2), np.asarray(res)):
                        ok = False
                        ctx.fail(key + ":reuse", desc, "same R-hat as the first call", np.asarray(r2).tolist(), "a second compute_rhat with the same list gives a different answer")
            if dd is not None:
                d = arrs[0].shape[0]
                vals = list(dd.values())
                if len(vals) != d or not all(vals[k].shape == (len(arrs), arrs[0].shape[1]) and np.array_equal(vals[k], np.stack([a[k] for a in arrs])) for k in range(d)):
                    ok = False
                    ctx.fail(key + ":chains", desc, f"{d} variables, each with its own chain from every Samples object", f"{len(vals)} variables",
                             "the dictionary handed to arviz.rhat is not each variable's own chains in order")
                if any(r_[2] != rkw for r_ in rec):
                    ok = False
                    ctx.fail(key + ":kwargs", desc, rkw, [r_[2] for r_ in rec], "keyword arguments of compute_rhat do not all arrive at arviz.rhat")
                want = [leaf(real_arviz.rhat, np.stack([a[k] for a in arrs]), **rkw) for k in range(d)]
                # entries the code never writes hold arbitrary memory: compare only what the model says is written
                written = [k for k in range(len(res))] if mpos is None else [k for k, pz in enumerate(mpos) if pz != "x"]
                rt = 0 if all(dt_of(a) == "float64" for a in arrs) else 1e-6
                if len(res) != d or not all(np.allclose(res[k], want[k], rtol=rt, atol=0, equal_nan=True) for k in range(d) if k in written and ok) or len(written) != d:
                    ok = False
                    ctx.fail(key + ":values", desc, want, np.asarray(res).tolist(), "compute_rhat()[i] is not the R-hat of variable i's chains (entries missing, shifted or never written)")
            if refused_container:
                rhat_hist["refused:" + how] = rhat_hist.get("refused:" + how, 0) + 1
            elif impl != mdict:
                ctx.disagree(fkey(ctx, nf, key), desc, out[:300], impl[:300], "dictionary handed to arviz.rhat differs")
        ctx.extra_cov["rhat_chains_argument_forms"] = rhat_hist
    finally:
        smod.arviz = real_arviz
    joint_part(ctx, cuqi, rng, K)


def joint_part(ctx, cuqi, rng, K):
    """JointSamples.burnthin is member-wise"""
    from cuqi.samples import Samples, JointSamples
    jcases = []
    for i in range(300 * K):
        nm = rng.randint(0 if i % 40 == 0 else 1, 4)
        keys = rng.sample(["x", "y", "s", "d", "theta"], nm)
        members = []
        N0 = rng.choice([1, 3, 5, 8])
        for k in keys:
            g = make_geom(cuqi, rng, rng.choice(["default", "cont1d", "imgF", "names", "step", "one"]))
            N = N0 if rng.random() < 0.85 else rng.choice([2, 4, 9])
            if members and rng.random() < 0.2:
                members.append((k, members[-1][1], members[-1][2]))      # same geometry object, same stored numbers
            else:
                members.append((k, g, initial_array(rng, g, "par", N)))
        op = gen_bt(rng, N0, malformed=(rng.random() < 0.1))
        # branching histories on the members: reads discarded before the joint call, reads derived from the result's members
        jreads = {k: [rng.choice(READS) for _ in range(rng.randint(1, 2))] for k in keys if rng.random() < 0.5}
        jder = {k: [rng.choice(["fv", "fv", "par", "stats"])] for k in keys if rng.random() < 0.5}
        jcases.append((members, op, jreads, jder))
    lines = []
    for members, op, jreads, jder in jcases:
        toks = ["joint", str(op[1]), str(op[2])]
        for k, g, a in members:
            toks += [k, g.spec, str(a.shape[0]), "1", "1", qm(cols_of(a))]
        lines.append(" ".join(toks))
    njoint = len(lines)
    dline = {}
    for ci, (members, op, jreads, jder) in enumerate(jcases):
        for k, g, a in members:
            for d in jder.get(k, []):
                if d != "stats":
                    dline[(ci, k)] = len(lines)
                    lines.append(f"seq {g.spec} {a.shape[0]} 1 1 {qm(cols_of(a))} {op_str(op)};{d}")
    all_outs = ctx.lean.drive(lines)
    outs = all_outs[:njoint]
    for ci, ((members, op, jreads, jder), out) in enumerate(zip(jcases, outs)):
        desc = {"members": [(k, g.spec, list(a.shape)) for k, g, a in members], "op": op_str(op), "samples": {k: a.tolist() for k, g, a in members},
                "side_reads_before_op": jreads, "dtype": {k: dt_of(a) for k, g, a in members}}
        ctx.case("joint", {"members": desc["members"], "op": desc["op"], "h": hash(b"".join(a.tobytes() for _, _, a in members)) % 10 ** 6}, nontrivial=len(members) >= 2)
        with quiet():
            shared = {}
            def store(a):      # members built from the same numbers share ONE array object
                if id(a) not in shared:
                    shared[id(a)] = impl_arr(a)
                return shared[id(a)]
            J = JointSamples({k: Samples(store(a), geometry=g.obj) for k, g, a in members})
        nf0 = len(ctx.failures)
        answers = {k: side_reads_before(ctx, J[k], jreads[k], "joint:burnthin:member", {**desc, "member": k}) for k, _, _ in members if k in jreads}
        snaps = {k: snapshot(J[k]) for k in J}
        try:
            with quiet():
                R = J.burnthin(op[1], op[2])
            impl = " | ".join(f"{k}:{state_str(R[k], g)}" for (k, g, a) in members if k in R) or "_"
            exc = None
        except Exception as e:
            R, exc = None, type(e).__name__
            impl = "err:" + exc
        key = "joint:burnthin"
        ok = True
        nf = nf0
        for k in answers:
            ok = reread_after(ctx, J[k], answers[k], key + ":member", {**desc, "member": k}) and ok
        if any(not untouched(J[k], snaps[k]) for k in snaps) or list(J.keys()) != [k for k, _, _ in members]:
            ok = False
            ctx.fail(key + ":source", desc, "unchanged", "changed", "JointSamples.burnthin modified its source")
        if op[1] >= 0 and op[2] >= 1:
            if R is not None:
                if type(R).__name__ != "JointSamples" or list(R.keys()) != [k for k, _, _ in members]:
                    ok = False
                    ctx.fail(key + ":keys", desc, [k for k, _, _ in members], list(R.keys()), "result does not have the same members")
                else:
                    for k, g, a in members:
                        ok = oracle_burnthin(ctx, key + ":member", {**desc, "member": k}, J[k], op[1], op[2], R[k], None) and ok
                        if k in jder and isinstance(R[k].samples, np.ndarray) and R[k].samples.shape[-1] >= 1:
                            mst = {}
                            if (ci, k) in dline:
                                parts = all_outs[dline[(ci, k)]].split(" | ")
                                mst[0] = parts[1] if len(parts) == 2 else None
                            ok = derived_checks(ctx, R[k], g, jder[k], key + ":member", {**desc, "member": k}, mst, g.exact) and ok
            elif all(op[1] < a.shape[-1] for _, _, a in members):
                ok = False
                ctx.fail(key + ":refused", desc, "member-wise result", exc, "JointSamples.burnthin refuses although every member has more samples than the burn-in")
        if impl != out:
            ctx.disagree(fkey(ctx, nf, key), desc, out[:300], impl[:300], "joint burnthin differs between model and implementation")


# ----------------------------------------------------------------------------- replay of one recorded case
def geom_from_spec(spec):
    """rebuild the cuqi geometry of a recorded case from its model spec"""
    from cuqi.geometry import Continuous1D, Continuous2D, Image2D, Discrete, MappedGeometry, StepExpansion
    f = spec.split(":")
    if f[0] == "id":
        d = int(f[1]); return G(None, spec, "default", d, (d,), d)
    if f[0] == "c1d":
        d = int(f[1]); return G(Continuous1D(d), spec, "cont1d", d, (d,), d)
    if f[0] == "disc":
        d = int(f[1]); return G(Discrete(d), spec, "discrete", d, (d,), d)
    if f[0] == "names":
        names = f[1].split(","); d = len(names)
        return G(Discrete(names), spec, "dupnames" if len(set(names)) < d else "names", d, (d,), d)
    if f[0] == "img":
        r, c = int(f[1]), int(f[2]); return G(Image2D((r, c), order=f[3]), spec, "img" + f[3], r * c, (r, c), r * c)
    if f[0] == "c2d":
        r, c = int(f[1]), int(f[2]); return G(Continuous2D((r, c)), spec, "c2d", r * c, (r, c), r * c, has_vec=False)
    if f[0] == "step":
        n, k = int(f[1]), int(f[2])
        grid = 2 + 0.7 * np.arange(n) if "x" in f[3] else np.linspace(0, 1, n)
        with quiet():
            return G(StepExpansion(grid, n_steps=k), spec, "stepbad" if "x" in f[3] else "step", k, (n,), n, exact=False)
    if f[0] == "tab":
        n, name = int(f[1]), f[2]
        user = name.startswith("user-")
        g = coupled_geom(None, name[5:] if user else name, n, user)
        g.tag = ":".join(f[:4]); g.spec = spec
        return g
    if f[0] == "map":
        a, b, kind = float(Fraction(f[1])), float(Fraction(f[2])), f[3]
        inner = geom_from_spec(":".join(f[4:]))
        if kind == "sq":
            obj = MappedGeometry(inner.obj, map=lambda x: x ** 2)
        elif kind == "affnoinv":
            obj = MappedGeometry(inner.obj, map=lambda x: a * x + b)
        else:
            obj = MappedGeometry(inner.obj, map=lambda x: a * x + b, imap=lambda y: (y - b) / a)
        return G(obj, spec, "map-" + kind, inner.par_dim, inner.fun_shape, inner.funvec_dim, has_vec=inner.has_vec, has_inv=(kind == "aff"))
    raise ValueError(spec)


def parse_op(s):
    f = s.split(":")
    return ("bt", int(f[1]), int(f[2])) if f[0] == "bt" else (f[0],)


def replay(ctx, rep):
    """re-executes the recorded case (sequence / statistics / joint) on the current tree with the
    implementation-only oracle; other kinds (or cases whose arrays were too large to record) re-run
    the whole check with the recorded seed."""
    cuqi = import_cuqi()
    from cuqi.samples import Samples, JointSamples
    item = rep.get("failure") or rep.get("disagreement") or {}
    case, key = item.get("case", {}), item.get("key", "")
    head = key.split(":")[0]
    n0 = len(ctx.failures)
    done = False
    try:
        if head in ("burnthin", "funvals", "vector", "parameters") and isinstance(case.get("samples"), list):
            g = geom_from_spec(case["geometry"])
            arr = np.array(case["samples"], dtype=float)
            rep_ = case["rep"]
            ip, iv = {"par": (True, True), "vec": (False, True), "fun": (False, arr.ndim <= 2), "raw": (False, False)}[rep_]
            with quiet():
                cur = Samples(arr.astype(case.get("dtype", "float64")), geometry=g.obj, is_par=ip, is_vec=iv)
            for k, o in enumerate(case["ops"]):
                op = parse_op(o)
                if "op" in case and k == case.get("step"):
                    op = parse_op(case["op"])
                answers = [(r, do_read(cur, r)) for r in case.get("side_reads_before_op", {}).get(str(k), [])]
                snap = snapshot(cur)
                R, exc = None, None
                try:
                    with quiet():
                        R = apply_op(cur, op)
                except Exception as e:
                    exc = type(e).__name__
                kk = f"{'burnthin' if op[0] == 'bt' else {'fv': 'funvals', 'vec': 'vector', 'par': 'parameters'}[op[0]]}:{g.kind}:{rep_}"
                if not untouched(cur, snap, strict=(op[0] == "bt")):
                    ctx.fail(kk + ":source", case, "source object unchanged", "changed")
                reread_after(ctx, cur, answers, kk, case)
                if op[0] == "bt" and op[1] >= 0 and op[2] >= 1:
                    oracle_burnthin(ctx, kk, case, cur, op[1], op[2], R, exc)
                elif op[0] != "bt" and exc is None:
                    oracle_convert(ctx, kk, case, cur, op[0], R, g)
                if exc is None and k == case.get("step") and case.get("derived") and R.samples.shape[-1] >= 1:
                    derived_checks(ctx, R, g, [case["derived"]], kk, {k2: v for k2, v in case.items() if k2 != "derived"}, {}, g.exact)
                if exc is not None or k == case.get("step"):
                    break
                cur = R
            done = True
        elif head == "stats" and isinstance(case.get("samples"), list):
            arr = np.array(case["samples"], dtype=float)
            p = case["percent"]
            with quiet():
                S = Samples(arr.astype(case.get("dtype", "float64")) * case.get("scale", 1.0) if case.get("scale", 1.0) != 1.0 else arr.astype(case.get("dtype", "float64")))
                sc = case.get("scale", 1.0)
                mean, med, var, std = S.mean() / sc, S.median() / sc, S.variance() / sc ** 2, S.std() / sc
                try:
                    ci, width = S.compute_ci(p) / sc, S.ci_width(p) / sc
                except Exception:
                    ci = width = None
            oracle_stats(ctx, ":".join(key.split(":")[:2]), case, arr, p, (mean, med, var, std, ci, width))
            done = True
        elif head == "joint":
            op = parse_op(case["op"])
            mem = [(k, geom_from_spec(spec), np.array(case["samples"][k], dtype=float)) for k, spec, _ in case["members"]]
            with quiet():
                J = JointSamples({k: Samples(a.astype(case.get("dtype", {}).get(k, "float64")), geometry=g.obj) for k, g, a in mem})
            answers = {k: [(r, do_read(J[k], r)) for r in rs] for k, rs in case.get("side_reads_before_op", {}).items() if k in J}
            try:
                with quiet():
                    R = J.burnthin(op[1], op[2])
            except Exception as e:
                R = None
                if op[1] >= 0 and op[2] >= 1 and all(op[1] < a.shape[-1] for _, _, a in mem):
                    ctx.fail("joint:burnthin:refused", case, "member-wise result", type(e).__name__)
            if R is not None and op[1] >= 0 and op[2] >= 1:
                if list(R.keys()) != [k for k, _, _ in mem]:
                    ctx.fail("joint:burnthin:keys", case, [k for k, _, _ in mem], list(R.keys()))
                else:
                    for k, g, a in mem:
                        oracle_burnthin(ctx, "joint:burnthin:member", {**case, "member": k}, J[k], op[1], op[2], R[k], None)
                        if k in answers:
                            reread_after(ctx, J[k], answers[k], "joint:burnthin:member", {**case, "member": k})
                        if case.get("derived") and case.get("member") == k and R[k].samples.shape[-1] >= 1:
                            derived_checks(ctx, R[k], g, [case["derived"]], "joint:burnthin:member", {k2: v for k2, v in case.items() if k2 != "derived"}, {}, g.exact)
            done = True
    except Exception as e:   # malformed replay file: fall back to the full run
        ctx.note(f"replay of the single case failed ({e!r}); running the whole check")
    if not done:
        ctx.seed = rep.get("seed", ctx.seed)
        import random
        ctx.rng = random.Random(f"{ctx.pid}-{ctx.seed}")
        lean_rep = ctx.lean.build_and_audit()
        run(ctx)
        return ctx.finish(lean_rep)
    new = ctx.failures[n0:]
    from harness.core import KnownMap
    known = KnownMap([k for k in ctx.known if k.get("status", "open") == "open"])
    unknown = [f for f in new if f["key"] not in known]
    for f in new:
        print(("KNOWN-FINDING" if f["key"] in known else "VIOLATION") + f" property=C19 key={f['key']} demanded={str(f['demanded'])[:80]} got={str(f['got'])[:80]}")
    if not new:
        print("[C19] replay: the property holds at the recorded input on the current tree")
    return 1 if unknown else 0
