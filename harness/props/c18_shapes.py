"""C18, session 3 (second pass) — `TimeDependentLinearPDE.solve` on form components of non-standard shapes (numpy
broadcasting and shape refusals), against `lean/CuqiVerif/Model/C18_shapes.lean` (driver op `timeb`).

Every class x n in {1,2,3} x both methods, deterministically.  Compared: refusal vs refusal, n = number of rows,
all levels, info.  Oracle (implementation only; only where the meaning is unambiguous: a full (n,n) operator, a
full initial condition, and a source that is a scalar / (1,) / (n,) / (1,n) array): the Euler recurrence per level
with the source value at every node.
"""
import numpy as np
from harness.core import quiet, q, qv, qm, pm


def check_shapes(ctx, cuqi, rng):
    from harness.props import c18 as base
    from cuqi.pde import TimeDependentLinearPDE
    cov = {"op": {}, "src": {}, "ic": {}, "outcome": {}}
    ctx.extra_cov["c18_shapes"] = cov
    cases, lines = [], []
    OPC = ["full", "scalar", "0d", "vec", "vec1", "mat1", "wrong", "wrong-vec"]
    SRC = ["full", "scalar", "vec1", "wrong", "col", "col1", "row"]   # (a python-list source: `np.float64 * [x]` is refused loudly by python for one-element lists; not generated)
    ICC = ["full", "scalar", "col", "list"]
    for n in (1, 2, 3):
        for method in ("forward_euler", "backward_euler"):
            combos = [(o, "full", "full") for o in OPC] + [("full", s, "full") for s in SRC[1:]] + [("full", "full", i) for i in ICC[1:]]
            combos += [(rng.choice(OPC[:6]), rng.choice(SRC[:3] + ["row"]), "full") for _ in range(3)]
            for oc, sc, icc in combos:
                A = -base.laplace(n) * 0 - np.diag([rng.randint(1, 4) / 2 for _ in range(n)]) + (np.diag(np.ones(n - 1), 1) / 4 if n > 1 else 0)
                b = base.dyv(rng, n); ic = base.dyv(rng, n) + 1.0
                c = -rng.randint(1, 4) / 4; s0 = rng.randint(-4, 4) / 2
                op, otok = {"full": (A, "mat:" + qm(A)), "scalar": (c, "sc:" + q(c)), "0d": (np.array(c), "sc:" + q(c)),
                            "vec": (np.diag(A).copy(), "vec:" + qv(np.diag(A))), "vec1": (np.array([c]), "vec:" + q(c)),
                            "mat1": (np.array([[c]]), "mat:" + q(c)), "wrong": (-np.eye(n + 1), "mat:" + qm(-np.eye(n + 1))),
                            "wrong-vec": (-np.ones(n + 2), "vec:" + qv(-np.ones(n + 2)))}[oc]
                src, stok = {"full": (b, "vec:" + qv(b)), "scalar": (s0, "sc:" + q(s0)), "vec1": (np.array([s0]), "vec:" + q(s0)),
                             "wrong": (np.ones(n + 1), "vec:" + qv(np.ones(n + 1))), "col": (b.reshape(-1, 1), "col:" + qv(b)),
                             "col1": (np.array([[s0]]), "col:" + q(s0)), "row": (b.reshape(1, -1), "row:" + qv(b)), "list": (b.tolist(), "vec:" + qv(b))}[sc]
                icv, itok = {"full": (ic, "vec:" + qv(ic)), "scalar": (1.5, "sc:3/2"), "col": (ic.reshape(-1, 1), "col:" + qv(ic)), "list": (ic.tolist(), "vec:" + qv(ic))}[icc]
                nt = rng.choice([2, 3, 3, 4])
                ts = np.cumsum([0.0] + [rng.choice([0.25, 0.5]) for _ in range(nt - 1)])
                skind = rng.choice(["default", "plain", "t2"])
                cases.append(dict(n=n, method=method, oc=oc, sc=sc, icc=icc, op=op, src=src, ic=icv, ts=ts, skind=skind, A=A, b=b, s0=s0, icfull=ic))
                lines.append(f"timeb {method} {base.make_solver(skind)[2]} {qv(ts)} {otok} {stok} {itok}")
    outs = yield lines
    for cs, out, line in zip(cases, outs, lines):
        if out == "bad-op":
            raise RuntimeError("C18 shapes driver line not understood: " + line[:200])
        n, method = cs["n"], cs["method"]
        desc = {"n": n, "method": method, "operator": cs["oc"], "source": cs["sc"], "initial_condition": cs["icc"], "time_steps": cs["ts"].tolist(),
                "A": cs["A"].tolist(), "b": cs["b"].tolist(), "solver": cs["skind"]}
        ctx.case("solve-shapes", desc)
        for h, k in (("op", cs["oc"]), ("src", cs["sc"]), ("ic", cs["icc"])):
            cov[h][k] = cov[h].get(k, 0) + 1
        key = f"TimeDependentLinearPDE.solve:{method}:shapes:op-{cs['oc']}:src-{cs['sc']}:ic-{cs['icc']}"
        solver, kwargs, _ = base.make_solver(cs["skind"])
        impl_err, u, info = None, None, None
        try:
            with quiet():
                P = TimeDependentLinearPDE(lambda p, t, cs=cs: (cs["op"], cs["src"], cs["ic"]), cs["ts"].copy(), method=method, linalg_solve=solver, linalg_solve_kwargs=kwargs)
                P.assemble(np.zeros(1))
                u, info = P.solve()
                u = np.asarray(u, dtype=float)
        except Exception as e:  # noqa
            impl_err = base.errname(e)
        oc = "refused" if impl_err else "returns"
        cov["outcome"][oc] = cov["outcome"].get(oc, 0) + 1
        # oracle where the meaning is unambiguous
        if cs["oc"] == "full" and cs["icc"] in ("full", "list") and cs["sc"] in ("full", "scalar", "vec1") + (("row",) if method == "forward_euler" or n == 1 else ()):
            bvec = cs["b"] if cs["sc"] in ("full", "row", "list") else np.full(n, cs["s0"])
            F = {"n": n, "A0": cs["A"], "b0": bvec, "c0": cs["icfull"]}
            if impl_err is not None:
                ctx.fail(key, desc, "levels satisfying the recurrence", impl_err, "solve raises on a form with a broadcastable source")
            else:
                res, _ = base.time_residual(F, np.zeros(1), cs["ts"], method, u)
                if not res <= base.TOL:
                    ctx.fail(key, desc, "every level satisfies the Euler recurrence with the source value at every node", f"scaled residual {res:.3e}",
                             "solve with a broadcast source violates the discrete equations")
        if out.startswith("err:") != (impl_err is not None):
            ctx.disagree(key, desc, out[:120], impl_err or base.short(u), "model and implementation differ in refusing the shapes")
            continue
        if impl_err is not None:
            continue
        _, mn, mlev, minfo = out.split(" ")
        rows = pm(mlev)
        lv = np.array([[float(x) for x in r] for r in rows], dtype=float).T
        if int(mn) != u.shape[0] or not base.arr_same(lv, u):
            ctx.disagree(key, desc, base.short(lv), base.short(u), "levels differ from the broadcasting model")
        if not base.info_matches(minfo, info):
            ctx.disagree(key, desc, minfo, repr(info)[:80], "info differs")
