"""C02, session-3 extension: the code AROUND the accept/reject transitions.

Whole sampler sessions are run on the real code under the scripted random stream of `c02.py`
(legacy: `sample(N, Nb)` with burn-in, `sample_adapt(N, Nb)` with the adaptation schedule, `step(x)`;
experimental: arbitrary interleavings of `warmup`, `sample`, `scale = …`, `get_state`/`set_state`),
every transition, every `tune` call and the returned / stored histories are recorded, and the whole
session is replayed on the loop model of `lean/CuqiVerif/Model/C02_chain.lean` (driver ops `leg`,
`exp`, `tune`, `tint`, `sarg`).  Every recorded transition is ALSO handed to the per-transition tie
and oracle of `c02.py` (so burn-in / adaptation / warm-up transitions are judged like all others).
"""
import math
import numpy as np
from fractions import Fraction
from harness.core import quiet, q, qv, pv, pm, close, vclose


def _bits(rows):
    return ";".join(",".join("1" if int(b) else "0" for b in np.atleast_1d(r)) for r in rows) if len(rows) else "_"


def _xval(tok):
    if tok == "nan":
        return math.nan
    if tok == "inf":
        return math.inf
    if tok == "-inf":
        return -math.inf
    return float(Fraction(tok))


def _xrows(tok):
    return [] if tok == "_" else [[_xval(v) for v in r.split(",")] for r in tok.split(";")]


def _logv(v):
    with np.errstate(all="ignore"):
        return [float(x) for x in np.log(np.atleast_1d(np.asarray(v, dtype=float)))]


class Session:
    pass


MARGINS = {}


def _margin(name, impl, model, rtol, atol):
    """record the largest observed deviation relative to the tolerance of a float comparison (1.0 = at the limit)"""
    a = np.atleast_1d(np.asarray(impl, dtype=float)); b = np.atleast_1d(np.asarray(model, dtype=float))
    if a.shape != b.shape:
        return
    m = np.isfinite(a) & np.isfinite(b)
    if not np.any(m):
        return
    r = float(np.max(np.abs(a[m] - b[m]) / (atol + rtol * np.abs(b[m]))))
    e = MARGINS.setdefault(name, {"max_dev_over_tol": 0.0, "rtol": rtol, "atol": atol, "n": 0})
    e["n"] += 1
    if r > e["max_dev_over_tol"]:
        e["max_dev_over_tol"] = r


def _pt_eq(impl, model_vec, tol=1e-12):
    """model point vs implementation point; the model's empty vector is the all-NaN point"""
    impl = np.asarray(impl, dtype=float).ravel()
    if len(model_vec) == 0:
        return bool(len(impl) > 0 and np.all(np.isnan(impl)))
    return bool(np.all(np.isfinite(impl))) and vclose(impl, model_vec, tol)


def _inp(B, t):
    """one transition as `z~ells~tstars~gstar~aux` (None: not replayable on the model)"""
    k = t.kernel
    if not t.queries:
        return None
    ell = lambda u: B.xs(math.log(u) if u > 0 else -math.inf)
    if k in ("expMH", "legMH"):
        if t.xi is None or len(t.us) != 1:
            return None
        return f"{qv(t.xi)}~{ell(t.us[0])}~{B.xs(t.queries[0][1])}~_~0"
    if k in ("expPCN", "legPCN"):
        if t.xi is None or len(t.us) != 1:
            return None
        s = float(t.scale[0])
        c = 0.0 if (s * s > 1 or not np.all(np.isfinite(t.x))) else float(np.sqrt(1 - s ** 2))   # NaN contraction / NaN point: model uses pcnNanStep
        return f"{qv(t.xi)}~{ell(t.us[0])}~{B.xs(t.queries[0][1])}~_~{q(c)}"
    if k in ("expMALA", "legMALA"):
        if t.z is None or len(t.us) != 1 or not t.gqueries:
            return None
        if not (np.all(np.isfinite(t.grad)) and np.all(np.isfinite(t.gqueries[0][1]))):
            return None
        return f"{qv(t.z)}~{ell(t.us[0])}~{B.xs(t.queries[0][1])}~{qv(t.gqueries[0][1])}~{q(t.sigma)}"
    d = t.sc.dim
    if t.z is None or len(t.us) != d or len(t.queries) != d or t.int_dtype:
        return None
    return f"{qv(t.z)}~{B.xsv([math.log(u) if u > 0 else -math.inf for u in t.us])}~{B.xsv([v for _, v in t.queries])}~_~0"


def _zetas(n):
    return qv([float(np.sqrt(i + 1)) for i in range(n)])


# ----------------------------------------------------------------------------- legacy sessions
def run_leg_session(B, cuqi, k, sc, mode, N, Nb, scale, x0, script, hook, records):
    S = Session()
    S.kind, S.kernel, S.sc, S.mode, S.N, S.Nb, S.x0 = "leg", k, sc, mode, N, Nb, np.array(x0, dtype=float)
    S.scale0 = B.arr(scale).copy()
    S.recs, S.call_scales = [], []
    if mode.startswith("step"):
        S.x0 = S.x0 + 0.5              # step(x) / step_tune(x) are called with a point that differs from the constructor's x0
    with quiet(), script.installed():
        if k == "legMALA":
            sc.use_rng = False
        s = B.build_sampler(cuqi, k, sc, scale, x0)
        hook.t = None
        orig = s.single_update

        def wrapped(*args):
            x = B.arr(args[0]).copy()
            t = B.new_T(k, sc, f"session-{mode}", len(S.recs), x, B.f1(args[1]),
                        B.arr(args[2]).copy() if k == "legMALA" else np.zeros(0), B.arr(s.scale).copy(), script, hook)
            S.call_scales.append(B.arr(s.scale).copy())
            res = orig(*args)
            hook.t = None
            B.finish_T(t, script)
            t.x1 = B.arr(res[0]).copy()
            t.logd1 = B.f1(res[1])
            t.grad1 = B.arr(res[2]).copy() if k == "legMALA" else np.zeros(0)
            t.acc = [int(a) for a in np.atleast_1d(res[-1])]
            S.recs.append(t)
            return res
        s.single_update = wrapped
        S.raised = None
        try:
            if mode == "A":
                S.res = s.sample_adapt(N, Nb)
            elif mode == "step":
                S.res = s.step(S.x0.copy())
            elif mode == "step_tune0":
                S.res = s.step_tune(S.x0.copy())
            elif mode == "step_tune1":
                S.res = s.step_tune(S.x0.copy(), 3)         # legacy tune() takes no argument
            else:
                S.res = s.sample(N, Nb)
        except (ZeroDivisionError, IndexError, ValueError, TypeError) as e:
            S.raised = type(e).__name__
        S.final_scale = B.arr(s.scale).copy() if s.scale is not None else None
    for i, t in enumerate(S.recs):
        records.append(("T", t))
        if i > 0:
            records.append(("chain", k, sc, S.recs[i - 1], t))
    if mode.startswith("step") and S.recs:
        records.append(("step-start", k, sc, S.x0.copy(), S.recs[0], mode))
    if S.raised is None and not mode.startswith("step") and k != "legCWMH" and hasattr(S.res, "samples"):
        chain = np.asarray(S.res.samples)
        if chain.ndim == 2 and S.res.loglike_eval is not None:
            records.append(("returned-cache", k, sc, chain.copy(), np.asarray(S.res.loglike_eval, dtype=float).ravel().copy(), (mode, N, Nb)))
        if chain.ndim == 2:
            pairs = [(c, Nb + c - 1) for c in range(chain.shape[1]) if 0 <= Nb + c - 1 < len(S.recs)]
            records.append(("stored", k, sc, [S.recs[i] for _, i in pairs], None, chain[:, [c for c, _ in pairs]]))
    return S


def leg_line(B, S):
    k, sc = S.kernel, S.sc
    d = sc.dim
    width = d if k == "legCWMH" else 1
    inps = [_inp(B, t) for t in S.recs]
    if any(i is None for i in inps):
        return None
    if S.mode.startswith("step_tune"):
        if len(S.recs) != 1 or (k == "legMALA" and not np.all(np.isfinite(S.recs[0].grad))):
            return None
        t0 = S.recs[0]
        return f"lstep {k} {d} {qv(S.x0)} {B.xs(t0.logd)} {qv(t0.grad)} {qv(S.scale0)} {S.mode[-1]} {inps[0]}"
    N, Nb = (2, 0) if S.mode == "step" else (S.N, S.Nb)
    mode = "A" if S.mode == "A" else "S"
    if S.recs:
        logd0, grad0 = S.recs[0].logd, S.recs[0].grad
    else:
        logd0 = sc.F(S.x0)
        grad0 = B.arr(sc.G(S.x0)) if k == "legMALA" else np.zeros(0)
    if k == "legMALA" and not np.all(np.isfinite(grad0)):
        return None
    # recorded leaves: the scale in force at each call; the n-th adaptation's new scale is the first later scale record
    prodNa = 0.1 * N
    ns = []
    if mode == "A" and k != "legMALA":
        Na = int(prodNa)
        if Na > 0:
            n_up = (N + Nb - 1) // Na
            for n in range(n_up):
                j = (n + 1) * Na            # index of the single_update call that follows the n-th adaptation
                ns.append(S.call_scales[j] if j < len(S.call_scales) else S.final_scale)
    S.ns = [np.broadcast_to(v, (width,)).astype(float) if v is not None else np.full(width, np.nan) for v in ns]
    lam0 = _logv(np.broadcast_to(S.scale0, (width,)))
    zs = _zetas(len(S.recs) + 2)
    nstok = ";".join(qv(v) for v in S.ns) if S.ns else "_"
    return (f"leg {k} float {width} {d} {mode} {N} {Nb} {q(prodNa)} {qv(S.x0)} {B.xs(logd0)} {qv(grad0)} {qv(S.scale0)} "
            f"{B.xsv(lam0)} {zs} {nstok} {'|'.join(inps) if inps else '_'}")


def leg_compare(B, S, out):
    """list of (field, model, impl)"""
    k = S.kernel
    diffs = []
    if out in ("bad-op", "err-cert", "err-leaf"):
        return [("driver", out, "ok")]
    if out == "err":
        if S.raised is None:
            diffs.append(("refusal", "raises (N + Nb = 0, or int(0.1*N) = 0 in sample_adapt)", "returned"))
        return diffs
    if S.raised is not None:
        return [("refusal", "returns a chain", "raised " + S.raised)]
    if S.mode.startswith("step_tune"):
        got = np.asarray(S.res, dtype=float).ravel()
        if not vclose(got, pv(out), 1e-12):
            diffs.append(("step_tune-result", out, [float(v) for v in got]))
        return diffs
    pts, logds, grads, scales, accs, trace, nupd = out.split()
    mp = pm(pts)
    res = S.res
    if S.mode == "step":
        got = np.asarray(res, dtype=float).ravel()
        if not (len(mp) == 2 and vclose(got, mp[-1], 1e-12)):
            diffs.append(("step-result", [float(v) for v in mp[-1]] if mp else None, [float(v) for v in got]))
        return diffs
    if hasattr(res, "samples"):
        chain = np.asarray(res.samples, dtype=float)
        le = None if res.loglike_eval is None else np.asarray(res.loglike_eval, dtype=float).ravel()
    else:
        chain = np.asarray(res, dtype=float).reshape(S.sc.dim, -1)
        le = None
    if chain.shape[1] != len(mp):
        diffs.append(("returned-length", len(mp), int(chain.shape[1])))
        return diffs
    if k != "legCWMH":       # legacy CWMH overwrites the stored previous column through a view (C14 finding): points not judged
        for c in range(chain.shape[1]):
            if not _pt_eq(chain[:, c], mp[c]):
                diffs.append(("returned-chain", {"column": c, "point": [float(v) for v in mp[c]]}, [float(v) for v in chain[:, c]]))
                break
    if le is not None:
        ml = [] if logds == "_" else logds.split(",")
        for c in range(min(len(ml), len(le))):
            if not (B.tok_eq_float(ml[c], le[c]) or (ml[c] not in ("nan", "inf", "-inf") and close(le[c], Fraction(ml[c]), 1e-12))):
                diffs.append(("returned-logd", {"column": c, "value": ml[c]}, repr(float(le[c]))))
                break
    # scale in force at each transition: state c of the model chain carries the scale it was produced with
    Nb = S.Nb
    msc = pm(scales)
    for c in range(len(msc)):
        call = Nb + c - 1
        if 0 <= call < len(S.call_scales):
            want = np.broadcast_to(S.call_scales[call], (len(msc[c]),))
            if not vclose(want, msc[c], 1e-12):
                diffs.append(("scale-in-force", {"transition": call, "scale": [float(v) for v in msc[c]]}, [float(v) for v in want]))
                break
    # acceptance rate returned
    ar = getattr(res, "acc_rate", None)
    if ar is not None and accs != "_":
        rows = [[int(b) for b in r.split(",")] for r in accs.split(";")]
        mean = np.mean(np.array(rows, dtype=float), axis=0)
        if not np.allclose(np.atleast_1d(ar), mean if k == "legCWMH" else mean[0], rtol=1e-12, atol=1e-12):
            diffs.append(("acc-rate", [float(v) for v in mean], [float(v) for v in np.atleast_1d(ar)]))
    # adaptation: number of updates and the Robbins-Monro values (log domain) against the scales the sampler really used
    tr = _xrows(trace)
    if len(tr) != len(S.ns):
        diffs.append(("adaptation-count", len(tr), len(S.ns)))
    else:
        for n, (lam, used) in enumerate(zip(tr, S.ns)):
            want = [min(math.exp(min(L, 50.0)), 1.0) if L == L else math.nan for L in lam]
            _margin("legacy:adapted-scale", used, want, 1e-9, 1e-300)
            if not np.allclose(used, want, rtol=1e-9, atol=1e-300, equal_nan=True):
                diffs.append(("adapted-scale", {"update": n, "min(exp(log lambd),1)": want}, [float(v) for v in used]))
                break
    return diffs


# ----------------------------------------------------------------------------- experimental sessions
def run_exp_session(B, cuqi, k, sc, phases, scale, x0, script, hook, records, ctx):
    """phases: list of ("W", Nb, tune_freq) | ("S", n) | ("R", value) | ("L",)"""
    S = Session()
    S.kind, S.kernel, S.sc, S.phases, S.x0 = "exp", k, sc, phases, np.array(x0, dtype=float)
    S.recs, S.tunes, S.ptoks, S.frame_fail, S.inits = [], [], [], None, []
    cur = {"recs": None, "sc": sc}
    width = sc.dim if k == "expCWMH" else 1

    def reinit(s, kind):
        scn = cur["sc"]
        x0_in = B.arr(s.initial_point).copy()                     # the INPUT of the operation (not read back from the state)
        sc0 = np.broadcast_to(B.arr(s.initial_scale), (width,)).astype(float).copy()
        scn.calls.clear(); scn.gcalls.clear()
        s.reinitialize()
        # recorded target values at the initial point (last evaluation there), not the sampler's own cache
        t0 = next((v for (p, v) in reversed(scn.calls) if np.array_equal(p, x0_in)), None)
        g0 = next((g for (p, g) in reversed(scn.gcalls) if np.array_equal(p, x0_in)), None) if k == "expMALA" else np.zeros(0)
        S.inits.append((t0, g0))
        S.ptoks.append((kind, (x0_in, sc0), None))

    def instrument(s):
        orig_step, orig_tune = s.step, s.tune

        def wstep():
            x, logd, grad, sca = B.exp_snapshot(k, s)
            t = B.new_T(k, cur["sc"], "session", len(S.recs), x, logd, grad, sca, script, hook)
            acc = orig_step()
            hook.t = None
            B.finish_T(t, script)
            t.x1, t.logd1, t.grad1, _ = B.exp_snapshot(k, s)
            t.acc = [int(a) for a in np.atleast_1d(acc)]
            S.recs.append(t)
            cur["recs"].append(t)
            return acc

        def wtune(skip_len, update_count):
            before = B.exp_snapshot(k, s)
            temp0 = _temp(k, s)
            accrows = [np.atleast_1d(a).copy() for a in s._acc]
            r = orig_tune(skip_len, update_count)
            after = B.exp_snapshot(k, s)
            S.tunes.append({"T": int(skip_len), "i": int(update_count), "temp0": temp0, "temp1": _temp(k, s), "acc": accrows,
                            "scale1": B.arr(s.scale).copy()})
            if not (np.array_equal(before[0], after[0], equal_nan=True) and B.same_float(before[1], after[1])
                    and np.array_equal(before[2], after[2], equal_nan=True)) and S.frame_fail is None:
                S.frame_fail = {"before": [[float(v) for v in before[0]], repr(before[1])], "after": [[float(v) for v in after[0]], repr(after[1])],
                                "skip_len": int(skip_len), "update_count": int(update_count)}
            return r
        s.step, s.tune = wstep, wtune

    with quiet(), script.installed():
        s = B.build_sampler(cuqi, k, sc, scale, x0)
        hook.t = None
        s.initialize()
        S.init = B.exp_snapshot(k, s)
        S.temp_init = _temp(k, s)
        instrument(s)
        for ph in phases:
            cur["recs"] = []
            if ph[0] == "W":
                s.warmup(ph[1], tune_freq=ph[2])
                S.ptoks.append(("W", q(float(ph[2] * ph[1])), cur["recs"]))
            elif ph[0] == "S":
                s.sample(ph[1])
                S.ptoks.append(("S", None, cur["recs"]))
            elif ph[0] == "R":
                s.scale = ph[1]
                S.ptoks.append(("R", B.arr(s.scale).copy(), None))
            elif ph[0] == "I":
                ip = s.initial_point
                if ph[1] == "new":
                    s.initial_point = np.arange(1, sc.dim + 1) / 2.0
                elif ph[1] == "inplace" and isinstance(ip, np.ndarray) and ip.dtype == np.float64 and ip.flags.writeable:
                    ip[:] = -np.arange(1, sc.dim + 1) / 4.0          # same object, mutated in place
                reinit(s, "I")
            elif ph[0] == "T":
                cur["sc"] = ph[1]
                s.target = B.build_target(cuqi, k, ph[1])
                reinit(s, "T")
            else:
                state = s.get_state()
                s2 = B.build_sampler(cuqi, k, cur["sc"], 0.3 if not k.endswith("CWMH") else scale, np.zeros(sc.dim) + 0.5)
                s2.initialize()
                s2.set_state(state)
                instrument(s2)
                s = s2
                S.ptoks.append(("L", None, None))
        S.final = B.exp_snapshot(k, s)
        S.temp_final = _temp(k, s)
        S.acc = [np.atleast_1d(a).copy() for a in s._acc]
        S.samples = [B.arr(v).copy() for v in s._samples]
    for t in S.recs:
        records.append(("T", t))
    return S


def _temp(k, s):
    if k == "expPCN":
        return np.atleast_1d(np.asarray(s.lambd, dtype=float)).copy()
    if k == "expMALA":
        return np.atleast_1d(np.asarray(s.scale, dtype=float)).copy()
    return np.atleast_1d(np.asarray(s._scale_temp, dtype=float)).copy()


def exp_line(B, S):
    k, sc = S.kernel, S.sc
    d = sc.dim
    width = d if k == "expCWMH" else 1
    toks = []
    ntrans = 0
    for kind, arg, recs in S.ptoks:
        if kind in ("W", "S"):
            inps = [_inp(B, t) for t in recs]
            if any(i is None for i in inps):
                return None
            ntrans += len(inps)
            body = "|".join(inps) if inps else "_"
            toks.append(f"W:{arg}:{body}" if kind == "W" else f"S:{body}")
        elif kind == "R":
            toks.append("R:" + qv(arg))
        elif kind in ("I", "T"):
            toks.append(f"{kind}:{qv(arg[0])}:{qv(arg[1])}:{B.xsv(_logv(arg[1]))}")
        else:
            toks.append("L")
    x, logd, grad, sca = S.init
    if k == "expMALA" and not np.all(np.isfinite(grad)):
        return None
    ns = [t["scale1"] for t in S.tunes] if k != "expMALA" else []
    nstok = ";".join(qv(v) for v in ns) if ns else "_"
    if any(t0 is None or g0 is None or not np.all(np.isfinite(g0)) for t0, g0 in S.inits):
        return None
    inits = "|".join(f"{B.xs(t0)}~{qv(g0)}" for t0, g0 in S.inits) if S.inits else "_"
    return (f"exp {k} float {width} {d} {qv(x)} {B.xs(logd)} {qv(grad)} {qv(sca)} {B.xsv(_logv(S.temp_init))} "
            f"{_zetas(ntrans + 2)} {nstok} {inits} {'#'.join(toks) if toks else '_'}")


def tune_lines(B, S):
    """one `tune` line per recorded tune call (window cut + Robbins-Monro step from the sampler's own `_acc`)"""
    if S.kernel == "expMALA":
        return []
    out = []
    for t in S.tunes:
        zi = float(np.sqrt(t["i"] + 1))
        out.append(f"tune {S.kernel} {S.sc.dim} {t['T']} {t['i']} {q(zi)} {B.xsv(_logv(t['temp0']))} {_bits(t['acc'])}")
    return out


def exp_compare(B, S, out):
    k = S.kernel
    if out in ("bad-op", "err-cert", "err-leaf"):
        return [("driver", out, "ok")]
    x, logd, grad, sca, lam, accs, smp, trace = out.split()
    diffs = []
    fx, flogd, fgrad, fsc = S.final
    if not _pt_eq(fx, pv(x)):
        diffs.append(("final-point", x, [float(v) for v in fx]))
    if not B.tok_eq_float(logd, flogd):
        diffs.append(("final-cached-logd", logd, repr(flogd)))
    if k == "expMALA" and not vclose(fgrad, pv(grad), 1e-12):
        diffs.append(("final-cached-grad", grad, [float(v) for v in fgrad]))
    if not vclose(fsc, pv(sca), 1e-12):
        diffs.append(("final-scale", sca, [float(v) for v in fsc]))
    if _bits(S.acc) != accs:
        diffs.append(("acc-history", accs[:200], _bits(S.acc)[:200]))
    ms = pm(smp)
    if len(ms) != len(S.samples) or not all(_pt_eq(a, b) for a, b in zip(S.samples, ms)):
        diffs.append(("stored-samples", len(ms), len(S.samples)))
    if k != "expMALA":
        tr = _xrows(trace)
        if len(tr) != len(S.tunes):
            diffs.append(("tune-count", len(tr), len(S.tunes)))
        else:
            for n, (ml, t) in enumerate(zip(tr, S.tunes)):
                il = _logv(t["temp1"])
                _margin("session:tuned-log-lambda", il, ml, 1e-9, 1e-9)
                _margin("session:tuned-scale", t["scale1"], [min(math.exp(min(L, 50.0)), 1.0) if L == L else math.nan for L in ml], 1e-9, 1e-300)
                if not np.allclose(il, ml, rtol=1e-9, atol=1e-9, equal_nan=True):
                    diffs.append(("tuned-log-lambda", {"update": n, "log_lambda": ml}, il))
                    break
                want = [min(math.exp(min(L, 50.0)), 1.0) if L == L else math.nan for L in ml]
                if not np.allclose(t["scale1"], want, rtol=1e-9, atol=1e-300, equal_nan=True):
                    diffs.append(("tuned-scale", {"update": n, "min(exp(log lambd),1)": want}, [float(v) for v in t["scale1"]]))
                    break
        ml = [_xval(v) for v in lam.split(",")]
        if not np.allclose(_logv(S.temp_final), ml, rtol=1e-9, atol=1e-9, equal_nan=True):
            diffs.append(("final-log-lambda", ml, _logv(S.temp_final)))
    return diffs


def tune_compare(B, t, out):
    if out in ("bad-op", "err-cert"):
        return [("driver", out, "ok")]
    lam1, sc1 = out.split()
    ml = [_xval(v) for v in lam1.split(",")]
    il = _logv(t["temp1"])
    diffs = []
    _margin("tune-call:log-lambda", il, ml, 1e-9, 1e-9)
    if not np.allclose(il, ml, rtol=1e-9, atol=1e-9, equal_nan=True):
        diffs.append(("tune-call", {"log_lambda_after": ml, "skip_len": t["T"], "update_count": t["i"]}, il))
    want = [math.exp(_xval(v)) if _xval(v) == _xval(v) else math.nan for v in sc1.split(",")]      # exp(capLog(log lambd)) = min(lambd, 1)
    if not np.allclose(t["scale1"], want, rtol=1e-9, atol=1e-300, equal_nan=True):
        diffs.append(("tune-call-scale", {"scale_after = min(lambd, 1)": want, "skip_len": t["T"], "update_count": t["i"]},
                      [float(v) for v in t["scale1"]]))
    return diffs


# ----------------------------------------------------------------------------- generators
def generate(B, ctx, cuqi, records, stats):
    """runs the sessions on the real code; returns the list of Session objects"""
    thorough = ctx.tier == "thorough"
    MARGINS.clear()
    sessions = []
    so = [0]

    def mk(k, seed_off, fams=("quad_plain", "quartic", "flat", "support")):
        rs = np.random.RandomState(31000 * ctx.seed + seed_off)
        fam = fams[seed_off % len(fams)]
        sc = B.make_scenario(rs, k, 6000 + seed_off, flat=(fam == "flat"),
                             extreme=(fam if fam in ("quad_plain", "quartic", "huge", "posinf", "steep4") else None))
        if fam == "support":
            sc = B.make_scenario(rs, k, 6000 + seed_off, extreme="support")
        sc.prop_mean = None
        if k.endswith("PCN"):
            sc.prior_mean = np.zeros(sc.dim)
        sc.cls = "std"
        x0 = rs.randint(-6, 7, size=sc.dim) / 2.0
        if getattr(sc, "fam", "") in ("support", "posinf"):
            x0[:max(1, sc.dim - 1)] = 0.5
        if fam == "huge":
            x0 = np.round(x0 / 8.0 * 4) / 4          # near the mode of a very peaked target: almost every proposal is rejected
        script = B.Script(ctx.seed * 7919 + 50000 + seed_off)
        hook = B.UHook(np.random.RandomState(ctx.seed * 104729 + 50000 + seed_off))
        script.u_hook = hook
        return rs, sc, x0, script, hook

    def scale_for(rs, k, dim):
        if k.endswith("PCN"):
            return float(rs.choice([0.25, 0.5, 1.0]))
        if k.endswith("MALA"):
            return float(rs.choice([0.25, 0.0625, 0.5]))
        if k == "expCWMH" and rs.rand() < 0.5:
            return rs.choice([0.25, 0.5, 1.0, 2.0], size=dim)
        return float(rs.choice([0.25, 0.5, 1.0, 2.0]))

    reps = 1 if not thorough else 6
    # legacy: burn-in lengths around the boundary cases, adaptation lengths with Na = 1, 2, 3 and N < 10 (refused)
    leg_modes = [("step_tune0", 2, 0), ("step_tune1", 2, 0), ("S", 4, 0), ("S", 3, 2), ("S", 1, 4), ("S", 2, 5), ("S", 1, 0), ("S", 0, 3), ("S", 0, 0), ("step", 2, 0),
                 ("A", 10, 0), ("A", 12, 3), ("A", 20, 1), ("A", 25, 11), ("A", 30, 0), ("A", 9, 2), ("A", 5, 0)]
    for k in ("legMH", "legPCN", "legMALA", "legCWMH"):
        for rep_ in range(reps):
            for (mode, N, Nb) in leg_modes:
                so[0] += 1
                rs, sc, x0, script, hook = mk(k, so[0])
                try:
                    S = run_leg_session(B, cuqi, k, sc, mode, N, Nb, scale_for(rs, k, sc.dim), x0, script, hook, records)
                    sessions.append(S)
                except Exception as e:
                    ctx.note(f"legacy session raised: {k} {mode} N={N} Nb={Nb}: {repr(e)[:160]}")
                    stats["session-raised"] = stats.get("session-raised", 0) + 1
    # experimental: interleavings of warm-up (several tuning intervals, tune_freq*Nb < 1, float products like 0.29*100),
    # sampling, scale assignment and state reload
    exp_phase_sets = [
        [("W", 12, 0.25), ("S", 3)],
        [("W", 30, 0.1), ("S", 2), ("W", 10, 0.1)],
        [("S", 2), ("W", 7, 0.29), ("L",), ("S", 2)],
        [("W", 5, 0.1), ("R", 0.5), ("W", 8, 0.5), ("S", 1)],
        [("W", 20, 0.15), ("L",), ("W", 9, 1.0 / 3), ("S", 2)],
        [("W", 1, 0.1), ("W", 3, 0.7), ("S", 1), ("R", 0.25), ("S", 2)],
        [("W", 40, 0.1)],
        [("S", 2), ("I", "new"), ("W", 8, 0.25), ("S", 2)],
        [("W", 8, 0.25), ("T",), ("S", 3), ("I", "same"), ("S", 1)],
        [("S", 1), ("I", "inplace"), ("R", 0.5), ("T",), ("W", 4, 0.5), ("L",), ("S", 2)],
    ]
    for k in ("expMH", "expPCN", "expMALA", "expCWMH"):
        for rep_ in range(reps):
            for pi, phases in enumerate(exp_phase_sets):
                so[0] += 1
                fams = ("flat", "quad_plain", "flat", "quartic") if pi in (1, 6) else ("quad_plain", "quartic", "flat", "support")
                rs, sc, x0, script, hook = mk(k, so[0], fams)
                ph = []
                for p in phases:
                    if p[0] == "R":
                        ph.append((p[0], (np.full(sc.dim, p[1]) if (k == "expCWMH" and rs.rand() < 0.5) else p[1])))
                    elif p[0] == "T":
                        so[0] += 1
                        sc2 = None
                        for tr_ in range(50):            # a second target of the same dimension
                            _, cand, _, _, _ = mk(k, so[0] + 1000 * tr_, fams)
                            if cand.dim == sc.dim:
                                sc2 = cand; break
                        if sc2 is None:
                            continue
                        ph.append(("T", sc2))
                    else:
                        ph.append(p)
                try:
                    S = run_exp_session(B, cuqi, k, sc, ph, scale_for(rs, k, sc.dim), x0, script, hook, records, ctx)
                    sessions.append(S)
                except Exception as e:
                    ctx.note(f"experimental session raised: {k} phases={pi}: {repr(e)[:160]}")
                    stats["session-raised"] = stats.get("session-raised", 0) + 1
    # ---- branches the histograms showed rarely or never hit (evidence: session_histogram["branch:*"]):
    #  (a) tuning / adaptation that DEcreases lambda and stays uncapped: very peaked targets with large scales (low acceptance);
    #  (b) NaN / -inf / +inf proposals inside experimental sessions (support-restricted and +inf-region targets), with tuning;
    for k in ("legMH", "legPCN", "legCWMH"):
        for rep_ in range(reps):
            for (N, Nb) in ((20, 0), (30, 5)):
                so[0] += 1
                rs, sc, x0, script, hook = mk(k, so[0], ("huge",))
                big = float(rs.choice([0.5, 1.0])) if k == "legPCN" else float(rs.choice([0.5, 1.0, 4.0]))
                try:
                    sessions.append(run_leg_session(B, cuqi, k, sc, "A", N, Nb, big, x0, script, hook, records))
                except Exception as e:
                    ctx.note(f"legacy low-acceptance session raised: {k}: {repr(e)[:160]}")
                    stats["session-raised"] = stats.get("session-raised", 0) + 1
    for k in ("expMH", "expPCN", "expCWMH", "expMALA"):
        for rep_ in range(reps):
            for fams, phases in ((("huge",), [("W", 20, 0.1), ("S", 2), ("W", 6, 0.5)]),
                                 (("support",), [("W", 10, 0.2), ("S", 4)]),
                                 (("posinf",), [("S", 3), ("W", 9, 1.0 / 3), ("L",), ("S", 2)]),
                                 (("support",), [("S", 2), ("I", "new"), ("W", 6, 0.5), ("S", 2)])):
                so[0] += 1
                rs, sc, x0, script, hook = mk(k, so[0], fams)
                if fams == ("huge",):
                    scale = float(rs.choice([0.5, 1.0])) if k == "expPCN" else (0.25 if k == "expMALA" else float(rs.choice([0.5, 1.0, 4.0])))
                else:
                    scale = 1.0 if k == "expPCN" else (0.25 if k == "expMALA" else float(rs.choice([1.0, 2.0, 4.0])))
                try:
                    sessions.append(run_exp_session(B, cuqi, k, sc, phases, scale, x0, script, hook, records, ctx))
                except Exception as e:
                    ctx.note(f"experimental branch session raised: {k} {fams}: {repr(e)[:160]}")
                    stats["session-raised"] = stats.get("session-raised", 0) + 1
    #  (c) pCN with scale > 1 INSIDE a session (constructor scale, or assigned between phases; tuning brings it back <= 1)
    for rep_ in range(reps):
        for (mode, N, Nb, big) in (("S", 3, 2, 1.5), ("S", 4, 0, 3.0), ("A", 12, 1, 1.25)):
            so[0] += 1
            rs, sc, x0, script, hook = mk("legPCN", so[0], ("quad_plain", "flat", "quartic"))
            try:
                sessions.append(run_leg_session(B, cuqi, "legPCN", sc, mode, N, Nb, big, x0, script, hook, records))
            except Exception as e:
                ctx.note(f"legacy pCN scale>1 session raised: {repr(e)[:160]}")
                stats["session-raised"] = stats.get("session-raised", 0) + 1
        for (scale, phases) in ((0.5, [("S", 2), ("R", 1.5), ("S", 3), ("W", 4, 0.5), ("S", 2)]),
                                (2.0, [("S", 3), ("L",), ("S", 2), ("W", 6, 0.5), ("S", 1)]),
                                (1.25, [("W", 3, 0.1), ("R", 3.0), ("S", 2), ("I", "same"), ("S", 2)])):
            so[0] += 1
            rs, sc, x0, script, hook = mk("expPCN", so[0], ("quad_plain", "flat", "quartic"))
            try:
                sessions.append(run_exp_session(B, cuqi, "expPCN", sc, phases, scale, x0, script, hook, records, ctx))
            except Exception as e:
                ctx.note(f"experimental pCN scale>1 session raised: {repr(e)[:160]}")
                stats["session-raised"] = stats.get("session-raised", 0) + 1
    return sessions


def lines_of(B, sessions, stats):
    """(lines, owners) — owners[i] = (session, kind, payload)"""
    lines, owners = [], []
    for S in sessions:
        ln = leg_line(B, S) if S.kind == "leg" else exp_line(B, S)
        if ln is None:
            stats["session-not-replayable"] = stats.get("session-not-replayable", 0) + 1
        else:
            lines.append(ln); owners.append((S, "session", None))
        if S.kind == "exp":
            for t, tl in zip(S.tunes, tune_lines(B, S)):
                lines.append(tl); owners.append((S, "tune", t))
    # glue: tune_interval = max(int(tune_freq*Nb), 1) and the scale=None handling
    for (nb, tf) in ((12, 0.25), (30, 0.1), (100, 0.29), (7, 0.29), (3, 0.7), (1, 0.1), (9, 1.0 / 3), (10, 0.7), (0, 0.1), (5, -0.5)):
        lines.append(f"tint {q(float(tf * nb))}"); owners.append((None, "tint", (nb, tf)))
    for (adapt, sc_) in ((0, None), (1, None), (0, 0.5), (1, 0.5)):
        lines.append(f"sarg {adapt} {'none' if sc_ is None else q(sc_)}"); owners.append((None, "sarg", (adapt, sc_)))
    return lines, owners


def judge(B, ctx, cuqi, owners, outs, new_fail_keys, stats):
    hist = {}
    for (S, kind, payload), out in zip(owners, outs):
        if kind == "tint":
            nb, tf = payload
            ctx.case("glue:tune-interval", {"Nb": nb, "tune_freq": tf})
            want = max(int(tf * nb), 1)          # the expression of Sampler.warmup, evaluated by Python itself
            seen = _observed_interval(cuqi, nb, tf) if nb > 0 else want
            if int(out) != seen:
                ctx.disagree("glue:tune-interval", {"Nb": nb, "tune_freq": tf}, int(out), seen, "tune_interval = max(int(tune_freq*Nb), 1)")
            continue
        if kind == "sarg":
            adapt, sc_ = payload
            ctx.case("glue:legacy-scale-none", {"adapt": adapt, "scale": sc_})
            seen = _observed_scale_arg(cuqi, adapt, sc_)
            mv = "err" if out == "err" else float(Fraction(out))
            if mv != seen:
                ctx.disagree("glue:legacy-scale-none", {"adapt": adapt, "scale": sc_}, mv, seen, "scale=None handling of legacy MH")
            continue
        k = S.kernel
        if kind == "tune":
            ctx.case(f"{k}:tune-call", {"target": S.sc.name, "skip_len": payload["T"], "update_count": payload["i"]})
            diffs = tune_compare(B, payload, out)
            if len(out.split()) == 2:
                for a, b0 in zip(out.split()[0].split(","), _logv(payload["temp0"])):
                    v = _xval(a)
                    bk = f"branch:tune:{k}:" + ("nan" if v != v else (("capped" if v > 0 else "uncapped") + (":up" if v > b0 else ":down")))
                    hist[bk] = hist.get(bk, 0) + 1
        else:
            desc = {"kernel": k, "target": S.sc.name, "x0": [float(v) for v in S.x0]}
            if S.kind == "leg":
                desc.update(mode=S.mode, N=S.N, Nb=S.Nb, scale=[float(v) for v in S.scale0])
                ctx.case(f"{k}:loop-{S.mode}", desc)
                hist[f"{k}:{S.mode}:N={S.N},Nb={S.Nb}"] = hist.get(f"{k}:{S.mode}:N={S.N},Nb={S.Nb}", 0) + 1
                diffs = leg_compare(B, S, out)
            else:
                desc.update(phases=_pdesc(S.phases), tune_calls=len(S.tunes))
                ctx.case(f"{k}:loop-exp", desc)
                hist[f"{k}:tunes={len(S.tunes)}"] = hist.get(f"{k}:tunes={len(S.tunes)}", 0) + 1
                diffs = exp_compare(B, S, out)
                if S.frame_fail is not None:
                    ctx.fail(f"{k}:{S.sc.cls}:tune-frame", {**desc, **S.frame_fail}, "tune() leaves the point and the cached density/gradient untouched",
                             "changed", "tune() changed the current point or a cached value between two transitions")
        if kind == "session":
            for t in S.recs:
                for a, (_, v) in zip(t.acc, t.queries):
                    cls = "nan" if v != v else ("-inf" if v == -math.inf else ("+inf" if v == math.inf else "finite"))
                    bk = f"branch:transition:{k}:{cls}:{'accept' if a else 'reject'}"
                    hist[bk] = hist.get(bk, 0) + 1
            if S.kind == "leg" and out not in ("err", "bad-op", "err-cert", "err-leaf") and not S.mode.startswith("step_tune"):
                for row in _xrows(out.split()[5]):
                    for v in row:
                        bk = f"branch:adapt:{k}:" + ("nan" if v != v else ("capped" if v > 0 else "uncapped"))
                        hist[bk] = hist.get(bk, 0) + 1
        for field, mv, iv in diffs:
            stats["loop-diff:" + field] = stats.get("loop-diff:" + field, 0) + 1
            desc = {"kernel": k, "target": S.sc.name, "x0": [float(v) for v in S.x0], "field": field,
                    "session": (S.mode, S.N, S.Nb) if S.kind == "leg" else _pdesc(S.phases)}
            key = new_fail_keys.get(k, f"{k}:{S.sc.cls}:session-tie:{field}")
            ctx.disagree(key, desc, mv, iv, f"loop model vs implementation: {field}")
    ctx.extra_cov["session_histogram"] = hist
    ctx.extra_cov["margins"] = {**ctx.extra_cov.get("margins", {}), **MARGINS}


def step_start_oracle(B, ctx, r):
    """ORACLE (implementation only): the transition made by legacy step(x) / step_tune(x) must start from x, with the
    target's log-density at x as cached value."""
    _, k, sc, xreq, t, mode = r
    ctx.case(f"{k}:step-start", {"target": sc.name, "mode": mode})
    if not np.array_equal(t.x, xreq):
        key = f"{k}:{sc.cls}:step-start"
        ctx.fail(key, {"kernel": k, "target": sc.name, "call": mode, "x": [float(v) for v in xreq]}, [float(v) for v in xreq],
                 [float(v) for v in t.x], "step(x) made its transition from a point other than x")
        return key
    return None


def returned_cache_oracle(B, ctx, r):
    """ORACLE (implementation only): the cached log-density (log-likelihood for pCN) a legacy sampler RETURNS for state c
    must be the value of the target at that returned state (the cached density describes the same point)."""
    _, k, sc, chain, le, (mode, N, Nb) = r
    for c in range(min(chain.shape[1], len(le))):
        ctx.case(f"{k}:returned-cache", {"target": sc.name, "column": c, "mode": mode, "N": N, "Nb": Nb})
        true = sc.F(chain[:, c])
        _margin("oracle:returned-cache", le[c], true, 1e-9, 1e-9)
        if not (B.same_float(le[c], true) or close(le[c], true, 1e-9)):
            ctx.fail(f"{k}:{sc.cls}:returned-cache", {"kernel": k, "target": sc.name, "call": f"{'sample_adapt' if mode == 'A' else 'sample'}({N}, {Nb})",
                                                        "column": c, "returned_state": [float(v) for v in chain[:, c]]},
                     repr(true), repr(float(le[c])), "the cached log-density returned with a state is not the log-density of that state")
            return f"{k}:{sc.cls}:returned-cache"
    return None


def _pdesc(phases):
    out = []
    for p in phases:
        row = [p[0]]
        for v in p[1:]:
            if isinstance(v, str):
                row.append(v)
            elif hasattr(v, "name") and hasattr(v, "F"):
                row.append("target=" + v.name)
            else:
                row.append(float(np.ravel(v)[0]))
        out.append(row)
    return out


def _observed_interval(cuqi, nb, tf):
    """the skip_len the real warmup loop hands to tune() (observed on a MALA sampler whose tune is a no-op)"""
    seen = []
    t = cuqi.distribution.UserDefinedDistribution(dim=1, logpdf_func=lambda x: -0.5 * float(np.sum(np.asarray(x) ** 2)),
                                                  gradient_func=lambda x: -np.asarray(x))
    with quiet():
        s = cuqi.experimental.mcmc.MALA(t, scale=0.25, initial_point=np.zeros(1))
        s.tune = lambda skip_len, update_count: seen.append(int(skip_len))
        st = np.random.get_state()
        try:
            s.warmup(nb, tune_freq=tf)
        finally:
            np.random.set_state(st)
    return seen[0] if seen else max(int(tf * nb), 1)


def _observed_scale_arg(cuqi, adapt, sc_):
    t = cuqi.distribution.UserDefinedDistribution(dim=1, logpdf_func=lambda x: -0.5 * float(np.sum(np.asarray(x) ** 2)))
    st = np.random.get_state()
    try:
        with quiet():
            s = cuqi.sampler.MH(t, scale=sc_, x0=np.zeros(1))
            seen = []
            orig = s.single_update
            def w(*a):
                seen.append(float(np.ravel(s.scale)[0])); return orig(*a)
            s.single_update = w
            try:
                (s.sample_adapt if adapt else s.sample)(10, 0)
            except ValueError:
                return "err"
        return seen[0]
    finally:
        np.random.set_state(st)
