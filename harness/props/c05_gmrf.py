"""C05, stream "gmrf-large": GMRF with singular precision (Neumann boundary conditions) on LARGE grids.

The sampler regularises the singular precision operator with a small identity shift before factorising; the
draws have covariance Mi P Mi / prec (Mi = (P + shift I)^-1) while `logpdf` uses the un-shifted P.  The relative
error of the variance along a direction with Rayleigh quotient rho (of P) is 2 shift / rho (theorem
`neumann_eig_bound`): invisible on the small grids of the basic GMRF stream, dominant for the smooth modes of a large
grid as soon as the shift is not tiny against the smallest non-zero eigenvalue (~ (pi/n)^2 for order 1, (pi/n)^4
for order 2).  This stream therefore covers the size axis: 1-D grids of 64..700 nodes (order 1), 24..60 (order 2),
2-D grids up to 20 x 20.

Tie: the read-off linear map B must satisfy the model's defining relation (P + 2^-26 I) (B / c) = D^T with the exact
integer P and D of the Lean model (thorough tier, dims <= 96; 1e-9 -- generating the operators costs ~2 s of Lean time).
Oracle (implementation only): for smooth directions w (low cosine modes, a random twice-integrated vector) the
bilinear form h(w, x) = w^T H x of the object's own log-density is evaluated by exact second differences (from the
object's own gradient when the normalising constant of its logpdf is not finite) and
    || B^T H w ||^2 = w^T H w        (i.e.  H (B B^T) H = H  along w)
is demanded with relative tolerance max(1e-7, 20 sqrt(eps) prec ||w||^2 / w^T H w)  -- ten times the proved perturbation
(2 sqrt(eps) / rho, theorem neumann_eig_bound) of the coded regularisation sqrt(eps).
"""
import math
import numpy as np
from harness.core import quiet, q, qv, qm, pm

SQRT_EPS = 2.0 ** -26


def smooth_directions(rs, pd, n, dim):
    out = []
    if pd == 1:
        i = np.arange(n) + 0.5
        for k in (1, 2, 3):
            out.append((f"cos{k}", np.cos(math.pi * k * i / n)))
        r = np.cumsum(np.cumsum(rs.choice([-1.0, 1.0], size=n)))
        r = r - r.mean()
        out.append(("twice-integrated-random", r / max(1.0, np.abs(r).max())))
    else:
        i = np.arange(n) + 0.5
        for (k, l) in ((1, 0), (0, 1), (1, 1)):
            out.append((f"cos{k}{l}", np.outer(np.cos(math.pi * k * i / n), np.cos(math.pi * l * i / n)).ravel()))
    return [(nm, 1000.0 * w) for (nm, w) in out]


def run_gmrf_large(ctx, cuqi, thorough, H):
    from cuqi.distribution import GMRF
    from cuqi.geometry import Image2D
    rs = np.random.RandomState(ctx.seed + 5252)
    cfgs = [(1, 1, 64), (1, 1, 96), (1, 1, int(rs.choice([400, 500, 700]))), (1, 2, 24), (1, 2, int(rs.choice([48, 60]))),
            (2, 1, int(rs.choice([10, 12]))), (2, 1, 20)]
    if thorough:
        cfgs += [(1, 1, 128), (1, 1, 256), (1, 1, 700), (1, 1, 1000), (1, 2, 40), (1, 2, 60), (2, 1, 16), (2, 1, 25), (2, 2, 10), (1, 1, 333)]
    lines, metas = [], []
    hist = {}
    for (pd, order, n) in cfgs:
        dim = n if pd == 1 else n * n
        prec = float(rs.choice([0.25, 0.5, 1.0, 4.0]))
        mean = H.rint(rs, -3, 3, size=dim).astype(float)
        desc = {"family": "GMRF", "physical_dim": pd, "order": order, "bc": "neumann", "n": n, "dim": dim, "prec": prec,
                "mean": "integers in [-3, 3] drawn from RandomState(seed + 5252)"}
        key = f"GMRF:neumann:{pd}D:order{order}:large"
        with quiet():
            G = GMRF(mean, prec, bc_type="neumann", order=order, **({} if pd == 1 else {"geometry": Image2D((n, n))}))
        rows = int(G._diff_op.shape[0])
        rng = H.Script(H.unit_plan(rows))
        s, err, untouched = H.call_sample(G, rows + 1, rng)
        m = dict(key=key, desc=desc, G=G, dim=dim, rows=rows, s=s, err=err, prec=prec, mean=mean, pd=pd, order=order, n=n, tie=(thorough and pd == 1 and dim <= 96))
        if m["tie"]:
            lines.append(f"gmrfP {order} neumann {n} {pd}")
            lines.append(f"gmrfD {order} neumann {n} {pd}")
        metas.append(m)
        hist[f"{pd}D:order{order}:dim{dim}"] = hist.get(f"{pd}D:order{order}:dim{dim}", 0) + 1
        if not untouched:
            ctx.fail(key + ":global-state", desc, "global numpy random state untouched when rng is given", "changed")
    outs = ctx.lean.drive(lines) if lines else []
    pos = 0
    worst, skipped, grad_used = {}, {}, {}
    max_res = [0.0]
    for m in metas:
        key, desc, G, dim, rows = m["key"], m["desc"], m["G"], m["dim"], m["rows"]
        ctx.case("gmrf-large", desc)
        if m["err"] is not None:
            ctx.disagree(key, desc, "a sample", m["err"], "sampling raises")
            ctx.fail(key, desc, "a sample", m["err"], "sampling raises for a supported boundary condition")
            if m["tie"]:
                pos += 2
            continue
        Si = H.values(m["s"])
        if Si.shape != (dim, rows + 1):
            ctx.disagree(key, desc, (dim, rows + 1), Si.shape, "shape of the draws")
            ctx.fail(key + ":wrap", desc, f"{rows + 1} columns of {dim} entries", str(Si.shape), "wrapping of several draws")
            if m["tie"]:
                pos += 2
            continue
        offset = Si[:, 0].copy()
        B = Si[:, 1:] - offset[:, None]
        c = 1.0 / math.sqrt(m["prec"])
        # ---- tie: defining relation of the model with its exact integer operators
        if m["tie"]:
            P = np.array([[float(x) for x in row] for row in pm(outs[pos])])
            D = np.array([[float(x) for x in row] for row in pm(outs[pos + 1])])
            pos += 2
            res = (P + SQRT_EPS * np.eye(dim)) @ (B / c) - D.T
            r = float(np.abs(res).max())
            max_res[0] = max(max_res[0], r)
            if not (np.allclose(offset, m["mean"], rtol=0, atol=1e-9) and r <= 1e-9):
                jj = int(np.argmax(np.abs(res).max(axis=0)))
                ctx.disagree(key, {**desc, "normal_vector": f"unit vector e_{jj}"}, "(P + 2^-26 I) (draw - mean) sqrt(prec) = D^T xi  (residual <= 1e-9)",
                             {"max_residual": r}, "defining relation of the Neumann draw (regularisation shift / operators)")
        # ---- oracle: H (B B^T) H = H along smooth directions, H read from the object's own logpdf
        mu = offset
        with quiet():
            f0 = H.logpdf1(G, mu)
            fb = np.array([H.logpdf1(G, mu + B[:, j]) for j in range(rows)])
        use_grad = not (math.isfinite(f0) and np.all(np.isfinite(fb)))
        if use_grad:
            # the normalising constant of the object's logpdf is not finite (log of a non-positive eigenvalue estimate:
            # a C04 matter); the shape of the same density is then read from the object's own gradient
            grad_used[key] = grad_used.get(key, 0) + 1
        for (nm, w) in smooth_directions(rs, m["pd"], m["n"], dim):
            if use_grad:
                try:
                    with quiet():
                        Hw = -(np.asarray(G.gradient(mu + w), dtype=float) - np.asarray(G.gradient(mu), dtype=float))
                except Exception:
                    skipped[key] = skipped.get(key, 0) + 1
                    continue
                hww = float(w @ Hw)
                hwb = B.T @ Hw
            else:
                with quiet():
                    fw = H.logpdf1(G, mu + w)
                    fwm = H.logpdf1(G, mu - w)
                    fwb = np.array([H.logpdf1(G, mu + w + B[:, j]) for j in range(rows)])
                hww = -(fw + fwm - 2.0 * f0)                      # w^T H w
                hwb = -(fwb - fw - fb + f0)                       # (B^T H w)_j
            if not (hww > 0 and np.all(np.isfinite(hwb))):
                skipped[key] = skipped.get(key, 0) + 1
                continue
            lhs = float(hwb @ hwb)
            dev = abs(lhs / hww - 1.0)
            rho = hww / (m["prec"] * float(w @ w))            # Rayleigh quotient of the structure matrix
            tol = max(1e-7, 20.0 * SQRT_EPS / rho)
            worst[key] = max(worst.get(key, 0.0), dev / tol)
            ctx.case("gmrf-large-direction", {**desc, "direction": nm})
            if dev > tol:
                ctx.fail(key, {**desc, "direction": f"1000 * {nm} (grid function)", "N": rows + 1, "normal_vectors": "0, e_1, …, e_rows"},
                         {"w^T H (B B^T) H w / w^T H w": 1.0, "relative_tolerance": tol},
                         {"ratio": lhs / hww, "rayleigh_quotient_of_structure_matrix": rho, "variance_along_direction_relative_to_density": lhs / hww},
                         "variance of the draws along a smooth direction is not the one implied by the log-density of the same object (covariance is not the pseudo-inverse of the precision)")
                break
    ctx.extra_cov["gmrf_large"] = {"configs": hist, "worst_deviation_over_tolerance": {k: round(v, 4) for k, v in worst.items()},
                                   "tie_max_residual_vs_tol_1e-9": max_res[0], "directions_skipped_nonfinite": skipped, "density_shape_from_gradient": grad_used}
