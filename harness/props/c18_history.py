"""C18, session 3 (second pass) — ONE `TimeDependentLinearPDE` object (inside ONE `PDEModel`) driven through a random
history of calls, against the state machine of `lean/CuqiVerif/Model/C18_history.lean` (driver op `hist`).

After EVERY call: the returned value (levels + info / refusal), `_parameter`, and the assembled attributes
`diff_op`, `rhs`, `initial_condition` (= the form at the (parameter, time) the model says they were assembled for).
Oracle (implementation only): every array returned by `solve()` / the forward call satisfies the per-level Euler
recurrence for the parameter assembled last, the CURRENT method and the CURRENT time grid.
"""
import numpy as np
from harness.core import quiet, q, qv, pv, pm

OPS = ["a", "a", "as", "s", "s", "m", "ts", "f", "f"]
METHOD_NAMES = ["forward_euler", "backward_euler", "forward_euler", "backward_euler", "Forward_Euler", "BACKWARD_EULER", "rk4", ""]


def check_object_histories(ctx, cuqi, rng, nobj):
    from harness.props import c18 as base
    from cuqi.pde import TimeDependentLinearPDE
    from cuqi.model import PDEModel
    from cuqi.geometry import Continuous1D
    cov = {"ops": {}, "outputs": {}, "solver": {}, "state_checks": 0, "solves_checked": 0}
    ctx.extra_cov["c18_object_histories"] = cov

    def bump(h, k):
        cov[h][k] = cov[h].get(k, 0) + 1

    objs, lines = [], []
    for c in range(nobj):
        n = rng.choice([1, 2, 3, 4])
        flavour = ["heat-ic", "op-t", "heat-source", "ic-t", "heat-source-t"][c % 5]
        F, npar = base.gen_time_family(rng, n, flavour)
        if F.get("A0") is not None and flavour != "general":
            F["A0"] = base.laplace(n)
        skind = ["plain", "t2", "default", "t0", "raise", "t3"][c % 6] if c < 12 else rng.choice(["plain", "t2", "default", "t1", "t3"])
        solver, kwargs, dk = base.make_solver(skind)
        method0 = rng.choice(["forward_euler", "backward_euler"])

        def new_ts():
            k = rng.choice([1, 2, 2, 3, 4])
            ts = np.cumsum([0.0] + [rng.choice([0.125, 0.25, 0.25, 0.5]) for _ in range(k - 1)]) + rng.choice([0.0, 0.5])
            return ts
        ts0 = new_ts()
        ops = []
        nops = rng.randint(6, 11)
        for i in range(nops):
            kind = rng.choice(OPS) if i > 0 else rng.choice(["s", "as", "a", "f"])      # refusals before the first assemble included
            if kind == "a":
                ops.append(("a", base.dyv(rng, npar)))
            elif kind == "as":
                ops.append(("as", rng.choice([0.0, 0.25, 0.75, 3.0, -1.0])))
            elif kind == "s":
                ops.append(("s", None))
            elif kind == "m":
                ops.append(("m", rng.choice(METHOD_NAMES)))
            elif kind == "ts":
                ops.append(("ts", new_ts() if rng.random() < 0.9 else np.zeros(0)))
            else:
                ops.append(("f", base.dyv(rng, npar)))
        toks = []
        for k, v in ops:
            toks.append({"a": lambda: "a:" + qv(v), "as": lambda: "as:" + q(v), "s": lambda: "s", "m": lambda: "m:" + v,
                         "ts": lambda: "ts:" + (qv(v) if len(v) else ""), "f": lambda: "f:" + qv(v)}[k]())
        lines.append(f"hist {n} {method0} {dk} {qv(ts0)} {base.fam_tokens(F)} {npar} {'|'.join(toks)}")
        objs.append(dict(n=n, F=F, npar=npar, skind=skind, solver=solver, kwargs=kwargs, method0=method0, ts0=ts0, ops=ops, flavour=flavour))
    outs = yield lines
    for ob, out, line in zip(objs, outs, lines):
        if out == "bad-op":
            raise RuntimeError("C18 history driver line not understood: " + line[:300])
        F, n = ob["F"], ob["n"]
        desc = {"n": n, "flavour": ob["flavour"], "solver": ob["skind"], "method": ob["method0"], "time_steps": ob["ts0"].tolist(),
                "ops": [[k, (v.tolist() if isinstance(v, np.ndarray) else v)] for k, v in ob["ops"]]}
        ctx.case("object-history", desc)
        bump("solver", ob["skind"])
        with quiet():
            pde = TimeDependentLinearPDE(lambda par, t, F=F: base.fam_eval(F, par, t), ob["ts0"].copy(), method=ob["method0"],
                                         linalg_solve=ob["solver"], linalg_solve_kwargs=ob["kwargs"])
            model = PDEModel(pde, Continuous1D(n), Continuous1D(ob["npar"]))
        pde.observe = lambda sol: sol          # the forward call is compared up to (not including) observe
        mouts = out.split("|")
        cur_p, cur_ts, cur_m = None, ob["ts0"], ob["method0"]
        last_known = True
        for i, ((kind, v), mo) in enumerate(zip(ob["ops"], mouts)):
            key = f"TimeDependentLinearPDE.object-history:{kind}"
            d2 = dict(desc, failing_op_index=i)
            bump("ops", kind)
            mf = mo.split("~")
            impl_err, ret = None, None
            try:
                with quiet():
                    if kind == "a":
                        pde.assemble(v.copy()); cur_p = v
                    elif kind == "as":
                        pde.assemble_step(v)
                    elif kind == "s":
                        ret = pde.solve()
                    elif kind == "m":
                        pde.method = v; cur_m = v
                    elif kind == "ts":
                        pde.time_steps = v.copy(); cur_ts = v
                    else:
                        cur_p = v
                        r = model._forward_func(v.copy())
                        ret = (r, "forward")
            except Exception as e:  # noqa
                impl_err = base.errname(e)
            # ---- oracle on every returned solution (implementation only)
            if ret is not None:
                u = np.asarray(ret[0], dtype=float)
                cov["solves_checked"] += 1
                good_shape = u.shape == (n, len(cur_ts))
                res = np.inf
                if good_shape and cur_m in ("forward_euler", "backward_euler"):
                    res, _ = base.time_residual(F, cur_p, np.asarray(cur_ts, dtype=float), cur_m, u)
                if not (good_shape and res <= base.TOL):
                    ctx.fail(key, d2, "every level satisfies the Euler recurrence for the parameter assembled last, the current method and time grid",
                             f"shape {u.shape}, scaled residual {res:.3e}", "solution returned on a re-used object violates the discrete equations (stale state)")
            # ---- tie: output
            m_err = mf[0].startswith("err:")
            if m_err != (impl_err is not None):
                ctx.disagree(key, d2, mo[:120], impl_err or "returns", "model and implementation differ in refusing the call")
                bump("outputs", "mismatch")
                break
            if impl_err is not None:
                bump("outputs", "refused:" + impl_err)
                if kind in ("s", "f"):
                    last_known = False
            elif mf[0] == "ok":
                bump("outputs", "solved")
                rows = pm(mf[1])
                lv = np.array([[float(x) for x in r] for r in rows], dtype=float).T if rows else np.zeros((n, 0))
                if not base.arr_same(lv, np.asarray(ret[0], dtype=float)):
                    ctx.disagree(key, d2, base.short(lv), base.short(ret[0]), "levels returned on the re-used object differ from the state-machine model")
                if kind == "s" and not base.info_matches(mf[2], ret[1]):
                    ctx.disagree(key, d2, mf[2], repr(ret[1])[:80], "info returned on the re-used object differs")
                last_known = True
            else:
                bump("outputs", "unit")
                if kind == "as":
                    last_known = True
            # ---- tie: state after the call
            ptok, ltok = mf[-2], mf[-1]
            ip = getattr(pde, "_parameter", None)
            cov["state_checks"] += 1
            if (ptok == "none") != (ip is None) or (ip is not None and not base.arr_same(np.array([float(x) for x in pv(ptok)]), np.asarray(ip, dtype=float), 0.0)):
                ctx.disagree(key, d2, "_parameter=" + ptok, repr(ip)[:80], "_parameter after the call differs")
            if last_known:
                has = hasattr(pde, "diff_op")
                if (ltok == "none") != (not has):
                    ctx.disagree(key, d2, "assembled=" + ltok, f"diff_op present: {has}", "assembled attributes after the call differ")
                elif has:
                    lp, lt = ltok.split("@")
                    A, b, ic = base.fam_eval(F, np.array([float(x) for x in pv(lp)]), float(pv(lt)[0]))
                    if not (base.arr_same(A, np.asarray(pde.diff_op, dtype=float), 1e-12) and base.arr_same(b, np.asarray(pde.rhs, dtype=float), 1e-12)
                            and base.arr_same(ic, np.asarray(pde.initial_condition, dtype=float), 1e-12)):
                        ctx.disagree(key, d2, f"form at (p, t) = {ltok}", "other contents", "diff_op / rhs / initial_condition after the call are not the form at the (parameter, time) of the last assemble_step")
