"""C10, session-3 extension: the glue around the GMRF quadratic forms -- `GMRF.__init__` refusals (order outside 0..2,
unknown / unsupported boundary condition, parameter dimension 1) and the `GMRF.prec` setter on the value of the callable
(one-element array unwrapped, longer array refused at the first step although it passes the entry-wise identity probe).
Model: `gmrfAccepts`, `gmrfPrecOf` (`lean/CuqiVerif/Model/C10_stencil.lean`), used by the driver ops `gmrf` / `gmrfs`.
Demanded: refusal (anywhere before a draw is returned) vs sampling, and for sampled targets the Gamma's parameters and the
proportionality oracle.  Not demanded: where / with which exception class the refusal happens."""
import numpy as np
from harness.core import quiet, q, qv, pq, close


def cases(ctx):
    n = 4
    out = []
    for order, bc, dim, fkind in [(3, "zero", n, "id"), (5, "periodic", n, "id"), (1, "dirichlet", n, "id"), (1, "backward", n, "id"),
                                  (0, "none", n, "id"), (1, "zero", 1, "id"), (2, "neumann", 1, "id"), (1, "zero", n, "vec"),
                                  (2, "periodic", n, "vec"), (1, "zero", n, "len1"), (0, "neumann", n, "len1"), (1, "zero", n, "vec-tol"),
                                  (1, "zero", n, "id"), (2, "zero", 2, "id"), (1, "periodic", 2, "id"), (2, "neumann", 3, "id")]:
        rng = ctx.rng
        out.append({"order": order, "bc": bc, "n": dim, "fkind": fkind, "mean": [rng.randint(-8, 8) / 4 for _ in range(dim)],
                    "b": [rng.randint(-16, 16) / 4 for _ in range(dim)], "alpha": rng.randint(4, 40) / 4, "beta": rng.randint(4, 40) / 4})
    return out


def callable_of(c):
    k, n = c["fkind"], c["n"]
    if k == "id":
        return lambda d: d
    if k == "vec":
        return lambda d: d * np.ones(n)
    if k == "vec-tol":
        return lambda d: d * np.array([1.0, 1.0 + 2.0 ** -19, 1.0, 1.0 - 2.0 ** -18][:n])
    return lambda d: d * np.array([1.0 + 2.0 ** -19])


def prepare_gmrf_glue(ctx, cuqi, thorough):
    cs = cases(ctx)
    lines = []
    for c in cs:
        f1 = np.asarray(callable_of(c)(np.array([1.0])), dtype=float).ravel()
        bc = c["bc"] if c["bc"] in ("zero", "periodic", "neumann", "backward", "none") else "backward"   # any unsupported bc
        lines.append(f"gmrf 0 {c['order']} {bc} 1 {c['n']} {qv(f1)} {qv(c['mean'])} {qv(c['b'])} {q(c['alpha'])} {q(c['beta'])}")
    return lines, cs


def finish_gmrf_glue(ctx, cuqi, cs, lines, outs):
    import harness.props.c10 as base
    D = cuqi.distribution
    hist = ctx.extra_cov.setdefault("gmrf_glue", {})
    for c, out in zip(cs, outs):
        if out == "bad-op":
            raise RuntimeError(f"driver rejected gmrf glue line for {c}")
        desc = {k: c[k] for k in ("order", "bc", "n", "fkind", "alpha", "beta")}
        desc.update({"mean": c["mean"], "b": c["b"]})
        for iface in ("exp", "leg"):
            ctx.case(f"gmrf-glue-{iface}", desc)
            key = f"tie:{iface}:GMRF-glue:{c['fkind']}:order{c['order']}:{c['bc']}:n{c['n']}"
            stage, calls, post = "sampled", [], None
            try:
                with quiet():
                    x = D.GMRF(np.array(c["mean"]), prec=callable_of(c), bc_type=c["bc"], order=c["order"], name="x")
                    post = D.Posterior(x.to_likelihood(np.array(c["b"])), D.Gamma(c["alpha"], c["beta"], name="d"))
            except Exception as e:
                stage = f"construction:{type(e).__name__}"
            if post is not None:
                try:
                    with quiet():
                        smp = (cuqi.experimental.mcmc.Conjugate if iface == "exp" else cuqi.sampler.Conjugate)(post)
                except Exception as e:
                    stage = f"validator:{base.classify(e)}"
                else:
                    try:
                        with base.Capture(cuqi) as cap, quiet():
                            smp.step()
                        calls = cap.calls
                    except Exception as e:
                        stage = f"step:{type(e).__name__}"
            hist[f"{iface}:{c['fkind']}:{stage}"] = hist.get(f"{iface}:{c['fkind']}:{stage}", 0) + 1
            refused = stage != "sampled"
            if out == "err" and not refused and c["fkind"] in ("vec", "vec-tol"):
                # the `prec` setter unwrapped a vector valued precision instead of refusing it: not demanded by the property as
                # long as what is then drawn is the exact conditional of the target's own density -- oracle only (zero bc: no
                # listed finding interferes), recorded in the evidence
                hist[f"{iface}:lenient-prec-setter"] = hist.get(f"{iface}:lenient-prec-setter", 0) + 1
                if c["bc"] == "zero":
                    spec = {"name": "d", "fam": "gmrf", "reg": False, "bc": c["bc"], "order": c["order"], "pd": 1, "n": c["n"]}
                    base.check_exactness(ctx, key + ":refusal", None, desc, spec, post, calls, None, force=True)
                continue
            if (out == "err") != refused:
                ctx.disagree(key + ":refusal", desc, out[:40], stage, "GMRF target refused by one side only (constructor / prec setter glue)")
                if not refused:
                    spec = {"name": "d", "fam": "gmrf", "reg": False, "bc": c["bc"], "order": c["order"], "pd": 1, "n": c["n"]}
                    base.check_exactness(ctx, key + ":refusal", None, desc, spec, post, calls, None, force=True)
                continue
            if refused:
                continue
            toks = out.split()
            model = {"shape": pq(toks[0]), "rate": pq(toks[1]), "tlog": pq(toks[2]), "tlin": pq(toks[3])}
            if len(calls) != 1 or len(calls[0]["shape"]) != 1:
                ctx.disagree(key + ":draw", desc, "one scalar gamma draw", f"{len(calls)} draws")
                continue
            shape, rate = float(calls[0]["shape"][0]), 1.0 / float(calls[0]["scale"][0])
            same = close(shape, model["shape"], base.SHAPE_TOL) and close(rate, model["rate"], base.SHAPE_TOL)
            if not same:
                ctx.disagree(key + ":params", desc, [str(model["shape"]), str(model["rate"])], [shape, rate], "Gamma drawn from differs from the model")
            spec = {"name": "d", "fam": "gmrf", "reg": False, "bc": c["bc"], "order": c["order"], "pd": 1, "n": c["n"]}
            fk = f"GMRF:{c['bc']}:order{c['order']}:1D"
            base.check_exactness(ctx, key + ":params", f"{iface}:{fk}", desc, spec, post, calls, model, force=not same)
