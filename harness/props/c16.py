"""C16 — solvers return points that satisfy the optimality conditions of their problem.

Correspondence: the implementation's CGLS / PCGLS / FISTA / LM runs (both operator forms, dense and
sparse, iterate by iterate) against the exact-rational execution of the Lean model
(`lean/Driver/C16.lean`); projections / soft-thresholding compared exactly; SciPy wrappers against
direct SciPy calls and against the model's translation table.
Oracle (implementation only, independent numpy): residual of the optimality system of the
returned point when the solver is run to convergence.
"""
import math, sys
import numpy as np
import scipy.sparse as sp
import scipy.optimize as sopt
from fractions import Fraction
from harness.core import import_cuqi, quiet, q, qv, qm, pv, pm, close, vclose

TOL = 1e-9
LM_SCALES = [1.0, 1.0, 2.0 ** -17, 2.0 ** -10, 2.0 ** -7, 2.0 ** -3, 2.0 ** 3, 2.0 ** 10]     # residual scale c = sqrt(lambda): |g0| ~ c^2 spans 1e-10 … 1e6
SCALES = [1.0, 1.0, 1.0, 2.0 ** -27, 2.0 ** -13, 2.0 ** -7, 2.0 ** 7, 2.0 ** 13, 2.0 ** 27]
if hasattr(sys, "set_int_max_str_digits"):
    sys.set_int_max_str_digits(0)      # exact LM iterates have long numerators


# ----------------------------------------------------------------------------- generators
def gen_matrix(rs, m, n, sparse):
    """small-integer matrix with full min(m,n) rank and modest conditioning"""
    for _ in range(200):
        A = rs.randint(-3, 4, size=(m, n)).astype(float)
        if sparse:
            A *= (rs.rand(m, n) < 0.55)
        sv = np.linalg.svd(A, compute_uv=False)
        r = min(m, n)
        if sv[r - 1] > 0.35 and sv[0] / sv[r - 1] < 12 and not (np.abs(A).sum(axis=0) == 0).any() \
                and not (np.abs(A).sum(axis=1) == 0).any():
            return A
    return np.eye(m, n) * 2.0 + (np.arange(m * n).reshape(m, n) % 2)


def gen_precond(rs, n, style):
    for _ in range(200):
        if style == "diag":
            P = np.diag(rs.choice([0.5, 1.0, 2.0, 4.0], size=n))
        elif style == "tri":
            P = np.tril(rs.randint(-1, 2, size=(n, n))).astype(float)
            np.fill_diagonal(P, rs.choice([1.0, 2.0, 4.0], size=n))
        else:
            P = rs.randint(-1, 2, size=(n, n)).astype(float) + 3.0 * np.eye(n)
        if abs(np.linalg.det(P)) > 0.5 and np.linalg.cond(P) < 20:
            return P
    return np.eye(n)


def start_vector(rs, n):
    c = rs.randint(0, 3)
    if c == 0:
        return np.zeros(n)
    if c == 1:
        return rs.randint(-3, 4, size=n).astype(float)
    return rs.randint(-8, 9, size=n) / 4.0


class RecMat:
    """matrix-like operand (not callable): `M @ x`, `M.T @ r`"""
    def __init__(self, A, log=None, tag="f"):
        self.A, self.log, self.tag = A, ([] if log is None else log), tag
    def __matmul__(self, x):
        self.log.append((self.tag, np.array(x, dtype=float).copy()))
        return self.A @ x
    @property
    def T(self):
        return RecMat(self.A.T, self.log, "a")


def fun_form(A):
    return lambda x, flag: (A @ x) if flag == 1 else (A.T @ x)


def parse_cg(out):
    k, flag, x, gamma, trace, gammas = out.split("|")
    return int(k), flag == "1", [float(v) for v in pv(x)], pv(gammas), [[float(v) for v in r] for r in pm(trace)]


def shape_class(m, n):
    return "over" if m > n else ("square" if m == n else "under")


# ----------------------------------------------------------------------------- main
def run(ctx):
    cuqi = import_cuqi()
    from cuqi.solver import CGLS, FISTA, LM, LS, L_BFGS_B, minimize, maximize, ProjectNonnegative, ProjectBox, ProximalL1
    from cuqi.solver._solver import PCGLS
    import cuqi.solver._solver as S
    thorough = ctx.tier == "thorough"
    sc = 20 if thorough else 1
    rs = np.random.RandomState(ctx.seed + 1600)
    ctx.trusted += ["numpy.linalg (independent residual of the optimality system, singular values for conditioning)",
                    "scipy.optimize (the wrapped optimisers themselves; only the wrapping is checked)",
                    "scipy.sparse.linalg.inv/spsolve (PCGLS preconditioner solve; the model uses an exact inverse with a checked certificate)"]
    ctx.assumptions += ["float iterates of CGLS/PCGLS/FISTA/LM are compared with the exact rational iterates to 1e-9 (rel+abs) on small well-conditioned problems (CG: max(1e-9, 1e-13*kappa^4), kappa <= 20 = conditioning of the (preconditioned) operator: float CG loses conjugacy)",
                        "norm comparisons are modelled on squared norms (sign cases of the tolerance explicit); an iteration-count difference is tolerated only when the stopping quantity is within 1e-6 (relative) of its threshold",
                        "LM: the initial damping nu = ||J^T r|| (a square root) is supplied to the model as the float the code computes"]

    check_prox(ctx, rs, sc, ProjectNonnegative, ProjectBox, ProximalL1)
    check_prox_classes(ctx, rs, sc, ProjectNonnegative, ProjectBox, ProximalL1)
    check_cgls(ctx, rs, sc, CGLS)
    check_pcgls(ctx, rs, sc, PCGLS, cuqi)
    check_fista(ctx, rs, sc, FISTA, ProjectNonnegative, ProjectBox, ProximalL1)
    check_lm(ctx, rs, sc, LM)
    check_lm_long(ctx, rs, sc, LM)
    check_wrappers(ctx, rs, sc, S, L_BFGS_B, minimize, maximize, LS)
    check_malformed(ctx, rs, CGLS, PCGLS, FISTA)
    check_generic(ctx, rs, sc, cuqi, CGLS, PCGLS, FISTA, LM, LS, L_BFGS_B, minimize, maximize, ProximalL1)
    # session-3 extension: the glue around the recurrences (Model/C16_glue.lean); own RNG stream so the cases above are unchanged
    from harness.props import c16_glue
    c16_glue.check_glue(ctx, np.random.RandomState(ctx.seed + 1603), sc, cuqi, S, sys.modules[__name__])


# ----------------------------------------------------------------------------- projections / prox
def check_prox(ctx, rs, sc, ProjectNonnegative, ProjectBox, ProximalL1):
    lines, meta = [], []
    N = 120 * sc
    for i in range(N):
        n = int(rs.randint(1, 7))
        den = int(rs.choice([1, 2, 4, 8]))
        x = rs.randint(-12, 13, size=n) / den
        kind = ["l1", "nonneg", "box", "boxdef"][i % 4]
        if kind == "l1":
            g = float(rs.choice([0.0, 0.25, 0.5, 1.0, 1.5, 3.0, abs(x[0])]))  # includes ties |x_i| = gamma
            lines.append(f"prox l1 {q(g)} {qv(x)}"); meta.append((kind, x, g, None, None))
        elif kind == "nonneg":
            lines.append(f"prox nonneg {qv(x)}"); meta.append((kind, x, None, None, None))
        elif kind == "box":
            lo = rs.randint(-8, 5, size=n) / den
            up = lo + rs.randint(0, 9, size=n) / den      # includes degenerate lo == up
            lines.append(f"prox box {qv(x)} {qv(lo)} {qv(up)}"); meta.append((kind, x, None, lo, up))
        else:
            which = int(rs.randint(0, 3))
            lo = None if which != 1 else rs.randint(-8, 1, size=n) / den
            up = None if which != 2 else rs.randint(0, 9, size=n) / den
            lines.append(f"prox box {qv(x)} {'none' if lo is None else qv(lo)} {'none' if up is None else qv(up)}")
            meta.append(("box", x, None, lo, up))
    outs = ctx.lean.drive(lines)
    for (kind, x, g, lo, up), out in zip(meta, outs):
        desc = {"op": kind, "x": x.tolist(), "gamma": g, "lower": None if lo is None else lo.tolist(), "upper": None if up is None else up.tolist()}
        ctx.case("prox-" + kind, desc)
        with quiet():
            if kind == "l1":
                y = ProximalL1(x.copy(), g)
            elif kind == "nonneg":
                y = ProjectNonnegative(x.copy())
            else:
                y = ProjectBox(x.copy(), lo, up)
        y = np.asarray(y, dtype=float)
        mod = np.array([float(v) for v in pv(out)]) if not out.startswith("err") and out != "bad-op" else None
        key = {"l1": "ProximalL1", "nonneg": "ProjectNonnegative", "box": "ProjectBox"}[kind] + ":values"
        bad = mod is None or mod.shape != y.shape or not np.array_equal(mod, y)   # dyadic data: exact
        if bad:
            ctx.disagree(key, desc, out[:200], y.tolist(), "values differ")
        # oracle (always): the output is the minimiser of the defining problem — compare with a brute-force
        # scan of candidates (breakpoints) of the separable 1-D problems
        oracle_prox(ctx, key, desc, kind, x, g, lo, up, y)


def check_prox_classes(ctx, rs, sc, ProjectNonnegative, ProjectBox, ProximalL1):
    """input classes for the three maps: exact zeros / ties / bounds, strength exactly 0 (identity), signed zeros,
    dtypes and containers, memory layouts, read-only arrays, 2-D batches, scalar types of gamma, positional vs keyword
    arguments; the caller's arrays stay untouched and the result is a new array.  Reference: the definition (ref_prox,
    coordinatewise brute force).  Failure key = the tie's key for that map."""
    keyof = {"l1": "ProximalL1:values", "nonneg": "ProjectNonnegative:values", "box": "ProjectBox:values"}
    for rep_ in range(6 * sc):
        n = int(rs.randint(2, 7))
        base = rs.randint(-6, 7, size=n) / 2.0
        base[int(rs.randint(0, n))] = 0.0                              # always an exact zero
        if rep_ % 2:
            base[int(rs.randint(0, n))] = -0.0
        lo = rs.randint(-4, 1, size=n) / 2.0; up = lo + rs.randint(0, 5, size=n) / 2.0
        base[int(rs.randint(0, n))] = lo[0]                            # a bound value somewhere
        gammas = [0.0, 0, np.float32(0.5), np.array(0.5), abs(float(base[1])), 1.5, True]
        def layouts(v):
            big = np.zeros(2 * len(v)); big[::2] = v
            ro = v.copy(); ro.setflags(write=False)
            out = {"float64": v.copy(), "strided": big[::2], "negstride": v[::-1].copy()[::-1], "readonly": ro, "list": v.tolist(),
                   "batch2d-C": np.stack([v, -v], axis=1), "batch2d-F": np.asfortranarray(np.stack([v, -v], axis=1))}
            if np.all(v == np.round(v)):
                out["int64"] = v.astype(np.int64)
            return out
        for kind in ("l1", "nonneg", "box"):
            v0 = base if kind != "l1" or rep_ % 3 else np.round(base)     # integer-valued now and then (int64 layout)
            for lname, xin in layouts(v0).items():
                for g in (gammas if kind == "l1" else [None]):
                    if kind == "l1" and isinstance(xin, np.ndarray) and xin.dtype == np.int64 and float(g) != round(float(g)):
                        continue
                    xnum = np.asarray(xin, dtype=float)
                    desc = {"op": kind, "x": xnum.tolist(), "layout": lname, "gamma": None if g is None else float(g), "gamma_type": type(g).__name__,
                            "lower": lo.tolist() if kind == "box" else None, "upper": up.tolist() if kind == "box" else None}
                    ctx.case("prox-class-" + kind, desc)
                    key = keyof[kind]
                    before = snap([xin]) if isinstance(xin, np.ndarray) else repr(xin)
                    lo_, up_ = (lo, up) if xnum.ndim == 1 else (lo[:, None], up[:, None])
                    try:
                        with quiet():
                            if kind == "l1":
                                ys = [ProximalL1(xin, g), ProximalL1(xin, gamma=g), ProximalL1(x=xin, gamma=g)]
                                ref = ref_prox("l1", {"lam": float(g)}, xnum, 1.0)
                            elif kind == "nonneg":
                                ys = [ProjectNonnegative(xin), ProjectNonnegative(x=xin)]
                                ref = np.where(xnum > 0, xnum, 0.0)
                            else:
                                ys = [ProjectBox(xin, lo_, up_), ProjectBox(xin, lower=lo_, upper=up_), ProjectBox(xin, upper=up_, lower=lo_), ProjectBox(x=xin, lower=lo_, upper=up_)]
                                ref = np.clip(xnum, lo_, up_)
                    except Exception as e:
                        ctx.fail(key, desc, ref_prox("l1", {"lam": 0.0}, xnum, 1.0).tolist() if kind == "l1" else "a value", repr(e)[:100],
                                 "the map raises for an input that differs from a float64 vector only by layout / dtype / argument passing")
                        continue
                    after = snap([xin]) if isinstance(xin, np.ndarray) else repr(xin)
                    if after != before:
                        ctx.fail(key, desc, "input untouched", "changed", "the map modifies its argument")
                    for y in ys:
                        y = np.asarray(y, dtype=float)
                        if y.shape != ref.shape or not np.all(np.isfinite(y)) or not np.array_equal(y, ref):
                            ctx.disagree(key, desc, ref.tolist(), y.tolist(), "differs from the definition")
                            ctx.fail(key, desc, ref.tolist(), y.tolist(),
                                     "the map is not the Euclidean projection / proximal map it is named after (input class: exact zeros, bounds, zero strength, layout, dtype, argument passing)")
                            break
                    y0 = ys[0]
                    if isinstance(y0, np.ndarray) and isinstance(xin, np.ndarray) and np.shares_memory(y0, xin):
                        ctx.fail(key, desc, "a new array", "shares memory with the input", "the result aliases the caller's array")
        # default bounds: positional / keyword / one-sided
        xin = base.copy()
        for nm, call, ref in (("none", lambda: ProjectBox(xin), np.clip(xin, 0, 1)), ("lower-only", lambda: ProjectBox(xin, lo), np.minimum(np.maximum(xin, lo), 1.0)),
                              ("upper-only-kw", lambda: ProjectBox(xin, upper=up), np.minimum(np.maximum(xin, 0.0), up)),
                              ("lower-None-kw", lambda: ProjectBox(xin, lower=None, upper=None), np.clip(xin, 0, 1)),
                              ("zero-bounds", lambda: ProjectBox(xin, np.zeros(n), np.zeros(n)), np.zeros(n))):
            desc = {"op": "box", "x": xin.tolist(), "bounds": nm, "lower": lo.tolist(), "upper": up.tolist()}
            ctx.case("prox-class-box-defaults", desc)
            with quiet():
                y = np.asarray(call(), dtype=float)
            if not np.array_equal(y, ref):
                ctx.disagree("ProjectBox:values", desc, ref.tolist(), y.tolist(), "default / one-sided bounds")
                ctx.fail("ProjectBox:values", desc, ref.tolist(), y.tolist(), "ProjectBox with default / one-sided / falsy bounds is not the projection onto the documented box")


def oracle_prox(ctx, key, desc, kind, x, g, lo, up, y):
    for i, xi in enumerate(x):
        if kind == "l1":
            obj = lambda z: 0.5 * (z - xi) ** 2 + g * abs(z)
            cands = [0.0, xi - g, xi + g, xi]
            feas = lambda z: True
        elif kind == "nonneg":
            obj = lambda z: (z - xi) ** 2
            cands = [0.0, xi]
            feas = lambda z: z >= 0
        else:
            l = 0.0 if lo is None else lo[i]
            u = 1.0 if up is None else up[i]
            obj = lambda z: (z - xi) ** 2
            cands = [l, u, xi]
            feas = lambda z, l=l, u=u: l <= z <= u
        best = min(obj(z) for z in cands if feas(z))
        # NaN-safe: a non-finite output for finite input is never the minimiser
        if not np.isfinite(y[i]) or not feas(y[i]) or not (obj(y[i]) <= best + 1e-12):
            ctx.fail(key, desc, f"coordinate {i}: minimiser value {best}", float(y[i]),
                     "the map is not the Euclidean projection / proximal map it is named after")
            return


# ----------------------------------------------------------------------------- CGLS
def record_margin(ctx, name, a, b, tol):
    """largest deviation/tolerance ratio among float-vs-exact comparisons that passed (evidence `margins`)"""
    a = np.asarray(a, dtype=float).ravel(); b = np.asarray(b, dtype=float).ravel()
    if a.shape == b.shape and a.size and np.all(np.isfinite(a)) and np.all(np.isfinite(b)):
        ratio = float(np.max(np.abs(a - b) / (tol * (1.0 + np.maximum(np.abs(a), np.abs(b))))))
        if ratio <= 1.0:
            m = ctx.extra_cov.setdefault("margins", {}).setdefault(name, {"max_dev_over_tol": 0.0, "comparisons": 0})
            m["max_dev_over_tol"] = max(m["max_dev_over_tol"], round(ratio, 6)); m["comparisons"] += 1


def cg_threshold_close(gamma_k, gamma0, tol):
    thr = float(gamma0) * tol * tol
    g = float(gamma_k)
    return abs(g - thr) <= 1e-6 * max(thr, 1e-300)


def eff_cond(B):
    sv = np.linalg.svd(B, compute_uv=False)
    sv = sv[sv > 1e-9 * sv[0]]
    return float(sv[0] / sv[-1])


def compare_cg(ctx, key, desc, out, solve_impl, on_refusal=None, kappa=1.0):
    """solve_impl(maxit) -> (x, k).  Compares iteration count and every iterate.
    Float CG loses conjugacy with the conditioning kappa of the (preconditioned) operator: the iterate tolerance
    is max(1e-9, 1e-13*kappa^4) (1e-9 up to kappa = 10; the generators keep kappa <= 20)."""
    tol = desc["tol"]
    ds = desc.get("dscale", 1.0)          # data scale: iterates are compared after division by it (relative comparison)
    # a start `far` times larger than the data leaves a cancellation error ~ far*eps*kappa^2 (relative to the data scale) in all later iterates
    itol = max(TOL, 1e-13 * kappa ** 4, 1e-15 * desc.get("far_start", 1.0) * kappa ** 2)
    if out.startswith("err") or out == "bad-op":
        try:
            with quiet():
                solve_impl(desc["maxit"])
            ctx.disagree(key + ":refusal", desc, out, "ok", "model refuses, implementation runs")
        except Exception as e:
            if on_refusal:
                on_refusal(out, e)
        return None
    k, flag, x, gammas, trace = parse_cg(out)
    try:
        with quiet():
            xi, ki = solve_impl(desc["maxit"])
    except Exception as e:
        ctx.disagree(key + ":refusal", desc, out[:80], repr(e)[:120], "implementation raises, model runs")
        if on_refusal:
            on_refusal(out, e)
        return None
    ki = int(ki)
    if ki != k:
        # Exact arithmetic reaches gamma = 0 after finitely many steps (finite termination); floats cannot, and
        # continue until the relative threshold is met.  Tolerated: (a) model stopped with gamma == 0 and the
        # implementation runs longer; (b) the stopping quantity is at its threshold to 1e-6 relative.
        j = min(k, ki)
        thr = float(gammas[0]) * tol * tol
        exact_term = (k < ki and gammas[k] == 0)
        at_thr = tol >= 0 and abs(float(gammas[j]) - thr) <= 1e-6 * max(thr, 1e-300)
        if exact_term:
            ctx.extra_cov.setdefault("cg_count_tolerated", {"exact-termination": 0, "threshold": 0})["exact-termination"] += 1
        elif at_thr:
            ctx.extra_cov.setdefault("cg_count_tolerated", {"exact-termination": 0, "threshold": 0})["threshold"] += 1
        else:
            ctx.disagree(key + ":iterations", desc, k, ki, "iteration count differs")
    kk = min(k, ki)
    for j in range(kk + 1):
        with quiet():
            xj, _ = solve_impl(j)
        # at the step where exact arithmetic terminates (gamma = 0) float CG has not converged to working precision yet
        jtol = max(1e-6, 1e-11 * desc.get("far_start", 1.0) * kappa) if (j == k and gammas[k] == 0) else itol
        record_margin(ctx, f"{desc.get('solver', 'CG')}-iterate" + ("-at-exact-termination" if jtol != itol else ""), np.asarray(xj) / ds, np.asarray(trace[j]) / ds, jtol)
        if not vclose(np.asarray(xj) / ds, np.asarray(trace[j]) / ds, jtol):
            ctx.disagree(key + ":iterate", {**desc, "j": j}, trace[j], np.asarray(xj).tolist(), f"iterate {j} differs")
            break
    return True, np.asarray(xi, dtype=float), ki, (k, flag, x, gammas)


def far_factor(rs, i, x0, tol):
    """start far from the solution (every 3rd case): the iterate norm then shrinks by orders of magnitude while the
    residual is still above its tolerance; the factor keeps the code's own `normx*tol >= 1` clause out of the way"""
    nx = float(np.linalg.norm(x0))
    if i % 3 != 2 or nx == 0:
        return 1.0
    if tol >= 1e-3:
        e = math.floor(math.log2(0.3 / (tol * nx)))
        return float(2.0 ** e) if e >= 3 else 1.0
    return float(rs.choice([2.0 ** 14, 2.0 ** 17, 2.0 ** 20]))


def check_cgls(ctx, rs, sc, CGLS):
    N = 70 * sc
    lines, meta = [], []
    for i in range(N):
        n = int(rs.randint(1, 6)); m = int(rs.randint(1, 8))
        sparse = bool(rs.rand() < 0.4)
        A = gen_matrix(rs, m, n, sparse)
        b = rs.randint(-5, 6, size=m).astype(float)
        x0 = start_vector(rs, n)
        dscale = float(rs.choice(SCALES))     # data scale sweep 1e-8 … 1e8 (dyadic): the stop is RELATIVE to |s0|
        b = b * dscale; x0 = x0 * dscale
        shift = float(rs.choice([0.0, 0.0, 0.25, 0.5, 1.0, 2.0]))
        mode = ["converge", "converge", "truncate", "loosetol"][i % 4]
        if mode == "converge":
            tol, maxit = float(rs.choice([1e-8, 1e-10])), 60
        elif mode == "truncate":
            tol, maxit = 1e-10, int(rs.randint(0, n + 1))
        else:
            tol, maxit = float(rs.choice([0.5, 0.1, 1e-2, 1e-3])), 60
        far = far_factor(rs, i, x0, tol); x0 = x0 * far
        meta.append((A, b, x0, shift, tol, maxit, sparse, mode, (dscale, far)))
        lines.append(f"cgls mat {qm(A)} {qv(b)} {qv(x0)} {q(shift)} {q(tol)} {maxit}")
        lines.append(f"cgls fun {qm(A)} {qm(A.T)} {qv(b)} {qv(x0)} {q(shift)} {q(tol)} {maxit}")
    # special inputs: start at the exact solution (gamma0 = 0), zero data, negative shift (indefinite), tol = 0, tol < 0
    specials = []
    A = np.array([[2.0, 0.0], [0.0, 1.0]]); b = np.array([2.0, 3.0])
    specials.append((A, b, np.array([1.0, 3.0]), 0.0, 1e-6, 10, False, "start-at-solution"))
    specials.append((A, np.zeros(2), np.zeros(2), 0.0, 1e-6, 10, False, "zero-data"))
    specials.append((A, b, np.zeros(2), -0.5, 1e-8, 10, False, "negative-shift"))
    specials.append((A, b, np.array([1.0, -1.0]), 0.5, 0.0, 6, False, "tol-zero"))
    specials.append((A, b, np.array([1.0, -1.0]), 0.5, -1.0, 3, False, "tol-negative"))
    specials.append((A, b, np.array([4.0, 4.0]), 0.0, 0.5, 10, False, "normx-clause"))
    A3 = np.array([[2.0, 1.0], [1.0, 3.0], [0.0, 1.0]])
    specials.append((A3, np.array([1.0, 2.0, 3.0]) / 4096, np.zeros(2), 0.0, 1e-3, 10, False, "small-scale"))
    specials.append((A3, np.array([1.0, 2.0, 3.0]) * 1024, np.zeros(2), 0.25, 1e-3, 10, False, "large-scale"))
    for sp_ in specials:
        A, b, x0, shift, tol, maxit = sp_[:6]
        meta.append(sp_ + ((1.0, 1.0),))
        lines.append(f"cgls mat {qm(A)} {qv(b)} {qv(x0)} {q(shift)} {q(tol)} {maxit}")
        lines.append(f"cgls fun {qm(A)} {qm(A.T)} {qv(b)} {qv(x0)} {q(shift)} {q(tol)} {maxit}")
    outs = ctx.lean.drive(lines)
    hist = {}
    for idx, (A, b, x0, shift, tol, maxit, sparse, mode, (dscale, far)) in enumerate(meta):
        m, n = A.shape
        out_mat, out_fun = outs[2 * idx], outs[2 * idx + 1]
        desc = {"solver": "CGLS", "A": A.tolist(), "b": b.tolist(), "x0": x0.tolist(), "shift": shift, "tol": tol,
                "maxit": maxit, "sparse": sparse, "mode": mode, "dscale": dscale, "far_start": far}
        cls = f"{shape_class(m, n)}:{'shift' if shift != 0 else 'noshift'}"
        hist[cls] = hist.get(cls, 0) + 1
        Aop = sp.csr_matrix(A) if sparse else A
        if out_mat != out_fun:
            ctx.disagree(f"CGLS:model:forms", desc, out_mat[:100], out_fun[:100], "model: matrix and function forms differ")
        res = {}
        for form in ("mat", "fun"):
            ctx.case(f"cgls-{form}", {**desc, "form": form})
            key = f"CGLS:{form}:{cls}"
            op = Aop if form == "mat" else fun_form(Aop)
            solve = lambda k, op=op: CGLS(op, b.copy(), x0.copy(), k, tol, shift).solve()
            nd = len(ctx.disagreements)
            r = compare_cg(ctx, key, desc, out_mat if form == "mat" else out_fun, solve, kappa=eff_cond(A))
            for dd in ctx.disagreements[nd:]:
                # model and implementation differ: run the property's own oracle at this input, to convergence
                converged_oracle(ctx, dd["key"], desc, A, b, x0, shift,
                                 lambda k, t, op=op: CGLS(op, b.copy(), x0.copy(), k, t, shift).solve())
            if r is None:
                continue
            ok, xi, ki, mod = r
            res[form] = (xi, ki)
            if form == "mat" and mode == "converge" and shift >= 0:
                # finite termination in exact arithmetic (not proved in Lean; validated on the model's exact run)
                ft = ctx.extra_cov.setdefault("cg_exact_finite_termination", {"checked": 0, "k_le_n": 0, "gamma_zero": 0})
                ft["checked"] += 1; ft["k_le_n"] += int(mod[0] <= n); ft["gamma_zero"] += int(mod[3][-1] == 0)
                if mod[0] > n:
                    ctx.note(f"exact CGLS needed {mod[0]} > n = {n} iterations at {desc}")
            # ---- oracle: shifted normal equations at the returned point
            oracle_cgls(ctx, key, desc, A, b, x0, shift, tol, maxit, xi, ki, mode)
        # the two operator forms of the implementation must give the identical result
        if "mat" in res and "fun" in res:
            if res["mat"][1] != res["fun"][1] or not np.array_equal(res["mat"][0], res["fun"][0], equal_nan=True):
                k2 = f"CGLS:forms:{cls}"
                ctx.disagree(k2, desc, "identical", [res["mat"][0].tolist(), res["fun"][0].tolist()], "matrix form and function form differ")
                if res["mat"][1] != res["fun"][1] or not vclose(res["mat"][0], res["fun"][0], 1e-12):
                    ctx.fail(k2, desc, "same solution from both operator forms", [res["mat"][0].tolist(), res["mat"][1], res["fun"][0].tolist(), res["fun"][1]],
                             "CGLS result depends on whether the operator is a matrix or a function")
        # recorded operands of the matrix form: p_k are what A is applied to, r_k what A^T is applied to
        if mode == "converge" and idx % 5 == 0:
            log = []
            with quiet():
                CGLS(RecMat(A, log), b.copy(), x0.copy(), maxit, tol, shift).solve()
            rr = [v for t, v in log if t == "a"]
            # every r the adjoint is applied to equals b - A x_j of the implementation's own iterates
            for j, rj in enumerate(rr):
                with quiet():
                    xj, _ = CGLS(A, b.copy(), x0.copy(), j, tol, shift).solve()
                if not vclose(rj / dscale, (b - A @ xj) / dscale, max(1e-9, 1e-13 * far)):     # far start: cancellation ~ far*eps in the recurred residual
                    ctx.fail(f"CGLS:mat:{cls}:residual-recurrence", {**desc, "j": j}, (b - A @ xj).tolist(), rj.tolist(),
                             "the recurred residual is not b - A x")
                    break
    ctx.extra_cov["cgls_classes"] = hist


def oracle_cgls(ctx, key, desc, A, b, x0, shift, tol, maxit, xi, ki, mode):
    m, n = A.shape
    H = A.T @ A + shift * np.eye(n)
    s0 = A.T @ (b - A @ x0) - shift * x0
    s = A.T @ (b - A @ xi) - shift * xi
    ns, ns0 = np.linalg.norm(s), np.linalg.norm(s0)
    if not np.all(np.isfinite(xi)):
        if shift >= 0:
            ctx.fail(key + ":finite", desc, "finite solution", xi.tolist(), "non-finite result on a well-posed problem")
        return
    if shift < 0 or tol < 0:
        return
    ds = desc.get("dscale", 1.0)
    stopped_by_x = np.linalg.norm(xi) * tol >= 1 - 1e-12
    if ki < maxit and not stopped_by_x:
        # terminated by the first clause: normal-equation residual within tol of the initial one (RELATIVE: no absolute slack
        # beyond the rounding floor of the data scale)
        if ns > tol * ns0 * (1 + 1e-6) + 1e-12 * (ds + ns0):
            ctx.fail(key + ":normal-equations", desc, f"|A^T(b-Ax)-shift x| <= tol*|s0| = {tol * ns0}", float(ns),
                     "returned point does not satisfy the (shifted) normal equations to the stated tolerance")
    if mode == "converge" and not stopped_by_x:
        # run to convergence: the solution of the (shifted) normal equations (least-squares solution closest in the Krylov sense)
        if ns > 1e-7 * (ds + ns0 + np.linalg.norm(A.T @ b)):
            ctx.fail(key + ":normal-equations", desc, "residual of (A^T A + shift I) x = A^T b ~ 0", float(ns),
                     "run to convergence, the returned point does not solve the (shifted) normal equations")
        if np.linalg.matrix_rank(H) == n:
            xs = np.linalg.solve(H, A.T @ b)
            if not vclose(xi / ds, xs / ds, 1e-6):
                ctx.fail(key + ":solution", desc, xs.tolist(), xi.tolist(), "not the solution of the (shifted) normal equations")


def converged_oracle(ctx, key, desc, A, b, x0, shift, solve2):
    """the property itself at this input: run to convergence (maxit 200, tol 1e-10) and test the normal equations"""
    try:
        with quiet():
            x, k = solve2(200, 1e-10)
    except Exception as e:
        ctx.fail(key, desc, "solution of the normal equations", repr(e)[:100], "solver raises on a well-posed problem")
        return
    x = np.asarray(x, dtype=float)
    s = A.T @ (b - A @ x) - shift * x
    ds = desc.get("dscale", 1.0)
    scale = ds + np.linalg.norm(A.T @ (b - A @ x0) - shift * x0) + np.linalg.norm(A.T @ b)
    by_x = np.all(np.isfinite(x)) and np.linalg.norm(x) * 1e-10 >= 1 - 1e-12
    if shift >= 0 and not by_x and (not np.all(np.isfinite(x)) or np.linalg.norm(s) > 1e-7 * scale):
        ctx.fail(key, desc, "residual of (A^T A + shift I) x = A^T b ~ 0 when run to convergence", float(np.linalg.norm(s)),
                 "run to convergence, the returned point does not solve the (shifted) normal equations")
        return
    # and at the case's own tolerance: stopping before maxit by the first clause must mean the stated relative accuracy
    tol, maxit = desc["tol"], desc["maxit"]
    if shift >= 0 and tol >= 0:
        with quiet():
            x, k = solve2(maxit, tol)
        x = np.asarray(x, dtype=float)
        ns = np.linalg.norm(A.T @ (b - A @ x) - shift * x); ns0 = np.linalg.norm(A.T @ (b - A @ x0) - shift * x0)
        if k < maxit and np.linalg.norm(x) * tol < 1 - 1e-12 and ns > tol * ns0 * (1 + 1e-6) + 1e-12 * (ds + ns0):
            ctx.fail(key, desc, f"|A^T(b-Ax)-shift x| <= tol*|s0| = {tol * ns0}", float(ns),
                     "stopped by the convergence flag, but the (shifted) normal equations do not hold to the stated relative tolerance")


# ----------------------------------------------------------------------------- PCGLS
def check_pcgls(ctx, rs, sc, PCGLS, cuqi):
    N = 50 * sc
    lines, meta = [], []
    for i in range(N):
        n = int(rs.randint(1, 6)); m = int(rs.randint(n, 8)) if rs.rand() < 0.75 else int(rs.randint(1, 8))
        sparse = bool(rs.rand() < 0.4)
        A = gen_matrix(rs, m, n, sparse)
        b = rs.randint(-5, 6, size=m).astype(float)
        x0 = start_vector(rs, n)
        dscale = float(rs.choice(SCALES))
        b = b * dscale; x0 = x0 * dscale
        for _try in range(30):                    # keep the preconditioned operator well-conditioned too
            P = gen_precond(rs, n, ["diag", "tri", "full"][i % 3])
            if eff_cond(A @ np.linalg.inv(P)) <= 20:
                break
        else:
            P = np.eye(n) * 2.0
        shift = float(rs.choice([0.0, 0.0, 0.0, 0.5, 1.0]))
        mode = ["converge", "converge", "truncate", "loosetol"][i % 4]
        tol, maxit = (float(rs.choice([1e-8, 1e-10])), 60) if mode == "converge" else \
            ((1e-10, int(rs.randint(0, n + 1))) if mode == "truncate" else (float(rs.choice([0.1, 1e-2, 1e-3])), 60))
        far = far_factor(rs, i, x0, tol); x0 = x0 * far
        spsolve_path = (i % 4 == 3)
        meta.append((A, P, b, x0, shift, tol, maxit, sparse, mode, spsolve_path, (dscale, far)))
        how = "solve" if spsolve_path else "inv"
        lines.append(f"pcgls mat {qm(A)} {how} {qm(P)} {qv(b)} {qv(x0)} {q(shift)} {q(tol)} {maxit}")
        lines.append(f"pcgls fun {qm(A)} {qm(A.T)} {how} {qm(P)} {qv(b)} {qv(x0)} {q(shift)} {q(tol)} {maxit}")
    outs = ctx.lean.drive(lines)
    for idx, (A, P, b, x0, shift, tol, maxit, sparse, mode, spsolve_path, (dscale, far)) in enumerate(meta):
        m, n = A.shape
        desc = {"solver": "PCGLS", "A": A.tolist(), "P": P.tolist(), "b": b.tolist(), "x0": x0.tolist(), "shift": shift,
                "tol": tol, "maxit": maxit, "sparse": sparse, "mode": mode, "spsolve": spsolve_path, "dscale": dscale, "far_start": far}
        cls = f"{shape_class(m, n)}:{'shift' if shift != 0 else 'noshift'}"
        Aop = sp.csr_matrix(A) if sparse else A
        Psp = sp.csc_matrix(P)
        res = {}
        old = cuqi.config.MAX_DIM_INV
        try:
            if spsolve_path:
                # exercise the `spsolve` branch of _apply_Pinv; the test is `dim < MAX_DIM_INV`: straddle it (0 and exactly dim)
                cuqi.config.MAX_DIM_INV = 0 if idx % 8 == 3 else n
            elif idx % 8 == 2:
                cuqi.config.MAX_DIM_INV = n + 1  # just past the threshold: explicit inverse
            for form in ("mat", "fun"):
                ctx.case(f"pcgls-{form}", {**desc, "form": form})
                key = f"PCGLS:{form}:{cls}"
                op = Aop if form == "mat" else fun_form(Aop)
                solve = lambda k, op=op: PCGLS(op, b.copy(), x0.copy(), Psp, k, tol, shift).solve()
                def refused(out, e, key=key):
                    # sizes are consistent and P is invertible: the property demands a solution
                    ctx.fail(f"PCGLS:{form}:dim{n if n == 1 else 'N'}:raises", desc, "solution of the normal equations", repr(e)[:120],
                             "PCGLS raises on a well-posed problem")
                nd = len(ctx.disagreements)
                r = compare_cg(ctx, key, desc, outs[2 * idx + (0 if form == "mat" else 1)], solve, refused,
                               kappa=eff_cond(A @ np.linalg.inv(P)))
                for dd in ctx.disagreements[nd:]:
                    converged_oracle(ctx, dd["key"], desc, A, b, x0, 0.0,
                                     lambda k, t, op=op: PCGLS(op, b.copy(), x0.copy(), Psp, k, t, shift).solve())
                if r is None:
                    continue
                ok, xi, ki, mod = r
                res[form] = (xi, ki)
                # ---- oracle
                s = A.T @ (b - A @ xi) - shift * xi
                s0 = A.T @ (b - A @ x0) - shift * x0
                by_x = np.all(np.isfinite(xi)) and np.linalg.norm(xi) * tol >= 1 - 1e-12
                if np.all(np.isfinite(xi)) and ki < maxit and not by_x:
                    # stopped by the first clause: RELATIVE accuracy of the preconditioned gradient P^-T A^T (b - A x)
                    # (what PCGLS tests whatever `shift` is: lm/pcgls_stop_sound_partial)
                    PiT = np.linalg.inv(P).T
                    g1, g0_ = np.linalg.norm(PiT @ (A.T @ (b - A @ xi))), np.linalg.norm(PiT @ (A.T @ (b - A @ x0)))
                    if g1 > tol * g0_ * (1 + 1e-6) + 1e-12 * (dscale + g0_):
                        ctx.fail(key + ":relative-stop", desc, f"|P^-T A^T(b-Ax)| <= tol*|s0| = {tol * g0_}", float(g1),
                                 "stopped by the convergence flag, but the preconditioned normal equations do not hold to the stated relative tolerance")
                if mode == "converge" and np.all(np.isfinite(xi)) and not by_x:
                    scale = dscale + np.linalg.norm(s0) + np.linalg.norm(A.T @ b)
                    if np.linalg.norm(s) > 1e-7 * scale:
                        ctx.fail(key + ":normal-equations", desc, "residual of (A^T A + shift I) x = A^T b ~ 0", float(np.linalg.norm(s)),
                                 "run to convergence, the returned point does not solve the (shifted) normal equations")
                elif not np.all(np.isfinite(xi)):
                    ctx.fail(key + ":finite", desc, "finite solution", xi.tolist(), "non-finite result on a well-posed problem")
            if "mat" in res and "fun" in res and (res["mat"][1] != res["fun"][1] or not np.array_equal(res["mat"][0], res["fun"][0], equal_nan=True)):
                k2 = f"PCGLS:forms:{cls}"
                ctx.disagree(k2, desc, "identical", [res["mat"][0].tolist(), res["fun"][0].tolist()], "matrix form and function form differ")
                if res["mat"][1] != res["fun"][1] or not vclose(res["mat"][0], res["fun"][0], 1e-12):
                    ctx.fail(k2, desc, "same solution from both operator forms", [res["mat"][0].tolist(), res["fun"][0].tolist()],
                             "PCGLS result depends on whether the operator is a matrix or a function")
        finally:
            cuqi.config.MAX_DIM_INV = old


# ----------------------------------------------------------------------------- FISTA / ISTA
def prox_token(rs, n, ProjectNonnegative, ProjectBox, ProximalL1, i, scale=1.0):
    """regulariser scaled with the data (lambda*scale, bounds*scale) so that the solution scales by `scale`"""
    kind = ["l1", "l1", "nonneg", "box"][i % 4]
    if kind == "l1":
        lam = float(rs.choice([0.0, 0.125, 0.5, 1.0, 2.0, 8.0])) * scale
        return kind, f"l1:{q(lam)}", (lambda x, g: ProximalL1(x, lam * g)), {"lam": lam}
    if kind == "nonneg":
        return kind, "nonneg", (lambda x, g: ProjectNonnegative(x)), {}
    if scale == 1.0 and rs.rand() < 0.3:
        return kind, "box:none:none", (lambda x, g: ProjectBox(x)), {"lower": None, "upper": None}
    lo = rs.randint(-4, 2, size=n) / 2.0 * scale
    up = lo + rs.randint(0, 7, size=n) / 2.0 * scale
    return kind, f"box:{qv(lo)}:{qv(up)}", (lambda x, g: ProjectBox(x, lo, up)), {"lower": lo.tolist(), "upper": up.tolist()}


def unscale_par(par, scale):
    out = {}
    for k, v in par.items():
        out[k] = None if v is None else (v / scale if np.isscalar(v) else (np.asarray(v) / scale).tolist())
    return out


def ref_prox(kind, par, v, t):
    """independent numpy re-implementation from the definitions (for the oracle)"""
    if kind == "l1":
        g = par["lam"] * t
        return np.where(v > g, v - g, np.where(v < -g, v + g, 0.0))
    if kind == "nonneg":
        return np.where(v > 0, v, 0.0)
    lo = np.zeros_like(v) if par.get("lower") is None else np.asarray(par["lower"])
    up = np.ones_like(v) if par.get("upper") is None else np.asarray(par["upper"])
    return np.clip(v, lo, up)


def check_fista(ctx, rs, sc, FISTA, ProjectNonnegative, ProjectBox, ProximalL1):
    N = 60 * sc
    lines, meta = [], []
    for i in range(N):
        n = int(rs.randint(1, 6)); m = int(rs.randint(1, 8))
        sparse = bool(rs.rand() < 0.4)
        A = gen_matrix(rs, m, n, sparse)
        b = rs.randint(-5, 6, size=m).astype(float)
        x0 = start_vector(rs, n)
        if n >= 2 and i % 5 == 4:
            # unobserved parameter (zero column) and a zero start: the argument of the proximal map has EXACT zeros
            A = A.copy(); A[:, int(rs.randint(0, n))] = 0.0
            x0 = np.zeros(n) if rs.rand() < 0.7 else x0
        fs = float(rs.choice([1.0, 1.0, 1.0, 2.0 ** -20, 2.0 ** -10, 2.0 ** 10, 2.0 ** 20]))        # data scale sweep (abstol is absolute by definition: it is swept with the scale and without)
        b = b * fs; x0 = x0 * fs
        L = np.linalg.norm(A, 2) ** 2
        # dyadic step below 1/L (several sizes)
        e = math.floor(math.log2(1.0 / L)) - int(rs.randint(0, 3))
        t = 2.0 ** e if rs.rand() < 0.8 else 2.0 ** e * 1.25 if 2.0 ** e * 1.25 < 1 / L else 2.0 ** e
        kind, tok, proxf, par = prox_token(rs, n, ProjectNonnegative, ProjectBox, ProximalL1, i, fs)
        adaptive = bool(rs.randint(0, 2))
        maxit = int(rs.choice([0, 1, 2, 5, 9, 14]))
        abstol = float(rs.choice([1e-14, 1e-14 * fs, 1e-3 * fs, 0.25 * fs, 2.0 * fs, 1e-3]))
        meta.append((A, b, x0, t, kind, tok, proxf, par, adaptive, maxit, abstol, sparse, fs))
        lines.append(f"fista mat {qm(A)} {qv(b)} {qv(x0)} {tok} {q(t)} {q(abstol)} {maxit} {int(adaptive)}")
        lines.append(f"fista fun {qm(A)} {qm(A.T)} {qv(b)} {qv(x0)} {tok} {q(t)} {q(abstol)} {maxit} {int(adaptive)}")
    # boundary class always present: regularisation strength exactly 0 (the proximal map must be the identity), an
    # unobserved parameter (zero column) and a zero start -> the proximal map is evaluated at exact zeros
    for adaptive in (False, True):
        for lam0 in (0.0, 0.5):
            A = np.array([[2.0, 0.0, 1.0], [1.0, 0.0, 3.0], [0.0, 0.0, 1.0], [1.0, 0.0, -1.0]]); b = np.array([1.0, 2.0, 3.0, -1.0]); x0 = np.zeros(3)
            meta.append((A, b, x0, 2.0 ** -4, "l1", f"l1:{q(lam0)}", (lambda x, g, lam0=lam0: ProximalL1(x, lam0 * g)), {"lam": lam0}, adaptive, 9, 1e-14, False, 1.0))
            lines.append(f"fista mat {qm(A)} {qv(b)} {qv(x0)} l1:{q(lam0)} {q(2.0 ** -4)} {q(1e-14)} 9 {int(adaptive)}")
            lines.append(f"fista fun {qm(A)} {qm(A.T)} {qv(b)} {qv(x0)} l1:{q(lam0)} {q(2.0 ** -4)} {q(1e-14)} 9 {int(adaptive)}")
    outs = ctx.lean.drive(lines)
    for idx, (A, b, x0, t, kind, tok, proxf, par, adaptive, maxit, abstol, sparse, fs) in enumerate(meta):
        m, n = A.shape
        desc = {"solver": "FISTA" if adaptive else "ISTA", "A": A.tolist(), "b": b.tolist(), "x0": x0.tolist(), "stepsize": t,
                "prox": tok, "maxit": maxit, "abstol": abstol, "sparse": sparse, "dscale": fs}
        Aop = sp.csr_matrix(A) if sparse else A
        name = "FISTA" if adaptive else "ISTA"
        res = {}
        for form in ("mat", "fun"):
            ctx.case(f"{name.lower()}-{form}-{kind}", {**desc, "form": form})
            key = f"{name}:{form}:{kind}"
            out = outs[2 * idx + (0 if form == "mat" else 1)]
            op = Aop if form == "mat" else fun_form(Aop)
            try:
                with quiet():
                    xi, ki = FISTA(op, b.copy(), x0.copy(), proxf, maxit=maxit, stepsize=t, abstol=abstol, adaptive=adaptive).solve()
            except Exception as e:
                ctx.disagree(key + ":refusal", desc, out[:80], repr(e)[:100], "implementation raises")
                ctx.fail(key + ":refusal", desc, "a result", repr(e)[:100], "solver raises on a well-posed problem")
                continue
            xi = np.asarray(xi, dtype=float); res[form] = (xi, ki)
            if "|" not in out:
                ctx.disagree(key + ":refusal", desc, out, "ok", "model refuses")
                continue
            km, xm = out.split("|"); km = int(km); xm = [float(v) for v in pv(xm)]
            if km != ki:
                ctx.disagree(key + ":iterations", desc, km, int(ki), "iteration count differs")
                oracle_fista_step(ctx, key + ":iterations", desc, A, b, x0, t, kind, par, adaptive, maxit, abstol, FISTA, op, proxf)
            elif (record_margin(ctx, "FISTA-iterate", xi / fs, np.asarray(xm) / fs, TOL) or True) and not vclose(xi / fs, np.asarray(xm) / fs, TOL):
                ctx.disagree(key + ":iterate", desc, xm, xi.tolist(), "returned point differs")
                oracle_fista_step(ctx, key + ":iterate", desc, A, b, x0, t, kind, par, adaptive, maxit, abstol, FISTA, op, proxf)
            # oracle (every case): a return before maxit means |x_new - y| <= abstol, hence (the prox-gradient map being
            # non-expansive for t <= 1/|A|^2) the returned point is an abstol-approximate fixed point: |x - T(x)| <= abstol
            if not np.all(np.isfinite(xi)):
                ctx.fail(key + ":finite", desc, "finite iterate", xi.tolist(), "returned point is not finite although data, start and regulariser are")
            if ki < maxit and t * np.linalg.norm(A, 2) ** 2 <= 1.0 and np.all(np.isfinite(xi)):
                Tx = ref_prox(kind, par, xi - t * (A.T @ (A @ xi - b)), t)
                if np.linalg.norm(xi - Tx) > abstol * (1 + 1e-6) + 1e-12 * (fs + np.linalg.norm(xi)):
                    ctx.fail(key + ":abstol-stop", desc, f"|x - prox-step(x)| <= abstol = {abstol}", float(np.linalg.norm(xi - Tx)),
                             "returned before maxit although the point is not an abstol-approximate fixed point")
        if "mat" in res and "fun" in res and (res["mat"][1] != res["fun"][1] or not np.array_equal(res["mat"][0], res["fun"][0], equal_nan=True)):
            k2 = f"{name}:forms:{kind}"
            ctx.disagree(k2, desc, "identical", [res["mat"][0].tolist(), res["fun"][0].tolist()], "matrix and function forms differ")
            if res["mat"][1] != res["fun"][1] or not vclose(res["mat"][0], res["fun"][0], 1e-12):
                ctx.fail(k2, desc, "same result from both operator forms", [res["mat"][0].tolist(), res["fun"][0].tolist()],
                         "FISTA result depends on whether the operator is a matrix or a function")
    # ---- oracle: run to convergence, the result is a fixed point of the prox-gradient map and satisfies the KKT system
    M = 30 * sc
    for i in range(M):
        n = int(rs.randint(1, 6)); m = int(rs.randint(n, n + 4))     # strongly convex: convergence is linear
        A = gen_matrix(rs, m, n, bool(rs.rand() < 0.3))
        b = rs.randint(-5, 6, size=m).astype(float)
        x0 = start_vector(rs, n)
        fs = float(rs.choice([1.0, 1.0, 1.0, 2.0 ** -20, 2.0 ** -10, 2.0 ** 10, 2.0 ** 20]))
        b = b * fs; x0 = x0 * fs
        L = np.linalg.norm(A, 2) ** 2
        t = float(rs.choice([0.5, 0.9, 0.99])) / L
        kind, tok, proxf, par = prox_token(rs, n, ProjectNonnegative, ProjectBox, ProximalL1, i, fs)
        adaptive = bool(rs.randint(0, 2))
        name = "FISTA" if adaptive else "ISTA"
        desc = {"solver": name, "A": A.tolist(), "b": b.tolist(), "x0": x0.tolist(), "stepsize": t, "prox": tok,
                "maxit": 20000, "abstol": 1e-11 * fs, "mode": "converge", "dscale": fs}
        ctx.case(f"{name.lower()}-converge-{kind}", desc)
        for form in ("mat", "fun"):
            key = f"{name}:{form}:{kind}:fixed-point"
            op = A if form == "mat" else fun_form(A)
            with quiet():
                xi, ki = FISTA(op, b.copy(), x0.copy(), proxf, maxit=20000, stepsize=t, abstol=1e-11 * fs, adaptive=adaptive).solve()
            xi = np.asarray(xi, dtype=float)
            if not np.all(np.isfinite(xi)):
                ctx.fail(key, desc, "a finite fixed point", xi.tolist(), "returned point is not finite although data, start and regulariser are")
                continue
            if ki >= 20000:
                ctx.note(f"{name} did not reach abstol within 20000 iterations at {desc['A']} (not judged)")
                continue
            grad = A.T @ (A @ xi - b)
            fp = ref_prox(kind, par, xi - t * grad, t)
            if np.linalg.norm(xi - fp) > 1e-9 * fs:
                ctx.fail(key, desc, "x = prox_t(x - t A^T(Ax-b))", float(np.linalg.norm(xi - fp)), "returned point is not a fixed point of the proximal-gradient map")
                continue
            # KKT of min 1/2|Ax-b|^2 + g(x)
            viol = kkt_violation(kind, unscale_par(par, fs), xi / fs, grad / fs)       # the problem is homogeneous in the scale
            if viol > 1e-6:
                ctx.fail(key, desc, "KKT residual ~ 0", float(viol), "returned point is not a minimiser of 1/2|Ax-b|^2 + g(x)")


def kkt_violation(kind, par, x, grad):
    v = 0.0
    if kind == "l1":
        lam = par["lam"]
        for xi, gi in zip(x, grad):
            if abs(xi) > 1e-9:
                v = max(v, abs(gi + lam * np.sign(xi)))
            else:
                v = max(v, max(0.0, abs(gi) - lam))
        return v
    if kind == "nonneg":
        lo = np.zeros_like(x); up = np.full_like(x, np.inf)
    else:
        lo = np.zeros_like(x) if par.get("lower") is None else np.asarray(par["lower"])
        up = np.ones_like(x) if par.get("upper") is None else np.asarray(par["upper"])
    for xi, gi, l, u in zip(x, grad, lo, up):
        if xi < l - 1e-12 or xi > u + 1e-12:
            return float("inf")
        at_l, at_u = abs(xi - l) < 1e-9, abs(xi - u) < 1e-9
        if at_l and at_u:
            continue
        if at_l:
            v = max(v, max(0.0, -gi))
        elif at_u:
            v = max(v, max(0.0, gi))
        else:
            v = max(v, abs(gi))
    return v


def oracle_fista_step(ctx, key, desc, A, b, x0, t, kind, par, adaptive, maxit, abstol, FISTA, op, proxf):
    """property-level verdict when the truncated run differs from the model: the returned point must be the
    prox-gradient image of the previous (extrapolated) point, recomputed independently"""
    x = x0.copy(); k = 0
    while True:
        xo = x.copy(); k += 1
        xn = ref_prox(kind, par, xo - t * (A.T @ (A @ xo - b)), t)
        if np.linalg.norm(xn - xo) <= abstol or k >= maxit:
            break
        if adaptive:
            xn = xn + ((k - 1) / (k + 2)) * (xn - xo)
        x = xn
    with quiet():
        xi, ki = FISTA(op, b.copy(), x0.copy(), proxf, maxit=maxit, stepsize=t, abstol=abstol, adaptive=adaptive).solve()
    ds = desc.get("dscale", 1.0)
    if ki != k or not vclose(np.asarray(xi) / ds, xn / ds, 1e-9):
        ctx.fail(key, desc, [xn.tolist(), k], [np.asarray(xi).tolist(), int(ki)],
                 "returned point is not the proximal-gradient iterate defined by the algorithm (reference recomputation)")


# ----------------------------------------------------------------------------- LM
def check_lm(ctx, rs, sc, LM):
    N = 30 * sc
    lines, meta = [], []
    for i in range(N):
        n = int(rs.randint(1, 4)); m = int(rs.randint(n, n + 3))
        M = gen_matrix(rs, m, n, False)
        linear = (i % 3 == 0)
        Q = np.zeros((m, n)) if linear else (rs.randint(-2, 3, size=(m, n)) * (rs.rand(m, n) < 0.5)) / 8.0
        b = rs.randint(-4, 5, size=m).astype(float)
        cs = float(rs.choice(LM_SCALES))          # residual multiplied by c = sqrt(precision): the stop is RELATIVE to |g0|
        M = M * cs; Q = Q * cs; b = b * cs
        x0 = rs.randint(-2, 3, size=n) / 2.0
        nu0 = float(rs.choice([1e-3, 0.5, 2.0 ** -6])) * (cs * cs if rs.rand() < 0.7 else 1.0)
        gradtol = float(rs.choice([1e-8, 1e-3, 0.25]))
        maxit = int(rs.randint(0, 9)) if linear else int(rs.randint(0, 5))
        sparse = bool(i % 2)
        res = (lambda x, M=M, Q=Q, b=b: M @ x + Q @ (x * x) - b)
        jac = (lambda x, M=M, Q=Q: M + 2 * Q * x[None, :])
        g0 = jac(x0).T @ res(x0)
        nuinit = float(np.linalg.norm(g0))
        meta.append((M, Q, b, x0, nu0, gradtol, maxit, sparse, res, jac, nuinit, linear, cs))
        lines.append(f"lm {qm(M)} {qm(Q)} {qv(b)} {qv(x0)} {q(nuinit)} {q(nu0)} {q(gradtol)} {maxit}")
    outs = ctx.lean.drive(lines)
    for (M, Q, b, x0, nu0, gradtol, maxit, sparse, res, jac, nuinit, linear, cs), out in zip(meta, outs):
        desc = {"solver": "LM", "M": M.tolist(), "Q": Q.tolist(), "b": b.tolist(), "x0": x0.tolist(), "nu0": nu0,
                "gradtol": gradtol, "maxit": maxit, "sparse": sparse, "res_scale": cs, "g0": nuinit}
        kindc = "linear" if linear else "quadratic"
        ctx.case(f"lm-{kindc}", desc)
        key = f"LM:{'sparse' if sparse else 'dense'}:{kindc}"
        jf = (lambda x: sp.csr_matrix(jac(x))) if sparse else jac
        def solve(k):
            x, info = LM(res, x0.copy(), jf, maxit=k, gradtol=gradtol, nu0=nu0, sparse=sparse).solve()
            return np.asarray(x, dtype=float), info["nfev"]
        if "|" not in out:
            ctx.note(f"LM model refuses ({out}) at {desc}")
            continue
        im, xm, trace, _nu = out.split("|")
        im = int(im); trace = [[float(v) for v in r] for r in pm(trace)]
        try:
            with quiet():
                xi, ii = solve(maxit)
        except Exception as e:
            ctx.disagree(key + ":refusal", desc, out[:60], repr(e)[:100], "implementation raises")
            ctx.fail(key + ":refusal", desc, "a result", repr(e)[:100], "LM raises on a well-posed problem")
            continue
        bad = None
        if ii != im:
            bad = ("iterations", im, int(ii))
        else:
            for j in range(im + 1):
                with quiet():
                    xj, _ = solve(j)
                record_margin(ctx, "LM-iterate", xj, trace[j], 1e-8)
                if not vclose(xj, trace[j], 1e-8):
                    bad = ("iterate", trace[j], xj.tolist()); break
        if bad:
            ctx.disagree(f"{key}:{bad[0]}", desc, bad[1], bad[2], "LM run differs from the model")
            lm_stop_oracle(ctx, f"{key}:{bad[0]}", desc, res, jac, x0, xi, ii, maxit, gradtol)
            oracle_lm(ctx, f"{key}:{bad[0]}", desc, res, jac, jf, x0, nu0, sparse, LM)
        # oracle (every case): returned before maxit  =>  RELATIVE gradient test |J^T r| <= gradtol*|g0| holds (lm_stop_sound)
        lm_stop_oracle(ctx, f"LM:{'sparse' if sparse else 'dense'}:relative-stop", desc, res, jac, x0, xi, ii, maxit, gradtol)
    # ---- oracle: run to convergence -> stationary point of the sum of squares
    for i in range(20 * sc):
        n = int(rs.randint(1, 4)); m = int(rs.randint(n, n + 3))
        M = gen_matrix(rs, m, n, False)
        Q = (rs.randint(-2, 3, size=(m, n)) * (rs.rand(m, n) < 0.5)) / 8.0 if i % 3 else np.zeros((m, n))
        b = rs.randint(-4, 5, size=m).astype(float)
        cs = float(LM_SCALES[i % len(LM_SCALES)])
        M = M * cs; Q = Q * cs; b = b * cs
        x0 = rs.randint(-2, 3, size=n) / 2.0
        sparse = bool((i // len(LM_SCALES)) % 2) if i >= len(LM_SCALES) else bool(i % 2)
        res = (lambda x, M=M, Q=Q, b=b: M @ x + Q @ (x * x) - b)
        jac = (lambda x, M=M, Q=Q: M + 2 * Q * x[None, :])
        jf = (lambda x: sp.csr_matrix(jac(x))) if sparse else jac
        desc = {"solver": "LM", "M": M.tolist(), "Q": Q.tolist(), "b": b.tolist(), "x0": x0.tolist(), "mode": "converge", "sparse": sparse,
                "res_scale": cs, "g0": float(np.linalg.norm(jac(x0).T @ res(x0)))}
        ctx.case("lm-converge", desc)
        oracle_lm(ctx, f"LM:{'sparse' if sparse else 'dense'}:stationary", desc, res, jac, jf, x0, 1e-3 * cs * cs, sparse, LM)


def lm_stop_oracle(ctx, key, desc, res, jac, x0, x, i, maxit, gradtol):
    """on return either all maxit iterations were used or |J(x)^T r(x)| <= gradtol*|J(x0)^T r(x0)| (relative; the only slack is
    the rounding floor of the product J^T r); a return with iterations left and a larger gradient is premature"""
    g0 = np.linalg.norm(jac(x0).T @ res(x0))
    if not np.all(np.isfinite(x)):
        ctx.fail(key, desc, "finite point", np.asarray(x).tolist(), "LM returns a non-finite point for finite data")
        return
    if g0 == 0 or gradtol < 0 or i >= maxit:
        return
    J, r = jac(x), res(x)
    g = np.linalg.norm(J.T @ r)
    if g > gradtol * g0 * (1 + 1e-6) + 1e-13 * np.linalg.norm(J) * np.linalg.norm(r):
        ctx.fail(key, {**desc, "returned_after": int(i)}, f"|J^T r| <= gradtol*|g0| = {gradtol * g0} or all {maxit} iterations used", float(g),
                 "LM returned with iterations left although the relative gradient test |J^T r|/|g0| <= gradtol does not hold")


def ref_lm(res, jac, x0, maxit, gradtol, nu0):
    """float reference of the LM algorithm (transcription of the Lean model `lmInit/lmStep/lmLoop`, dense solves).
    Returns x, i and the per-iteration log [(x, nu, trial point, ratio, accepted, nu_after)]."""
    x = np.array(x0, dtype=float); r = res(x); J = jac(x); g = J.T @ r
    ng = np.linalg.norm(g); ng0 = ng; nu = float(ng); f = 0.5 * (r @ r); i = 0; n = len(x); log = []
    while ng0 > 0 and (ng / ng0) > gradtol and i < maxit:
        i += 1
        s_ = np.linalg.solve(J.T @ J + nu * np.eye(n), g)
        xt = x - s_; rt = res(xt); Jt = jac(xt); ft = 0.5 * (rt @ rt)
        num = f - ft; den = (xt - x) @ g
        ratio = -2 * (num / den) if (num != 0 and den != 0) else 0.0
        x_before, nu_before = x, nu
        if ratio < 0:
            nu = max(2 * nu, nu0); acc = False
        else:
            x, r, f, J = xt, rt, ft, Jt; acc = True
            if ratio < 0.25:
                nu = max(2 * nu, nu0)
            elif ratio > 0.75:
                nu = 0.5 * nu
                if nu < nu0:
                    nu = 0.0
        g = J.T @ r; ng = np.linalg.norm(g)
        # last entry: |f - ftemp| relative to f — below ~1e-6 the float ratio is dominated by cancellation and its branch is not reliable
        log.append((x_before, nu_before, xt, float(ratio), acc, nu, abs(num) / max(f if not acc else ft, abs(num), 1e-300)))
    return x, i, log


def check_lm_long(ctx, rs, sc, LM):
    """long LM runs on strongly nonlinear small-residual problems: the damping reaches Gauss-Newton mode (nu -> 0 once
    nu < nu0) and Gauss-Newton steps get rejected, so every branch of the nu update matters.
    tie 1: single loop bodies of the exact Lean model from states of the float reference (`lmstep`);
    tie 2: the implementation's trial points / iteration count / result against the float reference;
    oracle (implementation only): no stalling (a rejected trial point is never tried again unchanged while nu0 > 0),
    relative stationarity on return before maxit, and a result at maxit must not be non-stationary where the algorithm
    as specified converges well within maxit."""
    MAXIT = 400
    probs, lines, owner = [], [], []
    for i in range(24 * sc):
        n = int(rs.randint(1, 4)); m = n + int(rs.randint(0, 3))
        M = gen_matrix(rs, m, n, False)
        Q = rs.randint(-4, 5, size=(m, n)) * (rs.rand(m, n) < 0.6) / 2.0
        b = rs.randint(-4, 5, size=m).astype(float)
        cs = float(rs.choice([2.0 ** -17, 2.0 ** -10, 2.0 ** -7, 2.0 ** -3, 1.0, 8.0]))
        M, Q, b = M * cs, Q * cs, b * cs
        x0 = rs.randint(-6, 7, size=n) / 2.0
        nu0 = float(rs.choice([1e-3, 1e-3, 1e-3 * cs * cs, 0.5]))
        sparse = bool(i % 2)
        res = (lambda x, M=M, Q=Q, b=b: M @ x + Q @ (x * x) - b)
        jac = (lambda x, M=M, Q=Q: M + 2 * Q * x[None, :])
        try:
            with np.errstate(all="ignore"):
                xr, ir, log = ref_lm(res, jac, x0, MAXIT, 1e-8, nu0)
        except np.linalg.LinAlgError:
            continue
        if not np.all(np.isfinite(xr)):
            continue
        probs.append((M, Q, b, cs, x0, nu0, sparse, res, jac, xr, ir, log))
        # states for the single-step tie with the exact model: first steps, every rejected Gauss-Newton step, some others
        pick = [j for j, e in enumerate(log) if (e[1] == 0.0 and not e[4])][:3] + [j for j, e in enumerate(log) if e[5] == 0.0][:2] + list(range(min(3, len(log))))
        for j in sorted(set(pick)):
            xb, nub = log[j][0], log[j][1]
            lines.append(f"lmstep {qm(M)} {qm(Q)} {qv(b)} {qv(xb)} {q(nub)} {q(nu0)}"); owner.append((len(probs) - 1, j))
    outs = ctx.lean.drive(lines)
    cov = ctx.extra_cov.setdefault("lm_long", {"problems": 0, "gn_mode": 0, "gn_step_rejected": 0, "model_steps": 0, "ref_converged": 0})
    # ---- tie 1: model loop body vs float reference at the same state
    for (pi, j), out in zip(owner, outs):
        M, Q, b, cs, x0, nu0, sparse, res, jac, xr, ir, log = probs[pi]
        xb, nub, xt, ratio, acc, nua, relnum = log[j]
        desc = {"solver": "LM", "M": M.tolist(), "Q": Q.tolist(), "b": b.tolist(), "x": np.asarray(xb).tolist(), "nu": nub, "nu0": nu0, "step": j}
        ctx.case("lm-model-step", desc)
        cov["model_steps"] += 1
        if "|" not in out:
            ctx.note(f"lmstep refused ({out}) at {desc}"); continue
        xm, num = out.split("|"); xm = np.array([float(v) for v in pv(xm)]); num = float(Fraction(num))
        x_after = xt if acc else xb
        near = relnum < 1e-6 or min(abs(ratio), abs(ratio - 0.25), abs(ratio - 0.75)) < 1e-7 or (nua != 0 and abs(nua - nu0) < 1e-9 * nu0) or abs(0.5 * nub - nu0) < 1e-9 * nu0
        if (not vclose(xm, x_after, 1e-8) or not close(num, nua, 1e-9)) and not near:
            ctx.disagree("LM:model-step", desc, [xm.tolist(), num], [np.asarray(x_after).tolist(), nua], "exact model loop body differs from the float reference of the algorithm")
            ctx.note("LM float reference and Lean model disagree: harness reference is wrong")
    # ---- tie 2 + oracle on the implementation
    for (M, Q, b, cs, x0, nu0, sparse, res, jac, xr, ir, log) in probs:
        cov["problems"] += 1
        cov["gn_mode"] += int(any(e[5] == 0.0 for e in log)); cov["gn_step_rejected"] += int(any(e[1] == 0.0 and not e[4] for e in log))
        cov["ref_converged"] += int(ir < MAXIT)
        desc = {"solver": "LM", "M": M.tolist(), "Q": Q.tolist(), "b": b.tolist(), "x0": x0.tolist(), "nu0": nu0, "gradtol": 1e-8, "maxit": MAXIT,
                "sparse": sparse, "res_scale": cs, "reference_iterations": ir}
        ctx.case("lm-long", desc)
        key = f"LM:{'sparse' if sparse else 'dense'}:long-run"
        trials = []
        def res_rec(x):
            trials.append(np.array(x, dtype=float)); return res(x)
        jf = (lambda x: sp.csr_matrix(jac(x))) if sparse else jac
        try:
            with quiet(), np.errstate(all="ignore"):
                xi, info = LM(res_rec, x0.copy(), jf, maxit=MAXIT, gradtol=1e-8, nu0=nu0, sparse=sparse).solve()
        except Exception as e:
            ctx.disagree(key, desc, [xr.tolist(), ir], repr(e)[:100], "implementation raises")
            ctx.fail(key, desc, [xr.tolist(), ir], repr(e)[:100], "LM raises where the algorithm as specified runs through")
            continue
        xi = np.asarray(xi, dtype=float); ii = int(info["nfev"])
        tr = trials[1:]                                    # first call is r(x0)
        # tie: trial points in order (until a decision sits at a threshold), count, result
        bad = None
        for j in range(min(len(tr), len(log))):
            if not vclose(tr[j], log[j][2], 1e-7 if not sparse else 1e-6):
                bad = ("trial", j, log[j][2].tolist(), tr[j].tolist()); break
            rj = log[j][3]
            if min(abs(rj), abs(rj - 0.25), abs(rj - 0.75)) < 1e-6 or log[j][6] < 1e-6:
                break                                      # decision at a threshold: later float paths may legitimately differ
        else:
            # the final crossing of gradtol may move by one iteration between LA.solve and spsolve: a count difference matters
            # only if it is larger than one or the returned points differ
            if ii != ir and (abs(ii - ir) > 1 or not vclose(xi, xr, 1e-6)):
                bad = ("iterations", None, ir, ii)
        if bad:
            ctx.disagree(key, {**desc, "first_difference": bad[0], "at": bad[1]}, bad[2], bad[3], "implementation's LM run differs from the algorithm as specified (reference)")
        # oracle 1: never the same rejected trial point twice in a row (after a rejection nu strictly grows when nu0 > 0)
        g0 = np.linalg.norm(jac(x0).T @ res(x0))
        for j in range(len(tr) - 1):
            # (a step that has shrunk below the float resolution of x — trial point == current point — is the rounding floor, not a stall)
            if nu0 > 0 and np.array_equal(tr[j], tr[j + 1]) and np.linalg.norm(tr[j] - xi) > 1e-9 * (1 + np.linalg.norm(xi)) \
                    and np.linalg.norm(jac(xi).T @ res(xi)) > 1e-6 * g0:
                ctx.fail(key, {**desc, "stalled_at_iteration": j + 1, "trial_point": tr[j].tolist()}, "a rejected step is followed by a different (more damped) trial step",
                         "identical trial point repeated", "LM stalls: the same rejected step is tried again and again, the returned point is not stationary")
                break
        # oracle 2: relative stationarity on return before maxit
        lm_stop_oracle(ctx, key, desc, res, jac, x0, xi, ii, MAXIT, 1e-8)
        # oracle 3: at maxit with a non-stationary point although the algorithm as specified converges well within maxit
        if ii >= MAXIT and ir <= MAXIT // 2 and np.all(np.isfinite(xi)):
            g = np.linalg.norm(jac(xi).T @ res(xi))
            if g > 1e-6 * g0:
                ctx.fail(key, desc, f"stationary point after ~{ir} iterations (|J^T r| <= 1e-8*|g0|)", [xi.tolist(), float(g / g0)],
                         "LM uses up all iterations and returns a non-stationary point on a problem where the algorithm converges")


def oracle_lm(ctx, key, desc, res, jac, jf, x0, nu0, sparse, LM):
    g0 = np.linalg.norm(jac(x0).T @ res(x0))
    if g0 == 0:
        return
    try:
        with quiet():
            x, info = LM(res, x0.copy(), jf, maxit=2000, gradtol=1e-8, nu0=nu0, sparse=sparse).solve()
    except Exception as e:
        ctx.fail(key, desc, "a stationary point", repr(e)[:100], "LM raises")
        return
    x = np.asarray(x, dtype=float)
    if info["nfev"] >= 2000:
        ctx.note(f"LM did not converge within 2000 iterations at {desc} (not judged)")
        return
    g = np.linalg.norm(jac(x).T @ res(x))
    if not (g <= 1e-8 * g0 * (1 + 1e-6) + 1e-13 * np.linalg.norm(jac(x)) * np.linalg.norm(res(x))):
        ctx.fail(key, desc, f"|J^T r| <= gradtol*|g0| = {1e-8 * g0}", float(g), "returned point is not a stationary point of the sum of squares")
    cs = desc.get("res_scale", 1.0)
    if not vclose(np.asarray(info["func"]) / cs, res(x) / cs, 1e-10):
        ctx.fail(key, desc, res(x).tolist(), np.asarray(info["func"]).tolist(), "info['func'] is not the residual at the returned point")


# ----------------------------------------------------------------------------- SciPy wrappers
def same(a, b):
    if isinstance(a, (np.ndarray, list, tuple)) or isinstance(b, (np.ndarray, list, tuple)):
        a = np.asarray(a); b = np.asarray(b)
        return a.shape == b.shape and bool(np.array_equal(a, b))
    if sp.issparse(a) or sp.issparse(b):
        return (a != b).nnz == 0
    return a == b or (a != a and b != b)


def check_wrappers(ctx, rs, sc, S, L_BFGS_B, minimize, maximize, LS):
    # the model's L_BFGS_B table for every (warnflag, gradient) in ONE driver call
    pre = [(wf, hg) for wf in (-1, 0, 1, 2, 3) for hg in (0, 1)]
    for (wf, hg), out in zip(pre, ctx.lean.drive([f"lbfgsb {wf} {hg}" for wf, hg in pre])):
        succ, ag, msg = out.split(" ", 2)
        _LB[(wf, bool(hg))] = (int(succ), int(ag), msg)
    # deterministic smooth test functions (convex quadratic + quartic)
    for i in range(12 * sc):
        n = int(rs.randint(1, 4))
        B = gen_matrix(rs, n + 1, n, False); c = rs.randint(-3, 4, size=n + 1).astype(float)
        w = float(rs.choice([0.0, 0.1]))
        f = lambda x, B=B, c=c, w=w: float(0.5 * np.sum((B @ x - c) ** 2) + w * np.sum(x ** 4))
        g = lambda x, B=B, c=c, w=w: B.T @ (B @ x - c) + 4 * w * x ** 3
        x0 = rs.randint(-2, 3, size=n).astype(float)
        withgrad = bool(i % 2)
        desc = {"wrapper": "", "B": B.tolist(), "c": c.tolist(), "w": w, "x0": x0.tolist(), "grad": withgrad}
        # ---- minimize / maximize
        DF = ("Nelder-Mead", "Powell", "COBYLA")          # derivative-free: SciPy's result has no 'jac'
        for method in ([None, "BFGS", "L-BFGS-B", "Nelder-Mead", "CG", "Powell", "COBYLA", "TNC", "SLSQP"][i % 9],):
            gg = g if (withgrad and method not in DF) else None
            nf = lambda x: -f(x)
            ng = (lambda x: -g(x)) if gg is not None else None
            for wname in ("minimize", "maximize"):
                d = {**desc, "wrapper": wname, "method": method}
                ctx.case("wrap-" + wname, d)
                with quiet():
                    ref = sopt.minimize(f, x0.copy(), jac=gg, method=method)
                try:
                    with quiet():
                        if wname == "minimize":
                            sol, info = minimize(f, x0.copy(), gradfunc=gg, method=method).solve()
                        else:                                # maximise -f  ==  minimise f
                            sol, info = maximize(nf, x0.copy(), gradfunc=ng, method=method).solve()
                except Exception as e:
                    k = f"{wname}:raises:{method}"
                    ctx.fail(k, d, [ref["x"].tolist(), float(ref["fun"])], repr(e)[:100],
                             "wrapper raises instead of returning SciPy's result")
                    continue
                chk_info(ctx, wname + ":passthrough", d, sol, info, ref)
                # sign: info['func'] is the value of the objective SciPy saw (f in both calls here)
                if wname == "maximize" and np.all(np.isfinite(sol)) and not close(info["func"], f(np.asarray(sol)), 1e-12):
                    ctx.fail("maximize:sign", d, f(np.asarray(sol)), info["func"], "maximize does not minimise the negated function")
        # ---- L_BFGS_B
        d = {**desc, "wrapper": "L_BFGS_B"}
        ctx.case("wrap-lbfgsb", d)
        kw = {"maxiter": 1} if i % 3 == 0 else {}
        with quiet():
            sol, info = L_BFGS_B(f, x0.copy(), gradfunc=g if withgrad else None, **kw).solve()
            ref = sopt.fmin_l_bfgs_b(f, x0.copy(), fprime=g if withgrad else None, approx_grad=0 if withgrad else 1, **kw)
        exp_succ, _, exp_msg = model_lbfgsb(ctx, ref[2]["warnflag"], withgrad)
        exp_msg = ref[2]["task"] if exp_msg == "TASK" else exp_msg
        got = (info["success"], info["message"])
        if not (same(sol, ref[0]) and same(info["func"], ref[1]) and same(info["grad"], ref[2]["grad"]) and info["nit"] == ref[2]["nit"]
                and info["nfev"] == ref[2]["funcalls"] and got == (exp_succ, exp_msg)):
            ctx.disagree("L_BFGS_B:passthrough", d, [ref[0].tolist(), exp_succ, str(exp_msg)], [np.asarray(sol).tolist(), got[0], str(got[1])], "differs from direct SciPy call")
            ctx.fail("L_BFGS_B:passthrough", d, [ref[0].tolist(), exp_succ, str(exp_msg)], [np.asarray(sol).tolist(), got[0], str(got[1])],
                     "wrapper does not return SciPy's result unchanged")
        # ---- LS
        r = lambda x, B=B, c=c: B @ x - c
        J = lambda x, B=B: B
        for method in (["trf", "dogbox", "lm"][i % 3],):
            d = {**desc, "wrapper": "LS", "method": method}
            ctx.case("wrap-LS", d)
            with quiet():
                sol, info = LS(r, x0.copy(), jacfun=J, method=method, tol=1e-8, maxit=200).solve()
                ref = sopt.least_squares(r, x0.copy(), jac=J, method=method, loss="linear", xtol=1e-8, max_nfev=200)
            ok = same(sol, ref["x"]) and same(info["func"], ref["fun"]) and same(info["jac"], ref["jac"]) and info["nfev"] == ref["nfev"] \
                and info["success"] == ref["success"] and info["message"] == ref["message"]
            if not ok:
                ctx.disagree("LS:passthrough", d, ref["x"].tolist(), np.asarray(sol).tolist(), "differs from direct SciPy call")
                ctx.fail("LS:passthrough", d, ref["x"].tolist(), np.asarray(sol).tolist(), "wrapper does not return SciPy's result unchanged")
        # documented default `jacfun=None` ("the solver approximates the Jacobian")
        if i < 3:
            d = {**desc, "wrapper": "LS", "jacfun": None}
            ctx.case("wrap-LS-default-jac", d)
            with quiet():
                ref = sopt.least_squares(r, x0.copy(), method="trf", loss="linear", xtol=1e-6, max_nfev=10000)
            try:
                with quiet():
                    sol, info = LS(r, x0.copy()).solve()
                if not same(sol, ref["x"]):
                    ctx.fail("LS:jacfun-none:result", d, ref["x"].tolist(), np.asarray(sol).tolist(), "differs from SciPy with its own Jacobian approximation")
            except Exception as e:
                ctx.fail("LS:jacfun-none:raises", d, ref["x"].tolist(), repr(e)[:120],
                         "LS with the documented default jacfun=None raises instead of returning SciPy's result")
    check_wrapper_kwargs(ctx, rs, sc, S, minimize, maximize)
    check_lbfgsb_kwargs(ctx, rs, sc, L_BFGS_B)
    # ---- L_BFGS_B translation table with a scripted SciPy (all warnflags), against the model's table
    orig = S.fmin_l_bfgs_b
    try:
        for wf in (0, 1, 2, 3):
            for hasgrad in (False, True):
                seen = {}
                def stub(func, x0, fprime=None, approx_grad=None, **kw):
                    seen["approx_grad"] = approx_grad; seen["fprime"] = fprime; seen["kw"] = kw
                    return (np.array([1.5, -2.0]), 0.75, {"warnflag": wf, "task": f"ABNORMAL-{wf}", "grad": np.array([0.5, 0.25]), "nit": 7, "funcalls": 11})
                S.fmin_l_bfgs_b = stub
                gfun = (lambda x: x) if hasgrad else None
                sol, info = L_BFGS_B(lambda x: 0.0, np.zeros(2), gradfunc=gfun, maxiter=3).solve()
                d = {"wrapper": "L_BFGS_B", "scripted_warnflag": wf, "grad": hasgrad}
                ctx.case("wrap-lbfgsb-table", d)
                succ, ag, msg = model_lbfgsb(ctx, wf, hasgrad)
                msg = f"ABNORMAL-{wf}" if msg == "TASK" else msg
                exp = [[1.5, -2.0], succ, msg, 0.75, [0.5, 0.25], 7, 11, ag, {"maxiter": 3}]
                got = [np.asarray(sol).tolist(), info["success"], info["message"], info["func"], np.asarray(info["grad"]).tolist(), info["nit"], info["nfev"],
                       seen.get("approx_grad"), seen.get("kw")]
                if exp != got or (seen.get("fprime") is not gfun):
                    ctx.disagree("L_BFGS_B:table", d, exp, got, "info translation differs from the model table")
                    ctx.fail("L_BFGS_B:table", d, exp, got, "wrapper does not pass SciPy's result through unchanged")
    finally:
        S.fmin_l_bfgs_b = orig


def check_lbfgsb_kwargs(ctx, rs, sc, L_BFGS_B):
    """every keyword of fmin_l_bfgs_b that L_BFGS_B forwards must arrive: non-quadratic problem with more variables than
    the memory length, each keyword alone and combined, against the direct SciPy call (every returned field)"""
    for rep_ in range(1 * sc):
        n = int(rs.randint(6, 11))
        w = rs.randint(1, 4, size=n).astype(float)
        def f(x, w=w):            # Rosenbrock-type chain, scaled
            return float(np.sum(10.0 * w[:-1] * (x[1:] - x[:-1] ** 2) ** 2 + (1 - x[:-1]) ** 2))
        def g(x, w=w):
            gr = np.zeros_like(x)
            gr[:-1] += -40.0 * w[:-1] * (x[1:] - x[:-1] ** 2) * x[:-1] - 2 * (1 - x[:-1])
            gr[1:] += 20.0 * w[:-1] * (x[1:] - x[:-1] ** 2)
            return gr
        fa = lambda x, a, w=w: a * f(x)
        ga = lambda x, a, w=w: a * g(x)
        x0 = rs.randint(-2, 3, size=n) / 2.0
        bnds = [(-1.5, 0.75)] * n
        kws = [{}, {"m": 3}, {"m": 17}, {"pgtol": 1e-10}, {"factr": 10.0}, {"maxfun": 25}, {"maxiter": 7}, {"maxls": 3}, {"bounds": bnds},
               {"m": 3, "pgtol": 1e-10, "factr": 10.0}, {"m": 4, "bounds": bnds, "maxiter": 30, "maxls": 10}, {"epsilon": 1e-6}, {"callback": "CB"}, {"args": (2.0,)}]
        for kw in kws:
            for withgrad in (True, False):
                if "epsilon" in kw and withgrad:
                    continue
                desc = {"wrapper": "L_BFGS_B", "kwargs": {k: (v if k != "bounds" else "box") for k, v in kw.items()}, "grad": withgrad, "n": n, "x0": x0.tolist(), "w": w.tolist()}
                ctx.case("wraplb-kwargs", desc)
                key = "L_BFGS_B:kwargs:" + ("+".join(kw) if kw else "none")
                F, Gd = (fa, ga) if "args" in kw else (f, g)
                logs = ([], [])
                def mk(kw, log):
                    k2 = dict(kw)
                    if k2.get("callback") == "CB":
                        k2["callback"] = lambda xk: log.append(np.array(xk, dtype=float).copy())
                    return k2
                try:
                    with quiet():
                        ref = sopt.fmin_l_bfgs_b(F, x0.copy(), fprime=Gd if withgrad else None, approx_grad=0 if withgrad else 1, **mk(kw, logs[0]))
                        sol, info = L_BFGS_B(F, x0.copy(), gradfunc=Gd if withgrad else None, **mk(kw, logs[1])).solve()
                except Exception as e:
                    ctx.fail(key, desc, "SciPy's result", repr(e)[:100], "wrapper raises for a keyword SciPy accepts"); continue
                bad = [nm for nm, a, b_ in (("x", sol, ref[0]), ("func", info["func"], ref[1]), ("grad", info["grad"], ref[2]["grad"]),
                                            ("nit", info["nit"], ref[2]["nit"]), ("nfev", info["nfev"], ref[2]["funcalls"])) if not same_deep(a, b_)]
                if len(logs[0]) != len(logs[1]) or any(not np.array_equal(u, v) for u, v in zip(*logs)):
                    bad.append("callback")
                if bad:
                    ctx.disagree(key, desc, [np.asarray(ref[0]).tolist(), ref[2]["nit"], ref[2]["funcalls"]], [np.asarray(sol).tolist(), info["nit"], info["nfev"]], "fields differing: " + ",".join(bad))
                    ctx.fail(key, desc, [np.asarray(ref[0]).tolist(), float(ref[1]), ref[2]["nit"], ref[2]["funcalls"]], [np.asarray(sol).tolist(), float(info["func"]), info["nit"], info["nfev"]],
                             "L_BFGS_B does not return what fmin_l_bfgs_b returns for the same keyword arguments (a keyword is lost or renamed)")


def same_deep(a, b):
    if isinstance(a, (list, tuple)) and isinstance(b, (list, tuple)) and (len(a) == 0 or not np.isscalar(a[0])):
        return len(a) == len(b) and all(same_deep(x, y) for x, y in zip(a, b))
    try:
        return bool(same(a, b))
    except Exception:
        return False


def check_wrapper_kwargs(ctx, rs, sc, S, minimize, maximize):
    """every keyword combination the wrappers forward: result == direct scipy.optimize.minimize with the same kwargs,
    the call handed to SciPy == the model's `minimizeCall`, and the returned point is feasible and not worse."""
    import types
    from scipy.optimize import Bounds, LinearConstraint
    DF = ("Nelder-Mead", "Powell", "COBYLA")
    # the model's table for every (wrapper, method, gradient, keyword list) used below, in one driver call
    KW = [(None, []), (None, ["bounds"]), (None, ["constraints"]), (None, ["bounds", "constraints"]),
          (None, ["bounds", "constraints", "options"]), (None, ["tol", "options"]), (None, ["options"]), ("L-BFGS-B", ["bounds", "options"]),
          ("L-BFGS-B", ["bounds", "tol"]), ("TNC", ["bounds"]), ("SLSQP", ["bounds", "constraints"]), ("SLSQP", ["constraints", "tol"]),
          ("SLSQP", ["constraints"]), ("Newton-CG", ["hess"]), ("trust-ncg", ["hess", "options"]), ("BFGS", ["options", "callback"]),
          ("CG", ["tol"]), ("Nelder-Mead", ["bounds"]), ("COBYLA", ["constraints"])]
    pre = [f"mincall {w} {m if m is not None else 'None'} {hg} {','.join(k) if k else '_'}" for w in ("min", "max") for m, k in KW for hg in (0, 1)]
    pre += [f"mininfo {a} {b_}" for a in (0, 1) for b_ in (0, 1)]
    for ln, out in zip(pre, ctx.lean.drive(pre)):
        _MC[ln] = out
    for rep in range(2 * sc):
        n = 2 + rep % 2
        B = gen_matrix(rs, n + 1, n, False); c = rs.randint(-3, 4, size=n + 1).astype(float)
        f = lambda x, B=B, c=c: float(0.5 * np.sum((B @ x - c) ** 2))
        g = lambda x, B=B, c=c: B.T @ (B @ x - c)
        H = lambda x, B=B: B.T @ B
        xs = np.linalg.solve(B.T @ B, B.T @ c)              # unconstrained minimiser
        x0 = np.zeros(n)
        # a linear inequality that is ACTIVE at the constrained optimum: sum(x) <= sum(xs) - 1, feasible at a shifted start
        lim = float(np.sum(xs) - 1.0)
        x0c = np.full(n, (lim - 1.0) / n)
        con_fun = lambda x, lim=lim: lim - np.sum(x)
        con_jac = lambda x, n=n: -np.ones(n)
        cons = [{"type": "ineq", "fun": con_fun, "jac": con_jac}]
        lo = np.minimum(x0c, xs) - 0.5; up = xs - 0.25          # upper bounds active for the unconstrained minimiser
        lo = np.minimum(lo, up - 0.5)
        bnds = list(zip(lo.tolist(), up.tolist()))
        x0b = np.clip(x0c, lo, up)
        feas = {"bounds": lambda x: bool(np.all(x >= lo - 1e-6) and np.all(x <= up + 1e-6)),
                "constraints": lambda x: bool(con_fun(x) >= -1e-6)}
        cases = [
            ("default", None, {}, x0),
            ("default+bounds", None, {"bounds": bnds}, x0b),
            ("default+constraints", None, {"constraints": cons}, x0c),
            ("default+bounds+constraints", None, {"bounds": bnds, "constraints": cons}, x0b),
            ("default+bounds+constraints+options", None, {"bounds": Bounds(lo, up), "constraints": cons, "options": {"maxiter": 200, "ftol": 1e-12}}, x0b),
            ("default+tol+options", None, {"tol": 1e-10, "options": {"maxiter": 500}}, x0),
            ("default+constraints-empty-list", None, {"constraints": []}, x0),          # falsy values given explicitly
            ("default+bounds-None", None, {"bounds": None}, x0),
            ("default+options-empty", None, {"options": {}}, x0),
            ("SLSQP+constraints-empty-tuple", "SLSQP", {"constraints": ()}, x0),
            ("L-BFGS-B+bounds+options", "L-BFGS-B", {"bounds": bnds, "options": {"maxiter": 3}}, x0b),
            ("L-BFGS-B+bounds+tol", "L-BFGS-B", {"bounds": bnds, "tol": 1e-12}, x0b),
            ("TNC+bounds", "TNC", {"bounds": bnds}, x0b),
            ("SLSQP+bounds+constraints", "SLSQP", {"bounds": bnds, "constraints": cons}, x0b),
            ("SLSQP+constraints+tol", "SLSQP", {"constraints": cons, "tol": 1e-12}, x0c),
            ("SLSQP+linear-constraint", "SLSQP", {"constraints": [LinearConstraint(np.ones((1, n)), -np.inf, lim)]}, x0c),
            ("Newton-CG+hess", "Newton-CG", {"hess": H}, x0),
            ("trust-ncg+hess+options", "trust-ncg", {"hess": H, "options": {"gtol": 1e-10}}, x0),
            ("BFGS+options+callback", "BFGS", {"options": {"gtol": 1e-9, "maxiter": 50}, "callback": "CB"}, x0),
            ("CG+tol", "CG", {"tol": 1e-9}, x0),
            ("Nelder-Mead+bounds", "Nelder-Mead", {"bounds": bnds}, x0b),
            ("COBYLA+constraints", "COBYLA", {"constraints": [{"type": "ineq", "fun": con_fun}]}, x0c),
        ]
        for wname in ("minimize", "maximize"):
            for cname, method, kw, start in cases:
                for withgrad in ((True, False) if method in (None, "L-BFGS-B", "SLSQP") else (method not in DF,)):
                    if method in ("Newton-CG", "trust-ncg") and not withgrad:
                        continue
                    gg = g if withgrad else None
                    desc = {"wrapper": wname, "case": cname, "method": method, "kwargs": sorted(kw), "grad": withgrad,
                            "B": B.tolist(), "c": c.tolist(), "x0": start.tolist(), "bounds": bnds, "sum_limit": lim}
                    ctx.case(f"wrapkw-{wname}", desc)
                    key = f"{wname}:kwargs:{cname}"
                    cb_ref, cb_w = [], []
                    def mk(kw, log):
                        k2 = dict(kw)
                        if k2.get("callback") == "CB":
                            k2["callback"] = lambda xk, *a: log.append(np.array(xk, dtype=float).copy())
                        return k2
                    with quiet():
                        ref = sopt.minimize(f, start.copy(), jac=gg, method=method, **mk(kw, cb_ref))
                    # record the call the wrapper hands to SciPy
                    seen = {}
                    real = S.opt
                    def spy(func, x0_, jac=None, method=None, **k):
                        seen.update(method=method, hasjac=jac is not None, kw=list(k))
                        return real.minimize(func, x0_, jac=jac, method=method, **k)
                    S.opt = types.SimpleNamespace(minimize=spy)
                    try:
                        with quiet():
                            if wname == "minimize":
                                sol, info = minimize(f, start.copy(), gradfunc=gg, method=method, **mk(kw, cb_w)).solve()
                            else:
                                nf = lambda x: -f(x)
                                ng = (lambda x: -g(x)) if withgrad else None
                                kk = mk(kw, cb_w)
                                sol, info = maximize(nf, start.copy(), gradfunc=ng, method=method, **kk).solve()
                    except Exception as e:
                        k = f"{wname}:raises:kwargs:{cname}"
                        ctx.fail(k, desc, [ref["x"].tolist(), float(ref["fun"])], repr(e)[:100], "wrapper raises instead of returning SciPy's result")
                        continue
                    finally:
                        S.opt = real
                    sol = np.asarray(sol, dtype=float)
                    # (a) the call: model table vs what was handed over
                    mline = f"mincall {'min' if wname == 'minimize' else 'max'} {method if method is not None else 'None'} {int(withgrad)} {','.join(kw) if kw else '_'}"
                    mout = model_call(ctx, mline)
                    got_call = f"{seen.get('method') if seen.get('method') is not None else 'None'}|{int(bool(seen.get('hasjac')))}|{','.join(seen.get('kw', [])) if seen.get('kw') else '_'}"
                    bad = []
                    if mout != got_call:
                        bad.append(("call", mout, got_call))
                    # (b) every field equals the direct SciPy call
                    mn = model_info_none(ctx, ref)
                    for fld, k_ in (("grad", "jac"), ("nit", "nit")):
                        # reported by SciPy -> passed through; not reported (derivative-free methods) -> None, as in the model's table
                        if not opt_same(info[fld], ref, k_) or (info[fld] is None) != mn[fld]:
                            bad.append((fld, str(ref.get(k_, None))[:80], str(info[fld])[:80]))
                    for fld, a, b_ in (("x", sol, ref["x"]), ("func", info["func"], ref["fun"]), ("nfev", info["nfev"], ref["nfev"]),
                                       ("success", info["success"], ref["success"]), ("message", info["message"], ref["message"])):
                        if not same_deep(a, b_):
                            bad.append((fld, str(b_)[:80], str(a)[:80]))
                    if len(cb_ref) != len(cb_w) or any(not np.array_equal(u, v) for u, v in zip(cb_ref, cb_w)):
                        bad.append(("callback", len(cb_ref), len(cb_w)))
                    if bad:
                        ctx.disagree(key, desc, [b[1] for b in bad], [b[2] for b in bad], "fields differing: " + ",".join(b[0] for b in bad))
                        ctx.fail(key, desc, {b[0]: b[1] for b in bad}, {b[0]: b[2] for b in bad},
                                 "wrapper does not return SciPy's result for the same keyword arguments unchanged")
                    # (c) oracle on the returned point: feasible for what was asked, and not worse than SciPy's point
                    if ref["success"] and np.all(np.isfinite(sol)):
                        for what in ("bounds", "constraints"):
                            if what in kw and feas[what](ref["x"]) and not feas[what](sol):
                                ctx.fail(key + ":feasible", desc, f"{what} satisfied", sol.tolist(), f"returned point violates the given {what}")
                        if f(sol) > f(ref["x"]) + 1e-8 * (1 + abs(f(ref["x"]))):
                            ctx.fail(key + ":objective", desc, float(f(ref["x"])), float(f(sol)), "returned point is worse than SciPy's for the same call")


_MC = {}
def model_call(ctx, line):
    if line not in _MC:
        _MC[line] = ctx.lean.drive([line])[0]
    return _MC[line]


_LB = {}
def model_lbfgsb(ctx, wf, hasgrad):
    k = (int(wf), bool(hasgrad))
    if k not in _LB:
        out = ctx.lean.drive([f"lbfgsb {int(wf)} {int(bool(hasgrad))}"])[0]
        succ, ag, msg = out.split(" ", 2)
        _LB[k] = (int(succ), int(ag), msg)
    return _LB[k]


def model_info_none(ctx, ref):
    """model's translation table: which info entries are None for a SciPy result with/without jac, nit"""
    out = model_call(ctx, f"mininfo {int('jac' in ref)} {int('nit' in ref)}")
    return {kv.split("=")[0]: kv.split("=")[1] == "none" for kv in out.split()}


def opt_same(got, ref, key):
    """field present in SciPy's result -> equal; absent -> must be None"""
    return (got is None) if key not in ref else (got is not None and same_deep(got, ref[key]))


def chk_info(ctx, key, d, sol, info, ref):
    mn = model_info_none(ctx, ref)
    ok = same(sol, ref["x"]) and same(info["func"], ref["fun"]) and info["success"] == ref["success"] and info["message"] == ref["message"] \
        and opt_same(info["nit"], ref, "nit") and info["nfev"] == ref["nfev"] and opt_same(info["grad"], ref, "jac") \
        and (info["grad"] is None) == mn["grad"] and (info["nit"] is None) == mn["nit"]
    if not ok:
        ctx.disagree(key, d, ref["x"].tolist(), np.asarray(sol).tolist(), "differs from direct SciPy call")
        ctx.fail(key, d, [ref["x"].tolist(), float(ref["fun"])], [np.asarray(sol).tolist(), float(info["func"])],
                 "wrapper does not return SciPy's result unchanged (apart from sign for maximisation)")


# ----------------------------------------------------------------------------- malformed inputs
def check_malformed(ctx, rs, CGLS, PCGLS, FISTA):
    A = np.array([[2.0, 1.0], [1.0, 3.0], [0.0, 1.0]])
    cases = [
        ("cgls-b-short", f"cgls mat {qm(A)} 1,2 0,0 0 1/1000 5", lambda: CGLS(A, np.array([1.0, 2.0]), np.zeros(2), 5, 1e-3, 0).solve()),
        ("cgls-x0-long", f"cgls mat {qm(A)} 1,2,3 0,0,0 0 1/1000 5", lambda: CGLS(A, np.array([1.0, 2.0, 3.0]), np.zeros(3), 5, 1e-3, 0).solve()),
        ("pcgls-singular-P", f"pcgls mat {qm(A)} inv 1,1;1,1 1,2,3 0,0 0 1/1000 5",
         lambda: PCGLS(A, np.array([1.0, 2.0, 3.0]), np.zeros(2), sp.csc_matrix(np.ones((2, 2))), 5, 1e-3, 0).solve()),
        ("pcgls-P-shape", f"pcgls mat {qm(A)} inv 1,0,0;0,1,0;0,0,1 1,2,3 0,0 0 1/1000 5",
         lambda: PCGLS(A, np.array([1.0, 2.0, 3.0]), np.zeros(2), sp.csc_matrix(np.eye(3)), 5, 1e-3, 0).solve()),
        ("fista-b-short", f"fista mat {qm(A)} 1,2 0,0 nonneg 1/16 1/1000 5 1",
         lambda: FISTA(A, np.array([1.0, 2.0]), np.zeros(2), lambda x, g: np.maximum(x, 0), maxit=5, stepsize=1 / 16, abstol=1e-3).solve()),
    ]
    outs = ctx.lean.drive([c[1] for c in cases] + ["cgls mat 1,2;3 1,2 0,0 0 1/1000 5", "nonsense 1 2", "cgls mat 1,0;0,1 1,2 0,0 0 x 5"])
    for (name, line, f), out in zip(cases, outs):
        ctx.case("malformed", {"name": name, "line": line}, nontrivial=False)
        try:
            with quiet():
                r = f()
            impl = "ok"
            if not np.all(np.isfinite(np.asarray(r[0], dtype=float))):
                impl = "nonfinite"
        except Exception as e:
            impl = "err"
        if not out.startswith("err"):
            ctx.disagree("malformed:" + name, {"line": line}, out[:80], impl, "model accepts a malformed input")
        elif impl == "ok":
            ctx.disagree("malformed:" + name, {"line": line}, out, impl, "implementation accepts (and returns a finite result for) an input the model refuses")
    for out in outs[len(cases):]:
        ctx.case("malformed", {"driver": out}, nontrivial=False)
        if out not in ("bad-op", "err-dim"):
            ctx.disagree("malformed:driver", {}, "bad-op", out, "driver accepts an unparsable line")


# ----------------------------------------------------------------------------- generic classes (dtypes, ownership, aliasing, histories)
def snap(objs):
    out = []
    for o in objs:
        if isinstance(o, np.ndarray):
            out.append((str(o.dtype), o.shape, o.tobytes()))
        elif sp.issparse(o):
            out.append((o.data.tobytes(), o.indices.tobytes(), o.indptr.tobytes()))
        else:
            out.append(repr(o))
    return out


def as_kind(v, kind):
    v = np.asarray(v)
    if kind == "list":
        return [int(t) for t in v]
    if kind == "0d":
        return np.array(float(v.ravel()[0]))
    return v.astype({"int64": np.int64, "int32": np.int32, "float32": np.float32, "bool": bool, "float64": float,
                     "uint8": np.uint8, "int8": np.int8, "float16": np.float16}[kind])


def check_generic(ctx, rs, sc, cuqi, CGLS, PCGLS, FISTA, LM, LS, L_BFGS_B, minimize, maximize, ProximalL1):
    """implementation-only differential checks against the float64 / matrix-form / fresh-object run of the same solver
    (which the sections above tie to the exact model), plus the optimality oracles:
    G1 non-float64 inputs, G2 caller-owned objects untouched, G3 operators whose outputs are views of their inputs and
    results not aliasing inputs, G5 call histories on one object, G6 falsy options (G4, the scale sweeps, is above),
    G7 memory layouts / read-only / ndarray subclasses, positional vs keyword arguments, callables returning the same
    array object every call, G8 every returned array retained and re-verified at the end."""
    from cuqi.array import CUQIarray
    retained = []
    for rep_ in range(4 * sc):
        n = int(rs.randint(1, 5)); m = n + int(rs.randint(0, 3))
        A = gen_matrix(rs, m, n, False)
        b = rs.randint(-5, 6, size=m).astype(float)
        x0 = rs.randint(0, 2, size=n).astype(float)                    # 0/1: representable in every dtype incl. bool
        shift = float(rs.choice([0.0, 0.5]))
        P = gen_precond(rs, n, "tri")
        Psp = sp.csc_matrix(P)
        L = np.linalg.norm(A, 2) ** 2
        t = 0.9 / L; lam = 0.5
        prox = lambda x, g: ProximalL1(x, lam * g)
        resf = lambda x, A=A, b=b: A @ np.asarray(x, dtype=float) - b
        jacf = lambda x, A=A: A
        solvers = {
            "CGLS": lambda A_, b_, x0_: CGLS(A_, b_, x0_, 60, 1e-10, shift).solve(),
            "PCGLS": lambda A_, b_, x0_: PCGLS(A_, b_, x0_, Psp, 60, 1e-10, 0).solve(),
            "FISTA": lambda A_, b_, x0_: FISTA(A_, b_, x0_, prox, maxit=4000, stepsize=t, abstol=1e-12, adaptive=bool(rep_ % 2)).solve(),
        }
        if n == 1:
            del solvers["PCGLS"]                                        # known finding PCGLS:*:dim1:raises
        base = {}
        desc0 = {"A": A.tolist(), "b": b.tolist(), "x0": x0.tolist(), "shift": shift, "P": P.tolist()}
        for name, run_ in solvers.items():
            with quiet():
                xb, kb = run_(A.copy(), b.copy(), x0.copy())
            base[name] = (np.asarray(xb, dtype=float), int(kb))
        with quiet():
            xl, il = LM(resf, x0.copy(), jacf, maxit=200, sparse=False).solve()
        base["LM"] = (np.asarray(xl, dtype=float), int(il["nfev"]))

        def judge(name, tag, kind, call, precision=False):
            """result of `call()` must be the float64 baseline; caller-owned arguments are snapshotted by the caller"""
            desc = {**desc0, "solver": name, "variant": tag, "kind": kind}
            ctx.case(f"generic-{tag}", desc)
            try:
                with quiet():
                    r = call()
            except Exception as e:
                ctx.fail(f"{name}:{tag}:{kind}:raises", desc, [base[name][0].tolist(), base[name][1]], repr(e)[:100],
                         "solver raises for an input that differs from the float64 one only by its dtype / container")
                return None
            x = np.asarray(r[0]); k = int(r[1]["nfev"]) if isinstance(r[1], dict) else int(r[1])
            retained.append((f"{name}:{tag}:{kind}", r[0], np.asarray(r[0]).tobytes(), desc))
            # another memory layout of A / an out= buffer takes another BLAS path: rounding may move the abstol/tol crossing by an iteration
            same_path = not ((tag == "layout" and kind.startswith("A-")) or tag == "same-object-operator")
            # LM hands back the x0 object itself when no step is taken (`x = self.x0`): dtype / identity of the start, values judged only
            lm_noop = (name == "LM" and base[name][1] == 0)
            if (x.dtype != np.float64 and not lm_noop) or (same_path and k != base[name][1]) or not vclose(x.astype(float), base[name][0], 1e-9 if same_path else 1e-8):
                ctx.fail(f"{name}:{tag}:{kind}:" + ("precision" if precision else "differs"), desc, [base[name][0].tolist(), base[name][1], "float64"],
                         [x.tolist(), k, str(x.dtype)], "result differs from the one for the float64 version of the same numbers")
            return r

        # ---- G1: dtypes / containers of x0, b, A; G2: the passed objects are untouched
        for name, run_ in list(solvers.items()) + [("LM", None)]:
            for kind in ("int64", "int32", "float32", "bool", "list", "uint8", "int8", "float16"):    # narrow types wrap / are logical
                if kind == "list" and name in ("CGLS", "PCGLS"):
                    continue                                          # documented as ndarray; CGLS raises TypeError loudly (noted in docs)
                xk = as_kind(x0, kind); Ak, bk = A.copy(), b.copy()
                before = snap([Ak, bk, xk, Psp])
                if name == "LM":
                    judge(name, "x0-dtype", kind, lambda: LM(resf, xk, jacf, maxit=200, sparse=False).solve(), precision=(kind in ("float32", "float16")))
                else:
                    judge(name, "x0-dtype", kind, lambda: run_(Ak, bk, xk), precision=(kind in ("float32", "float16")))
                if snap([Ak, bk, xk, Psp]) != before:
                    ctx.fail(f"{name}:mutates-argument", {**desc0, "solver": name, "kind": kind}, "A, b, x0, P untouched", "changed",
                             "solver modifies an object owned by the caller")
            if name == "LM":
                continue
            for kind in ("int64", "float32", "list", "int8", "float16"):
                bk = as_kind(b, kind); Ak, xk = A.copy(), x0.copy()
                before = snap([Ak, bk, xk, Psp])
                judge(name, "b-dtype", kind, lambda: run_(Ak, bk, xk))
                if snap([Ak, bk, xk, Psp]) != before:
                    ctx.fail(f"{name}:mutates-argument", {**desc0, "solver": name, "kind": "b-" + kind}, "A, b, x0, P untouched", "changed",
                             "solver modifies an object owned by the caller")
            Ak = A.astype(np.int64)
            judge(name, "A-dtype", "int64", lambda: run_(Ak, b.copy(), x0.copy()))
            # ---- G3: the result is a new array
            with quiet():
                xr, _ = run_(A, b, x0)
            if isinstance(xr, np.ndarray) and (np.shares_memory(xr, x0) or np.shares_memory(xr, b)):
                ctx.fail(f"{name}:alias:result", {**desc0, "solver": name}, "result does not share memory with x0 / b", "shares memory",
                         "returned array aliases a caller-owned input")

        # ---- G7: same numbers in another memory layout / read-only / ndarray subclass
        def layouts(v):
            big = np.zeros((2 * len(v),) + v.shape[1:]); big[::2] = v
            ro = v.copy(); ro.setflags(write=False)
            out = {"strided": big[::2], "negstride": v[::-1].copy()[::-1], "readonly": ro}
            if v.ndim == 1:
                out["CUQIarray"] = CUQIarray(v.copy())
            else:
                out["fortran"] = np.asfortranarray(v); out["transposed-view"] = np.ascontiguousarray(v.T).T
            return out
        for name, run_ in list(solvers.items()) + [("LM", None)]:
            for lname, xv in layouts(x0).items():
                before = snap([xv]) if type(xv) is np.ndarray else np.asarray(xv).tobytes()
                if name == "LM":
                    judge(name, "layout", "x0-" + lname, lambda: LM(resf, xv, jacf, maxit=200, sparse=False).solve())
                else:
                    judge(name, "layout", "x0-" + lname, lambda: run_(A, b, xv))
                if (snap([xv]) if type(xv) is np.ndarray else np.asarray(xv).tobytes()) != before:
                    ctx.fail(f"{name}:mutates-argument", {**desc0, "solver": name, "kind": "x0-" + lname}, "x0 untouched", "changed", "solver modifies an object owned by the caller")
            if name == "LM":
                continue
            for lname, bv in layouts(b).items():
                judge(name, "layout", "b-" + lname, lambda: run_(A, bv, x0))
            for lname, Av in layouts(A).items():
                judge(name, "layout", "A-" + lname, lambda: run_(Av, b, x0))
        # ---- positional vs keyword passing of the (optional) arguments
        ad = bool(rep_ % 2)
        judge("CGLS", "argument-passing", "keywords", lambda: CGLS(A=A, b=b, x0=x0, maxit=60, tol=1e-10, shift=shift).solve())
        judge("CGLS", "argument-passing", "mixed", lambda: CGLS(A, b, x0, shift=shift, tol=1e-10, maxit=60).solve())
        if "PCGLS" in solvers:
            judge("PCGLS", "argument-passing", "keywords", lambda: PCGLS(A=A, b=b, x0=x0, P=Psp, maxit=60, tol=1e-10, shift=0).solve())
            judge("PCGLS", "argument-passing", "defaults", lambda: PCGLS(A, b, x0, Psp, 60, 1e-10).solve())
        judge("FISTA", "argument-passing", "positional", lambda: FISTA(A, b, x0, prox, 4000, t, 1e-12, ad).solve())
        judge("FISTA", "argument-passing", "keywords", lambda: FISTA(A=A, b=b, x0=x0, proximal=prox, adaptive=ad, abstol=1e-12, stepsize=t, maxit=4000).solve())
        judge("LM", "argument-passing", "positional", lambda: LM(resf, x0.copy(), jacf, 200, 1e-6, 1e-8, 1e-3, False).solve())
        judge("LM", "argument-passing", "keywords", lambda: LM(A=resf, x0=x0.copy(), jacfun=jacf, sparse=False, nu0=1e-3, gradtol=1e-8, tol=1e-6, maxit=200).solve())
        # ---- callables returning the SAME array object on every call (one output buffer per direction)
        bufs = {1: np.zeros(m), 2: np.zeros(n)}
        def opbuf(x, flag, bufs=bufs):
            np.matmul(A if flag == 1 else A.T, x, out=bufs[flag])
            return bufs[flag]
        for name, run_ in solvers.items():
            judge(name, "same-object-operator", "buffer", lambda: run_(opbuf, b, x0))
        rbuf = np.zeros(m)
        def resbuf(x, rbuf=rbuf):
            rbuf[...] = A @ x - b
            return rbuf
        try:
            with quiet():
                xq, iq = LM(resbuf, x0.copy(), jacf, maxit=200, sparse=False).solve()
            xq = np.array(xq, dtype=float)
            dq = {**desc0, "solver": "LM", "variant": "same-object-residual"}
            ctx.case("generic-same-object-operator", dq)
            lm_stop_oracle(ctx, "LM:same-object-operator:buffer", dq, resf, jacf, x0, xq, iq["nfev"], 200, 1e-8)
        except Exception as e:
            ctx.fail("LM:same-object-operator:buffer", {**desc0, "solver": "LM"}, "a stationary point", repr(e)[:100], "LM raises with a residual callable re-using its output array")

        # ---- G5: histories on one object (repeat, in-place update of the same argument arrays, attribute re-assignment)
        b2 = b + rs.randint(1, 4, size=m); x02 = 1.0 - x0
        for name in ("CGLS", "FISTA", "LM"):
            bw, xw = b.copy(), x0.copy()
            if name == "CGLS":
                mk = lambda b_, x_, tol=1e-10, maxit=60, sh=shift: CGLS(A, b_, x_, maxit, tol, sh)
                retune = {"tol": 1e-3, "maxit": 1, "shift": 1.0}
                fresh2 = lambda: CGLS(A, b2.copy(), x02.copy(), 1, 1e-3, 1.0).solve()
            elif name == "FISTA":
                mk = lambda b_, x_: FISTA(A, b_, x_, prox, maxit=300, stepsize=t, abstol=1e-12, adaptive=True)
                retune = {"maxit": 7, "stepsize": t / 2, "abstol": 1e-3, "adaptive": False}
                fresh2 = lambda: FISTA(A, b2.copy(), x02.copy(), prox, maxit=7, stepsize=t / 2, abstol=1e-3, adaptive=False).solve()
            else:
                rw = lambda x, bw=bw: A @ x - bw
                mk = lambda b_, x_: LM(rw, x_, jacf, maxit=200, sparse=False)
                retune = {"maxit": 2, "gradtol": 1e-2, "nu0": 0.5}
                fresh2 = lambda: LM(lambda x: A @ x - b2, x02.copy(), jacf, maxit=2, gradtol=1e-2, nu0=0.5, sparse=False).solve()
            desc = {**desc0, "solver": name, "history": []}
            ctx.case("generic-history", {**desc0, "solver": name})
            def eq(r, q_):
                k1 = r[1]["nfev"] if isinstance(r[1], dict) else r[1]; k2 = q_[1]["nfev"] if isinstance(q_[1], dict) else q_[1]
                return k1 == k2 and np.array_equal(np.asarray(r[0]), np.asarray(q_[0]))
            try:
                with quiet():
                    obj = mk(bw, xw)
                    r1 = obj.solve(); r1 = (np.array(r1[0], copy=True), r1[1])
                    r2 = obj.solve()
                    ok_repeat = eq(r1, r2)
                    lm_noop = (name == "LM" and r1[1]["nfev"] == 0)     # LM returns the x0 object itself when no step is taken (observation)
                    if not lm_noop:
                        r2[0][...] = 123.0                           # mutate the returned array: must not change a later solve
                    r3 = obj.solve()
                    ok_mut = eq(r1, r3)
                    bw[...] = b2; xw[...] = x02                    # in-place update of the SAME argument arrays
                    r4 = obj.solve()
                    with quiet():
                        f1 = mk(b2.copy(), x02.copy()).solve() if name != "LM" else LM(lambda x: A @ x - b2, x02.copy(), jacf, maxit=200, sparse=False).solve()
                    ok_inplace = eq(r4, f1)
                    for k_, v_ in retune.items():
                        setattr(obj, k_, v_)
                    r5 = obj.solve()
                    ok_retune = eq(r5, fresh2())
            except Exception as e:
                ctx.fail(f"{name}:history:raises", desc, "results", repr(e)[:100], "a repeated / reconfigured solve raises")
                continue
            for tag, ok in (("repeat", ok_repeat), ("result-mutated", ok_mut), ("inplace-update", ok_inplace), ("reassign", ok_retune)):
                if not ok:
                    ctx.fail(f"{name}:history:{tag}", {**desc, "history": tag}, "result of a fresh object with the current configuration", "differs",
                             "a solve on a re-used object does not give the result of a fresh object with the current arguments")

    # ---- G3: function-form operators whose outputs are VIEWS of their inputs (identity, slices, reshapes, flips, restrictions)
    for rep_ in range(3 * sc):
        n = int(rs.randint(2, 6))
        d = rs.randint(1, 4, size=n).astype(float)
        mres = int(rs.randint(1, n))
        ops = {
            "identity": (np.eye(n), lambda x, f: x),
            "slice-all": (np.eye(n), lambda x, f: x[:]),
            "reshape": (np.eye(n), lambda x, f: x.reshape(-1)),
            "flip": (np.eye(n)[::-1].copy(), lambda x, f: x[::-1]),
            "restriction": (np.eye(n)[:mres].copy(), lambda x, f, n=n, mres=mres: x[:mres] if f == 1 else np.concatenate([x, np.zeros(n - mres)])),
        }
        for oname, (Mx, fun) in ops.items():
            m = Mx.shape[0]
            b = rs.randint(-5, 6, size=m).astype(float)
            x0 = rs.randint(-3, 4, size=n).astype(float)
            shift = float(rs.choice([0.0, 0.5, 1.0])) if oname != "restriction" else float(rs.choice([0.5, 1.0]))
            P = gen_precond(rs, n, "diag"); Psp = sp.csc_matrix(P)
            lam = float(rs.choice([0.25, 1.0])); t = float(rs.choice([0.5, 0.9, 1.0]))
            prox = lambda x, g, lam=lam: ProximalL1(x, lam * g)
            desc = {"operator": oname, "n": n, "b": b.tolist(), "x0": x0.tolist(), "shift": shift, "P": P.tolist(), "lam": lam, "stepsize": t}
            runs = {"CGLS": lambda op: CGLS(op, b, x0, 60, 1e-10, shift).solve(),
                    "PCGLS": lambda op: PCGLS(op, b, x0, Psp, 60, 1e-10, 0).solve(),
                    "ISTA": lambda op: FISTA(op, b, x0, prox, maxit=5000, stepsize=t, abstol=1e-13, adaptive=False).solve(),
                    "FISTA": lambda op: FISTA(op, b, x0, prox, maxit=5000, stepsize=t, abstol=1e-13, adaptive=True).solve()}
            for name, run_ in runs.items():
                ctx.case("generic-view-operator", {**desc, "solver": name})
                key = f"{name}:alias-operator:{oname}"
                before = snap([b, x0, Psp])
                try:
                    with quiet():
                        xm, km = run_(Mx)
                        xf, kf = run_(fun)
                except Exception as e:
                    ctx.fail(key, {**desc, "solver": name}, "a result", repr(e)[:100], "solver raises with a function-form operator returning views")
                    continue
                retained.append((f"{name}:alias-operator:{oname}", xf, np.asarray(xf).tobytes(), {**desc, "solver": name}))
                retained.append((f"{name}:alias-operator:{oname}", xm, np.asarray(xm).tobytes(), {**desc, "solver": name}))
                xm = np.asarray(xm, dtype=float); xf = np.asarray(xf, dtype=float)
                if snap([b, x0, Psp]) != before:
                    ctx.fail(f"{name}:mutates-argument", {**desc, "solver": name}, "b, x0, P untouched", "changed", "solver modifies an object owned by the caller")
                if km != kf or not vclose(xm, xf, 1e-12):
                    ctx.disagree(key, {**desc, "solver": name}, [xm.tolist(), int(km)], [xf.tolist(), int(kf)], "function form (views) differs from the matrix form")
                # the property at the function-form result
                if name in ("CGLS", "PCGLS"):
                    sh = shift if name == "CGLS" else 0.0
                    sres = Mx.T @ (b - Mx @ xf) - sh * xf
                    if not np.all(np.isfinite(xf)) or np.linalg.norm(sres) > 1e-7 * (1 + np.linalg.norm(Mx.T @ b) + np.linalg.norm(x0)):
                        ctx.fail(key, {**desc, "solver": name}, "normal equations hold at the returned point", float(np.linalg.norm(sres)),
                                 "with an operator returning views of its input the returned point does not solve the normal equations")
                    elif km != kf or not vclose(xm, xf, 1e-12):
                        ctx.fail(key, {**desc, "solver": name}, [xm.tolist(), int(km)], [xf.tolist(), int(kf)], "result depends on the operator form")
                else:
                    Tx = ref_prox("l1", {"lam": lam}, xf - t * (Mx.T @ (Mx @ xf - b)), t)
                    if not np.all(np.isfinite(xf)) or (kf < 5000 and not (np.linalg.norm(xf - Tx) <= 1e-9)):
                        ctx.fail(key, {**desc, "solver": name}, "x = prox_t(x - t A^T(Ax-b))", float(np.linalg.norm(xf - Tx)),
                                 "with an operator returning views of its input the returned point is not a fixed point of the proximal-gradient map")
                    elif km != kf or not vclose(xm, xf, 1e-12):
                        ctx.fail(key, {**desc, "solver": name}, [xm.tolist(), int(km)], [xf.tolist(), int(kf)], "result depends on the operator form")
        # LM: residual / Jacobian callables returning views (of the argument / of a stored matrix)
        Jst = np.diag(d)
        for oname, rv, rc, Jm in (("identity", lambda x: x, lambda x: x.copy(), np.eye(n)),
                                  ("flip", lambda x: x[::-1], lambda x: x[::-1].copy(), np.eye(n)[::-1].copy()),
                                  ("reshape", lambda x: x.reshape(-1), lambda x: x.copy(), np.eye(n))):
            x0 = rs.randint(-3, 4, size=n).astype(float)
            x0[0] = 1.0
            desc = {"operator": oname, "n": n, "x0": x0.tolist(), "solver": "LM"}
            ctx.case("generic-view-operator", desc)
            key = f"LM:alias-operator:{oname}"
            before = snap([x0, Jm])
            try:
                with quiet():
                    xv, iv = LM(rv, x0, lambda x: Jm, maxit=300, sparse=False).solve()
                    xc, ic = LM(rc, x0.copy(), lambda x: Jm.copy(), maxit=300, sparse=False).solve()
            except Exception as e:
                ctx.fail(key, desc, "a result", repr(e)[:100], "LM raises with callables returning views"); continue
            if snap([x0, Jm]) != before:
                ctx.fail("LM:mutates-argument", desc, "x0 and the stored Jacobian untouched", "changed", "solver modifies an object owned by the caller")
            g0 = np.linalg.norm(Jm.T @ x0[::-1] if oname == "flip" else Jm.T @ x0)
            g = np.linalg.norm(Jm.T @ rc(np.asarray(xv, dtype=float)))
            if iv["nfev"] < 300 and g > 1e-8 * g0 * (1 + 1e-6) + 1e-14 * (1 + g0):
                ctx.fail(key, desc, f"|J^T r| <= 1e-8*|g0| = {1e-8 * g0}", float(g), "with callables returning views the returned point is not stationary")
            elif iv["nfev"] != ic["nfev"] or not vclose(xv, xc, 1e-12):
                ctx.disagree(key, desc, [np.asarray(xc).tolist(), ic["nfev"]], [np.asarray(xv).tolist(), iv["nfev"]], "view-returning callables change the run")
                ctx.fail(key, desc, [np.asarray(xc).tolist(), ic["nfev"]], [np.asarray(xv).tolist(), iv["nfev"]], "result depends on whether the callables return views or copies")

    # ---- G1/G2 for the SciPy wrappers: start vectors of every dtype / container; every field equals the direct SciPy call
    for rep_ in range(3 * sc):
        n = 1 if rep_ % 3 == 0 else int(rs.randint(2, 4))
        B = gen_matrix(rs, n + 1, n, False); c = rs.randint(-3, 4, size=n + 1).astype(float) + 0.5
        F = lambda x, B=B, c=c: float(0.5 * np.sum((B @ np.atleast_1d(np.asarray(x, dtype=float)) - c) ** 2))
        G = lambda x, B=B, c=c: B.T @ (B @ np.atleast_1d(np.asarray(x, dtype=float)) - c)
        R = lambda x, B=B, c=c: B @ np.atleast_1d(np.asarray(x, dtype=float)) - c
        Jr = lambda x, B=B: B
        x0 = rs.randint(0, 2, size=n).astype(float); x0[0] = 1.0
        for kind in ("float64", "int64", "int32", "bool", "float32", "list", "uint8", "float16") + (("0d",) if n == 1 else ()):
            for wname in ("minimize", "maximize", "L_BFGS_B", "LS"):
                xk = as_kind(x0, kind)
                desc = {"wrapper": wname, "x0": x0.tolist(), "x0_kind": kind, "B": B.tolist(), "c": c.tolist()}
                ctx.case("generic-wrapper-start", desc)
                key = f"{wname}:x0-dtype:{kind}"
                before = snap([xk]) if isinstance(xk, np.ndarray) else repr(xk)
                try:
                    with quiet():
                        if wname == "minimize":
                            refs = [sopt.minimize(F, s_, jac=G, method="BFGS") for s_ in (as_kind(x0, kind), x0.copy())]
                            sol, info = minimize(F, xk, gradfunc=G, method="BFGS").solve()
                        elif wname == "maximize":
                            refs = [sopt.minimize(F, s_, jac=G, method="BFGS") for s_ in (as_kind(x0, kind), x0.copy())]
                            sol, info = maximize(lambda x: -F(x), xk, gradfunc=lambda x: -G(x), method="BFGS").solve()
                        elif wname == "L_BFGS_B":
                            rr = [sopt.fmin_l_bfgs_b(F, s_, fprime=G, approx_grad=0) for s_ in (as_kind(x0, kind), x0.copy())]
                            refs = [{"x": r_[0], "fun": r_[1], "jac": r_[2]["grad"], "nit": r_[2]["nit"], "nfev": r_[2]["funcalls"]} for r_ in rr]
                            sol, info = L_BFGS_B(F, xk, gradfunc=G).solve()
                        else:
                            rr = [sopt.least_squares(R, s_, jac=Jr, method="trf", loss="linear", xtol=1e-6, max_nfev=10000) for s_ in (as_kind(x0, kind), x0.copy())]
                            refs = [{"x": r_["x"], "fun": r_["fun"], "jac": r_["jac"], "nfev": r_["nfev"]} for r_ in rr]
                            sol, info = LS(R, xk, jacfun=Jr).solve()
                except Exception as e:
                    ctx.fail(key + ":raises", desc, "SciPy's result", repr(e)[:100], "wrapper (or SciPy) raises for this start vector"); continue
                after = snap([xk]) if isinstance(xk, np.ndarray) else repr(xk)
                if after != before:
                    ctx.fail(f"{wname}:mutates-argument", desc, "x0 untouched", "changed", "wrapper modifies the caller's start vector")
                retained.append((f"{wname}:x0-dtype:{kind}", sol, np.asarray(sol).tobytes(), desc))
                sol = np.asarray(sol)
                todo = [("same-start", refs[0])] + ([("float64-start", refs[1])] if kind not in ("float32", "float16") else [])
                for tag, ref in todo:
                    bad = []
                    # dtype is demanded against SciPy's own answer for the same start (SciPy itself hands back an integer start
                    # unchanged when it is already optimal); against the float64 start the numbers must agree
                    if (tag == "same-start" and sol.dtype != np.asarray(ref["x"]).dtype) or not same_deep(sol.astype(float), np.asarray(ref["x"], dtype=float)):
                        bad.append(("x", str(np.asarray(ref["x"]).tolist())[:80] + " " + str(np.asarray(ref["x"]).dtype), str(sol.tolist())[:80] + " " + str(sol.dtype)))
                    gotm = {"fun": info["func"], "jac": info.get("grad", info.get("jac")), "nit": info.get("nit"), "nfev": info["nfev"]}
                    for fld in ("fun", "jac", "nit", "nfev"):
                        if fld in ref and not same_deep(gotm[fld], ref[fld]):
                            bad.append((fld, str(ref[fld])[:60], str(gotm[fld])[:60]))
                    if bad:
                        ctx.disagree(key, {**desc, "reference": tag}, [b_[1] for b_ in bad], [b_[2] for b_ in bad], "fields differing: " + ",".join(b_[0] for b_ in bad))
                        ctx.fail(key, {**desc, "reference": tag}, {b_[0]: b_[1] for b_ in bad}, {b_[0]: b_[2] for b_ in bad},
                                 "wrapper does not return SciPy's result unchanged for this start vector (dtype / container)")
                        break

    # ---- G8: every array returned above, kept untouched, still holds what it held when it was returned
    for label, obj, raw, d in retained:
        if np.asarray(obj).tobytes() != raw:
            ctx.fail(label.split(":")[0] + ":retained-output", {**d, "label": label}, "returned array unchanged by later calls", "changed",
                     "an array returned earlier was overwritten by a later call (re-used internal buffer / view into state)")
    ctx.extra_cov["retained_outputs_verified"] = len(retained)
